// lint.go — C17: linter rules (Check / Fix), the CLI auto-fix pipeline and the language server's
// format action, run on texts supplied by lib/c17.py.  Texts travel as hex so that arbitrary bytes
// (invalid UTF-8, CR, NUL) survive JSON.
package main

import (
	"bufio"
	"bytes"
	"encoding/hex"
	"encoding/json"
	"fmt"
	"go/ast"
	"go/parser"
	"go/token"
	"io"
	"os"
	"path/filepath"
	"sort"
	"strconv"
	"strings"
	"unicode"

	gcmd "github.com/ajitpratap0/GoSQLX/cmd/gosqlx/cmd"
	"github.com/ajitpratap0/GoSQLX/pkg/linter"
	"github.com/ajitpratap0/GoSQLX/pkg/linter/rules/keywords"
	"github.com/ajitpratap0/GoSQLX/pkg/linter/rules/style"
	"github.com/ajitpratap0/GoSQLX/pkg/linter/rules/whitespace"
	"github.com/ajitpratap0/GoSQLX/pkg/lsp"
	"github.com/ajitpratap0/GoSQLX/pkg/sql/tokenizer"
)

type lintTok struct {
	K int    `json:"k"`
	V string `json:"v"`           // hex
	Q int    `json:"q,omitempty"` // quote rune of quoted strings / identifiers
}

type lintLex struct {
	Err      string    `json:"err,omitempty"`
	Toks     []lintTok `json:"toks,omitempty"`
	Comments []string  `json:"comments,omitempty"` // hex of Comment.Text
	Panic    string    `json:"panic,omitempty"`
}

func lintLexOf(s string) lintLex {
	var out lintLex
	out.Panic = guarded(func() {
		t := tokenizer.GetTokenizer()
		defer tokenizer.PutTokenizer(t)
		ts, err := t.Tokenize([]byte(s))
		if err != nil {
			out.Err = infoOf(err).Code
			if out.Err == "" {
				out.Err = "error"
			}
			return
		}
		for _, x := range ts {
			q := int(x.Token.Quote)
			if q == 0 && x.Token.Word != nil {
				q = int(x.Token.Word.QuoteStyle)
			}
			out.Toks = append(out.Toks, lintTok{int(x.Token.Type), hex.EncodeToString([]byte(x.Token.Value)), q})
		}
		for _, c := range t.Comments {
			out.Comments = append(out.Comments, hex.EncodeToString([]byte(c.Text)))
		}
	})
	return out
}

type lintRuleOut struct {
	ID     string   `json:"id"`
	Locs   [][2]int `json:"locs"`            // Check: (line, column) of every violation, in order
	Fix    string   `json:"fix,omitempty"`   // hex of Fix(text) (auto-fixable rules only)
	Fix2   string   `json:"fix2,omitempty"`  // hex of Fix(Fix(text)) when different from Fix
	Relint [][2]int `json:"relint"`          // Check on Fix(text)
	Lex    *lintLex `json:"lex,omitempty"`   // tokens of Fix(text) when Fix changed the text
	Panic  string   `json:"panic,omitempty"` // any panic in Check / Fix
	CanFix bool     `json:"canfix"`
}

func lintRuleSet(maxLen int, lower bool) []linter.Rule {
	st := keywords.CaseUpper
	if lower {
		st = keywords.CaseLower
	}
	return []linter.Rule{
		whitespace.NewTrailingWhitespaceRule(),
		whitespace.NewMixedIndentationRule(),
		whitespace.NewConsecutiveBlankLinesRule(1),
		whitespace.NewIndentationDepthRule(4, 4),
		whitespace.NewLongLinesRule(maxLen),
		whitespace.NewRedundantWhitespaceRule(),
		style.NewColumnAlignmentRule(),
		style.NewCommaPlacementRule(style.CommaTrailing),
		style.NewAliasingConsistencyRule(true),
		keywords.NewKeywordCaseRule(st),
	}
}

func locsOf(vs []linter.Violation) [][2]int {
	out := [][2]int{}
	for _, v := range vs {
		out = append(out, [2]int{v.Location.Line, v.Location.Column})
	}
	return out
}

// the context the real LintString builds (tokens and AST attached when available)
func lintAll(l *linter.Linter, text string) (locs map[string][][2]int, errs string) {
	locs = map[string][][2]int{}
	res := l.LintString(text, "case.sql")
	if res.Error != nil {
		errs = res.Error.Error()
	}
	for _, v := range res.Violations {
		locs[v.Rule] = append(locs[v.Rule], [2]int{v.Location.Line, v.Location.Column})
	}
	return
}

func init() {
	// stdin: {"t": hex, "maxlen": n, "lower": bool, "lex": bool}
	subcmds["lint"] = func(args []string) int {
		sc := bufio.NewScanner(os.Stdin)
		sc.Buffer(make([]byte, 1<<20), 1<<28)
		for sc.Scan() {
			var in struct {
				T      string `json:"t"`
				MaxLen int    `json:"maxlen"`
				Lower  bool   `json:"lower"`
				Lex    bool   `json:"lex"`
			}
			if json.Unmarshal(sc.Bytes(), &in) != nil {
				continue
			}
			raw, _ := hex.DecodeString(in.T)
			text := string(raw)
			if in.MaxLen == 0 {
				in.MaxLen = 100
			}
			rules := lintRuleSet(in.MaxLen, in.Lower)
			out := map[string]interface{}{}
			var ros []lintRuleOut
			for _, r := range rules {
				ro := lintRuleOut{ID: r.ID(), CanFix: r.CanAutoFix(), Locs: [][2]int{}, Relint: [][2]int{}}
				ro.Panic = guarded(func() {
					// rule-level Check on the plain text context (what every rule sees when tokenization fails;
					// the six layout rules never look at tokens)
					vs, err := r.Check(linter.NewContext(text, "case.sql"))
					if err != nil {
						ro.Panic = "check error: " + err.Error()
					}
					ro.Locs = locsOf(vs)
					if !r.CanAutoFix() {
						return
					}
					fx, err := r.Fix(text, vs)
					if err != nil {
						ro.Panic = "fix error: " + err.Error()
						return
					}
					ro.Fix = hex.EncodeToString([]byte(fx))
					fx2, _ := r.Fix(fx, nil)
					if fx2 != fx {
						ro.Fix2 = hex.EncodeToString([]byte(fx2))
					}
					vs2, _ := r.Check(linter.NewContext(fx, "case.sql"))
					ro.Relint = locsOf(vs2)
					if in.Lex && fx != text {
						lx := lintLexOf(fx)
						ro.Lex = &lx
					}
				})
				ros = append(ros, ro)
			}
			out["rules"] = ros
			// the linter proper (LintString, all ten rules, tokens/AST attached)
			var all map[string][][2]int
			var lerr string
			pn := guarded(func() { all, lerr = lintAll(linter.New(rules...), text) })
			out["all"] = all
			if lerr != "" {
				out["all_err"] = lerr
			}
			if pn != "" {
				out["all_panic"] = pn
			}
			if in.Lex {
				out["lex"] = lintLexOf(text)
			}
			emitJSON(out)
		}
		return 0
	}

	// lextext: stdin {"t": hex} -> tokens/comments of the real tokenizer
	subcmds["lintlex"] = func(args []string) int {
		sc := bufio.NewScanner(os.Stdin)
		sc.Buffer(make([]byte, 1<<20), 1<<28)
		for sc.Scan() {
			var in struct {
				T string `json:"t"`
			}
			if json.Unmarshal(sc.Bytes(), &in) != nil {
				continue
			}
			raw, _ := hex.DecodeString(in.T)
			emitJSON(lintLexOf(string(raw)))
		}
		return 0
	}

	// linttables <repo>: Unicode classes used by the rules (from the toolchain's unicode package), the
	// runes whose upper-case image is an ASCII letter, and the keyword set of L007 read from the source
	subcmds["linttables"] = func(args []string) int {
		type rg [2]int
		ranges := func(pred func(rune) bool) []rg {
			out := []rg{}
			start := -1
			for r := 0; r <= unicode.MaxRune+1; r++ {
				in := r <= unicode.MaxRune && pred(rune(r))
				if in && start < 0 {
					start = r
				}
				if !in && start >= 0 {
					out = append(out, rg{start, r - 1})
					start = -1
				}
			}
			return out
		}
		var upper [][2]int
		var lowerOf [][2]int
		for r := rune(0); r <= unicode.MaxRune; r++ {
			u := unicode.ToUpper(r)
			if u >= 'A' && u <= 'Z' {
				upper = append(upper, [2]int{int(r), int(u)})
				lowerOf = append(lowerOf, [2]int{int(r), int(unicode.ToLower(r))})
			}
		}
		repo := "/repo"
		if len(args) > 0 {
			repo = args[0]
		}
		kws, err := lintKeywordsFromSource(filepath.Join(repo, "pkg/linter/rules/keywords/keyword_case.go"))
		if err != nil {
			fmt.Fprintln(os.Stderr, err)
			return 1
		}
		// the characters that start / continue the tag of a dollar-quoted string, as the rules' scanner reads them:
		// observed on linter.LexMap itself ("$r$ $r$" / "$ar$ $ar$" is one literal exactly when r starts / continues a tag)
		lit := func(s string) bool { return linter.LexMap(s)[0] == linter.LexLiteral }
		tagStart := func(r rune) bool { return r != '$' && lit("$"+string(r)+"$ $"+string(r)+"$") }
		tagPart := func(r rune) bool { return r != '$' && lit("$a"+string(r)+"$ $a"+string(r)+"$") }
		emitJSON(map[string]interface{}{
			"letter": ranges(unicode.IsLetter), "digit": ranges(unicode.IsDigit), "space": ranges(unicode.IsSpace),
			"upper_ascii": upper, "lower_of": lowerOf, "keywords": kws,
			"idstart": ranges(tagStart), "idpart": ranges(tagPart),
		})
		return 0
	}

	// lintcli file...: the real CLI command `gosqlx lint --auto-fix file...` in this process
	subcmds["lintcli"] = func(args []string) int {
		os.Args = append([]string{"gosqlx", "lint", "--auto-fix"}, args...)
		if err := gcmd.Execute(); err != nil {
			return 1
		}
		return 0
	}

	// lintlsp: stdin {"t": hex, "tab": n, "spaces": bool, "final": bool} per line -> the text after the
	// language server's textDocument/formatting edit has been applied (one server, one document per case)
	subcmds["lintlsp"] = func(args []string) int {
		var allCases []struct {
			T      string `json:"t"`
			Tab    int    `json:"tab"`
			Spaces bool   `json:"spaces"`
			Final  bool   `json:"final"`
		}
		sc := bufio.NewScanner(os.Stdin)
		sc.Buffer(make([]byte, 1<<20), 1<<28)
		for sc.Scan() {
			var c struct {
				T      string `json:"t"`
				Tab    int    `json:"tab"`
				Spaces bool   `json:"spaces"`
				Final  bool   `json:"final"`
			}
			if json.Unmarshal(sc.Bytes(), &c) == nil {
				allCases = append(allCases, c)
			}
		}
		// the server throttles to RateLimitRequests per second: one server per 30 documents
		for base := 0; base < len(allCases); base += 30 {
			end := base + 30
			if end > len(allCases) {
				end = len(allCases)
			}
			cases := allCases[base:end]
			func() {
				var in bytes.Buffer
				frame := func(v interface{}) {
					b, _ := json.Marshal(v)
					fmt.Fprintf(&in, "Content-Length: %d\r\n\r\n%s", len(b), b)
				}
				frame(map[string]interface{}{"jsonrpc": "2.0", "id": 0, "method": "initialize", "params": map[string]interface{}{"capabilities": map[string]interface{}{}}})
				frame(map[string]interface{}{"jsonrpc": "2.0", "method": "initialized", "params": map[string]interface{}{}})
				for i, c := range cases {
					raw, _ := hex.DecodeString(c.T)
					uri := "file:///case" + strconv.Itoa(i) + ".sql"
					frame(map[string]interface{}{"jsonrpc": "2.0", "method": "textDocument/didOpen", "params": map[string]interface{}{
						"textDocument": map[string]interface{}{"uri": uri, "languageId": "sql", "version": 1, "text": string(raw)}}})
					frame(map[string]interface{}{"jsonrpc": "2.0", "id": i + 1, "method": "textDocument/formatting", "params": map[string]interface{}{
						"textDocument": map[string]interface{}{"uri": uri},
						"options":      map[string]interface{}{"tabSize": c.Tab, "insertSpaces": c.Spaces, "insertFinalNewline": c.Final}}})
					frame(map[string]interface{}{"jsonrpc": "2.0", "method": "textDocument/didClose", "params": map[string]interface{}{
						"textDocument": map[string]interface{}{"uri": uri}}})
				}
				frame(map[string]interface{}{"jsonrpc": "2.0", "id": len(cases) + 1, "method": "shutdown"})
				frame(map[string]interface{}{"jsonrpc": "2.0", "method": "exit"})
				var outb bytes.Buffer
				pn := guarded(func() {
					srv := lsp.NewServer(&in, &outb, nil)
					_ = srv.Run()
				})
				// parse responses
				type resp struct {
					ID     *int            `json:"id"`
					Result json.RawMessage `json:"result"`
					Error  json.RawMessage `json:"error"`
				}
				byID := map[int]resp{}
				rd := bufio.NewReader(&outb)
			readloop:
				for {
					n := -1
					for {
						line, err := rd.ReadString('\n')
						if err != nil {
							break readloop
						}
						line = strings.TrimSpace(line)
						if line == "" {
							break
						}
						if strings.HasPrefix(strings.ToLower(line), "content-length:") {
							n, _ = strconv.Atoi(strings.TrimSpace(line[len("content-length:"):]))
						}
					}
					if n < 0 {
						break
					}
					body := make([]byte, n)
					if _, err := io.ReadFull(rd, body); err != nil {
						break
					}
					var r resp
					if json.Unmarshal(body, &r) == nil && r.ID != nil {
						byID[*r.ID] = r
					}
				}
				for i, c := range cases {
					r, ok := byID[i+1]
					o := map[string]interface{}{"i": base + i}
					if !ok {
						o["missing"] = true
						if pn != "" {
							o["panic"] = pn
						}
						emitJSON(o)
						continue
					}
					if len(r.Error) > 0 && string(r.Error) != "null" {
						o["error"] = string(r.Error)
						emitJSON(o)
						continue
					}
					var edits []struct {
						Range struct {
							Start struct{ Line, Character int }
							End   struct{ Line, Character int }
						}
						NewText string
					}
					_ = json.Unmarshal(r.Result, &edits)
					raw, _ := hex.DecodeString(c.T)
					if len(edits) == 0 {
						o["unchanged"] = true
						o["out"] = hex.EncodeToString(raw)
					} else {
						// the handler always answers with one edit that replaces the whole document
						o["out"] = hex.EncodeToString([]byte(edits[0].NewText))
						o["range"] = [4]int{edits[0].Range.Start.Line, edits[0].Range.Start.Character, edits[0].Range.End.Line, edits[0].Range.End.Character}
						o["nedits"] = len(edits)
					}
					emitJSON(o)
				}
			}()
		}
		return 0
	}
}

// keyword set of L007, read from the composite literal `sqlKeywords = map[string]bool{...}`
func lintKeywordsFromSource(path string) ([]string, error) {
	fs := token.NewFileSet()
	f, err := parser.ParseFile(fs, path, nil, 0)
	if err != nil {
		return nil, err
	}
	var out []string
	ast.Inspect(f, func(n ast.Node) bool {
		vs, ok := n.(*ast.ValueSpec)
		if !ok {
			return true
		}
		for i, nm := range vs.Names {
			if nm.Name != "sqlKeywords" || i >= len(vs.Values) {
				continue
			}
			cl, ok := vs.Values[i].(*ast.CompositeLit)
			if !ok {
				continue
			}
			for _, e := range cl.Elts {
				kv, ok := e.(*ast.KeyValueExpr)
				if !ok {
					continue
				}
				k, ok1 := kv.Key.(*ast.BasicLit)
				v, ok2 := kv.Value.(*ast.Ident)
				if ok1 && ok2 && v.Name == "true" {
					if s, err := strconv.Unquote(k.Value); err == nil {
						out = append(out, s)
					}
				}
			}
		}
		return true
	})
	if len(out) == 0 {
		return nil, fmt.Errorf("sqlKeywords not found in %s", path)
	}
	sort.Strings(out)
	return out, nil
}
