// lint.go — C17: linter rules (Check / Fix), the CLI auto-fix pipeline and the language server's
// format action, run on texts supplied by lib/c17.py.  Texts travel as hex so that arbitrary bytes
// (invalid UTF-8, CR, NUL) survive JSON.
package main

import (
	"bufio"
	"bytes"
	"encoding/hex"
	"encoding/json"
	"fmt"
	"go/ast"
	"go/parser"
	"go/token"
	"io"
	"os"
	"path/filepath"
	"sort"
	"strconv"
	"strings"
	"unicode"
	"unicode/utf8"

	gcmd "github.com/ajitpratap0/GoSQLX/cmd/gosqlx/cmd"
	"github.com/ajitpratap0/GoSQLX/pkg/linter"
	"github.com/ajitpratap0/GoSQLX/pkg/linter/rules/keywords"
	"github.com/ajitpratap0/GoSQLX/pkg/linter/rules/style"
	"github.com/ajitpratap0/GoSQLX/pkg/linter/rules/whitespace"
	"github.com/ajitpratap0/GoSQLX/pkg/lsp"
	sqlkw "github.com/ajitpratap0/GoSQLX/pkg/sql/keywords"
	"github.com/ajitpratap0/GoSQLX/pkg/sql/tokenizer"
)

type lintTok struct {
	K int    `json:"k"`
	V string `json:"v"`           // hex
	Q int    `json:"q,omitempty"` // quote rune of quoted strings / identifiers
}

type lintLex struct {
	Err      string    `json:"err,omitempty"`
	Toks     []lintTok `json:"toks,omitempty"`
	Comments []string  `json:"comments,omitempty"` // hex of Comment.Text
	Panic    string    `json:"panic,omitempty"`
}

func lintLexOf(s string) lintLex {
	var out lintLex
	out.Panic = guarded(func() {
		t := tokenizer.GetTokenizer()
		defer tokenizer.PutTokenizer(t)
		ts, err := t.Tokenize([]byte(s))
		if err != nil {
			out.Err = infoOf(err).Code
			if out.Err == "" {
				out.Err = "error"
			}
			return
		}
		for _, x := range ts {
			q := int(x.Token.Quote)
			if q == 0 && x.Token.Word != nil {
				q = int(x.Token.Word.QuoteStyle)
			}
			out.Toks = append(out.Toks, lintTok{int(x.Token.Type), hex.EncodeToString([]byte(x.Token.Value)), q})
		}
		for _, c := range t.Comments {
			out.Comments = append(out.Comments, hex.EncodeToString([]byte(c.Text)))
		}
	})
	return out
}

type lintRuleOut struct {
	ID     string   `json:"id"`
	Locs   [][2]int `json:"locs"`            // Check: (line, column) of every violation, in order
	Fix    string   `json:"fix,omitempty"`   // hex of Fix(text) (auto-fixable rules only)
	Fix2   string   `json:"fix2,omitempty"`  // hex of Fix(Fix(text)) when different from Fix
	Relint [][2]int `json:"relint"`          // Check on Fix(text)
	Lex    *lintLex `json:"lex,omitempty"`   // tokens of Fix(text) when Fix changed the text
	Panic  string   `json:"panic,omitempty"` // any panic in Check / Fix
	CanFix bool     `json:"canfix"`
}

func lintRuleSet(maxLen int, lower bool) []linter.Rule {
	st := keywords.CaseUpper
	if lower {
		st = keywords.CaseLower
	}
	return []linter.Rule{
		whitespace.NewTrailingWhitespaceRule(),
		whitespace.NewMixedIndentationRule(),
		whitespace.NewConsecutiveBlankLinesRule(1),
		whitespace.NewIndentationDepthRule(4, 4),
		whitespace.NewLongLinesRule(maxLen),
		whitespace.NewRedundantWhitespaceRule(),
		style.NewColumnAlignmentRule(),
		style.NewCommaPlacementRule(style.CommaTrailing),
		style.NewAliasingConsistencyRule(true),
		keywords.NewKeywordCaseRule(st),
	}
}

func locsOf(vs []linter.Violation) [][2]int {
	out := [][2]int{}
	for _, v := range vs {
		out = append(out, [2]int{v.Location.Line, v.Location.Column})
	}
	return out
}

// the context the real LintString builds (tokens and AST attached when available)
func lintAll(l *linter.Linter, text string) (locs map[string][][2]int, errs string) {
	locs = map[string][][2]int{}
	res := l.LintString(text, "case.sql")
	if res.Error != nil {
		errs = res.Error.Error()
	}
	for _, v := range res.Violations {
		locs[v.Rule] = append(locs[v.Rule], [2]int{v.Location.Line, v.Location.Column})
	}
	return
}

func init() {
	// stdin: {"t": hex, "maxlen": n, "lower": bool, "lex": bool}
	subcmds["lint"] = func(args []string) int {
		sc := bufio.NewScanner(os.Stdin)
		sc.Buffer(make([]byte, 1<<20), 1<<28)
		for sc.Scan() {
			var in struct {
				T      string `json:"t"`
				MaxLen int    `json:"maxlen"`
				Lower  bool   `json:"lower"`
				Lex    bool   `json:"lex"`
			}
			if json.Unmarshal(sc.Bytes(), &in) != nil {
				continue
			}
			raw, _ := hex.DecodeString(in.T)
			text := string(raw)
			if in.MaxLen == 0 {
				in.MaxLen = 100
			}
			rules := lintRuleSet(in.MaxLen, in.Lower)
			out := map[string]interface{}{}
			var ros []lintRuleOut
			for _, r := range rules {
				ro := lintRuleOut{ID: r.ID(), CanFix: r.CanAutoFix(), Locs: [][2]int{}, Relint: [][2]int{}}
				ro.Panic = guarded(func() {
					// rule-level Check on the plain text context (what every rule sees when tokenization fails;
					// the six layout rules never look at tokens)
					vs, err := r.Check(linter.NewContext(text, "case.sql"))
					if err != nil {
						ro.Panic = "check error: " + err.Error()
					}
					ro.Locs = locsOf(vs)
					if !r.CanAutoFix() {
						return
					}
					fx, err := r.Fix(text, vs)
					if err != nil {
						ro.Panic = "fix error: " + err.Error()
						return
					}
					ro.Fix = hex.EncodeToString([]byte(fx))
					fx2, _ := r.Fix(fx, nil)
					if fx2 != fx {
						ro.Fix2 = hex.EncodeToString([]byte(fx2))
					}
					vs2, _ := r.Check(linter.NewContext(fx, "case.sql"))
					ro.Relint = locsOf(vs2)
					if in.Lex && fx != text {
						lx := lintLexOf(fx)
						ro.Lex = &lx
					}
				})
				ros = append(ros, ro)
			}
			out["rules"] = ros
			// the linter proper (LintString, all ten rules, tokens/AST attached)
			var all map[string][][2]int
			var lerr string
			pn := guarded(func() { all, lerr = lintAll(linter.New(rules...), text) })
			out["all"] = all
			if lerr != "" {
				out["all_err"] = lerr
			}
			if pn != "" {
				out["all_panic"] = pn
			}
			if in.Lex {
				out["lex"] = lintLexOf(text)
			}
			emitJSON(out)
		}
		return 0
	}

	// lextext: stdin {"t": hex} -> tokens/comments of the real tokenizer
	subcmds["lintlex"] = func(args []string) int {
		sc := bufio.NewScanner(os.Stdin)
		sc.Buffer(make([]byte, 1<<20), 1<<28)
		for sc.Scan() {
			var in struct {
				T string `json:"t"`
			}
			if json.Unmarshal(sc.Bytes(), &in) != nil {
				continue
			}
			raw, _ := hex.DecodeString(in.T)
			emitJSON(lintLexOf(string(raw)))
		}
		return 0
	}

	// linttables <repo>: Unicode classes used by the rules (from the toolchain's unicode package), the
	// runes whose upper-case image is an ASCII letter, and the keyword set of L007 OBSERVED on the rule itself
	// (lintObserveKeywords: which candidate words does the exported rule re-case / flag)
	subcmds["linttables"] = func(args []string) int {
		type rg [2]int
		ranges := func(pred func(rune) bool) []rg {
			out := []rg{}
			start := -1
			for r := 0; r <= unicode.MaxRune+1; r++ {
				in := r <= unicode.MaxRune && pred(rune(r))
				if in && start < 0 {
					start = r
				}
				if !in && start >= 0 {
					out = append(out, rg{start, r - 1})
					start = -1
				}
			}
			return out
		}
		var upper [][2]int
		var lowerOf [][2]int
		for r := rune(0); r <= unicode.MaxRune; r++ {
			u := unicode.ToUpper(r)
			if u >= 'A' && u <= 'Z' {
				upper = append(upper, [2]int{int(r), int(u)})
				lowerOf = append(lowerOf, [2]int{int(r), int(unicode.ToLower(r))})
			}
		}
		repo := "/repo"
		if len(args) > 0 {
			repo = args[0]
		}
		cands := lintKeywordCandidates(repo)
		kws, incons := lintObserveKeywords(cands)
		// the characters that start / continue the tag of a dollar-quoted string, as the rules' scanner reads them:
		// observed on linter.LexMap itself ("$r$ $r$" / "$ar$ $ar$" is one literal exactly when r starts / continues a tag)
		lit := func(s string) bool { return linter.LexMap(s)[0] == linter.LexLiteral }
		tagStart := func(r rune) bool { return r != '$' && lit("$"+string(r)+"$ $"+string(r)+"$") }
		tagPart := func(r rune) bool { return r != '$' && lit("$a"+string(r)+"$ $a"+string(r)+"$") }
		emitJSON(map[string]interface{}{
			"letter": ranges(unicode.IsLetter), "digit": ranges(unicode.IsDigit), "space": ranges(unicode.IsSpace),
			"upper_ascii": upper, "lower_of": lowerOf, "keywords": kws,
			"keyword_candidates": len(cands), "keyword_inconsistent": incons,
			"idstart": ranges(tagStart), "idpart": ranges(tagPart),
		})
		return 0
	}

	// lintkw: stdin one JSON list of words -> {"keywords": [...], "inconsistent": [...]}: the same observation for words
	// the candidate vocabulary does not hold (every word of the texts of a run is asked)
	subcmds["lintkw"] = func(args []string) int {
		sc := bufio.NewScanner(os.Stdin)
		sc.Buffer(make([]byte, 1<<20), 1<<28)
		for sc.Scan() {
			var ws []string
			if json.Unmarshal(sc.Bytes(), &ws) != nil {
				continue
			}
			kws, incons := lintObserveKeywords(ws)
			emitJSON(map[string]interface{}{"keywords": kws, "inconsistent": incons})
		}
		return 0
	}

	// lintcli file...: the real CLI command `gosqlx lint --auto-fix file...` in this process
	subcmds["lintcli"] = func(args []string) int {
		os.Args = append([]string{"gosqlx", "lint", "--auto-fix"}, args...)
		if err := gcmd.Execute(); err != nil {
			return 1
		}
		return 0
	}

	// lintlsp: stdin {"t": hex, "tab": n, "spaces": bool, "final": bool} per line -> the text after the
	// language server's textDocument/formatting edit has been applied (one server, one document per case)
	subcmds["lintlsp"] = func(args []string) int {
		var allCases []struct {
			T      string `json:"t"`
			Tab    int    `json:"tab"`
			Spaces bool   `json:"spaces"`
			Final  bool   `json:"final"`
		}
		sc := bufio.NewScanner(os.Stdin)
		sc.Buffer(make([]byte, 1<<20), 1<<28)
		for sc.Scan() {
			var c struct {
				T      string `json:"t"`
				Tab    int    `json:"tab"`
				Spaces bool   `json:"spaces"`
				Final  bool   `json:"final"`
			}
			if json.Unmarshal(sc.Bytes(), &c) == nil {
				allCases = append(allCases, c)
			}
		}
		// the server throttles to RateLimitRequests per second: one server per 30 documents
		for base := 0; base < len(allCases); base += 30 {
			end := base + 30
			if end > len(allCases) {
				end = len(allCases)
			}
			cases := allCases[base:end]
			func() {
				var in bytes.Buffer
				frame := func(v interface{}) {
					b, _ := json.Marshal(v)
					fmt.Fprintf(&in, "Content-Length: %d\r\n\r\n%s", len(b), b)
				}
				frame(map[string]interface{}{"jsonrpc": "2.0", "id": 0, "method": "initialize", "params": map[string]interface{}{"capabilities": map[string]interface{}{}}})
				frame(map[string]interface{}{"jsonrpc": "2.0", "method": "initialized", "params": map[string]interface{}{}})
				for i, c := range cases {
					raw, _ := hex.DecodeString(c.T)
					uri := "file:///case" + strconv.Itoa(i) + ".sql"
					frame(map[string]interface{}{"jsonrpc": "2.0", "method": "textDocument/didOpen", "params": map[string]interface{}{
						"textDocument": map[string]interface{}{"uri": uri, "languageId": "sql", "version": 1, "text": string(raw)}}})
					frame(map[string]interface{}{"jsonrpc": "2.0", "id": i + 1, "method": "textDocument/formatting", "params": map[string]interface{}{
						"textDocument": map[string]interface{}{"uri": uri},
						"options":      map[string]interface{}{"tabSize": c.Tab, "insertSpaces": c.Spaces, "insertFinalNewline": c.Final}}})
					frame(map[string]interface{}{"jsonrpc": "2.0", "method": "textDocument/didClose", "params": map[string]interface{}{
						"textDocument": map[string]interface{}{"uri": uri}}})
				}
				frame(map[string]interface{}{"jsonrpc": "2.0", "id": len(cases) + 1, "method": "shutdown"})
				frame(map[string]interface{}{"jsonrpc": "2.0", "method": "exit"})
				var outb bytes.Buffer
				pn := guarded(func() {
					srv := lsp.NewServer(&in, &outb, nil)
					_ = srv.Run()
				})
				// parse responses
				type resp struct {
					ID     *int            `json:"id"`
					Result json.RawMessage `json:"result"`
					Error  json.RawMessage `json:"error"`
				}
				byID := map[int]resp{}
				rd := bufio.NewReader(&outb)
			readloop:
				for {
					n := -1
					for {
						line, err := rd.ReadString('\n')
						if err != nil {
							break readloop
						}
						line = strings.TrimSpace(line)
						if line == "" {
							break
						}
						if strings.HasPrefix(strings.ToLower(line), "content-length:") {
							n, _ = strconv.Atoi(strings.TrimSpace(line[len("content-length:"):]))
						}
					}
					if n < 0 {
						break
					}
					body := make([]byte, n)
					if _, err := io.ReadFull(rd, body); err != nil {
						break
					}
					var r resp
					if json.Unmarshal(body, &r) == nil && r.ID != nil {
						byID[*r.ID] = r
					}
				}
				for i, c := range cases {
					r, ok := byID[i+1]
					o := map[string]interface{}{"i": base + i}
					if !ok {
						o["missing"] = true
						if pn != "" {
							o["panic"] = pn
						}
						emitJSON(o)
						continue
					}
					if len(r.Error) > 0 && string(r.Error) != "null" {
						o["error"] = string(r.Error)
						emitJSON(o)
						continue
					}
					var edits []struct {
						Range struct {
							Start struct{ Line, Character int }
							End   struct{ Line, Character int }
						}
						NewText string
					}
					_ = json.Unmarshal(r.Result, &edits)
					raw, _ := hex.DecodeString(c.T)
					if len(edits) == 0 {
						o["unchanged"] = true
						o["out"] = hex.EncodeToString(raw)
					} else {
						// the handler always answers with one edit that replaces the whole document
						o["out"] = hex.EncodeToString([]byte(edits[0].NewText))
						o["range"] = [4]int{edits[0].Range.Start.Line, edits[0].Range.Start.Character, edits[0].Range.End.Line, edits[0].Range.End.Character}
						o["nedits"] = len(edits)
					}
					emitJSON(o)
				}
			}()
		}
		return 0
	}
}

// The keyword set of L007 is OBSERVED, not read from the source: a word W (upper case) is a keyword iff the exported rule
// (keywords.NewKeywordCaseRule(CaseUpper) on a text that consists of the word in lower case) flags the word as a whole
// (one violation, at column 1) and its Fix gives W.
// How the rule stores the set (map literal, sorted list, generated table, another package) does not matter.
//
// Candidates: every word of every string literal of the non-test sources under pkg/linter (however the set is
// written down, its words are string constants there), the keyword tables of the tokenizer and of pkg/sql/keywords,
// and a dictionary of SQL words and ordinary identifiers; lib/c17.py asks again (`lintkw`) for every word of the texts
// of a run that is not among them, so the set is exact on everything the oracles and the model are evaluated on.
//
// A set is only a set if the rule treats a word the same in every spelling: for each candidate the spellings lower,
// UPPER, Capitalised and aLTERNATING are put to Check and Fix under both styles; expected from "W is / is not a
// keyword": flagged iff keyword and not already in the preferred case; Fix gives the preferred case iff keyword, else
// the text unchanged.  Any other answer is returned as an inconsistency (lib/c17.py reports it: the rule flags
// something else than "keyword in the wrong case").
func lintWordish(w string) bool {
	if w == "" || len(w) > 40 {
		return false
	}
	for i, r := range w {
		if !(unicode.IsLetter(r) || r == '_' || (i > 0 && unicode.IsDigit(r))) {
			return false
		}
	}
	// the case images must be words of the same length class (ToUpper / ToLower are what the rule applies)
	return utf8.ValidString(w)
}

func lintWordsOf(text string, into map[string]bool) {
	start := -1
	flush := func(end int) {
		if start >= 0 {
			if w := text[start:end]; lintWordish(w) {
				into[strings.ToUpper(w)] = true
			}
			start = -1
		}
	}
	for i, r := range text {
		if unicode.IsLetter(r) || r == '_' || (start >= 0 && unicode.IsDigit(r)) {
			if start < 0 {
				start = i
			}
		} else {
			flush(i)
		}
	}
	flush(len(text))
}

func lintKeywordCandidates(repo string) []string {
	set := map[string]bool{}
	// (1) string literals of the linter's sources
	filepath.Walk(filepath.Join(repo, "pkg", "linter"), func(path string, info os.FileInfo, err error) error {
		if err != nil || info.IsDir() || !strings.HasSuffix(path, ".go") || strings.HasSuffix(path, "_test.go") {
			return nil
		}
		fs := token.NewFileSet()
		f, err := parser.ParseFile(fs, path, nil, 0)
		if err != nil {
			return nil
		}
		ast.Inspect(f, func(n ast.Node) bool {
			if bl, ok := n.(*ast.BasicLit); ok && bl.Kind == token.STRING {
				if v, err := strconv.Unquote(bl.Value); err == nil {
					lintWordsOf(v, set)
				}
			}
			return true
		})
		return nil
	})
	// (2) keyword tables of the tokenizer and of pkg/sql/keywords
	for k := range tokenizer.VerifKeywordTypes() {
		lintWordsOf(k, set)
	}
	for k := range tokenizer.VerifCompoundKeywordTypes() {
		lintWordsOf(k, set)
	}
	for _, d := range sqlkw.AllDialects() {
		for _, k := range sqlkw.DialectKeywords(d) {
			lintWordsOf(k.Word, set)
		}
	}
	for _, l := range [][]sqlkw.Keyword{sqlkw.RESERVED_FOR_TABLE_ALIAS, sqlkw.ADDITIONAL_KEYWORDS} {
		for _, k := range l {
			lintWordsOf(k.Word, set)
		}
	}
	// (3) dictionary
	lintWordsOf(lintDictionary, set)
	out := make([]string, 0, len(set))
	for w := range set {
		out = append(out, w)
	}
	sort.Strings(out)
	return out
}

type lintKwIncons struct {
	Word     string `json:"word"`
	Spelling string `json:"spelling"`
	Style    string `json:"style"`
	Keyword  bool   `json:"keyword"`           // what the lower-case spelling under CaseUpper said
	Flagged  int    `json:"flagged"`           // number of violations Check reported on the one-word text
	Fix      string `json:"fix"`               // Fix(text)
	Want     string `json:"want"`              // expected Fix(text)
	Panic    string `json:"panic,omitempty"`
}

func lintAlternating(w string) string {
	var sb strings.Builder
	up := false
	for _, r := range w {
		if up {
			sb.WriteString(strings.ToUpper(string(r)))
		} else {
			sb.WriteString(strings.ToLower(string(r)))
		}
		up = !up
	}
	return sb.String()
}

func lintObserveKeywords(words []string) (kws []string, incons []lintKwIncons) {
	kws, incons = []string{}, []lintKwIncons{}
	up, lo := keywords.NewKeywordCaseRule(keywords.CaseUpper), keywords.NewKeywordCaseRule(keywords.CaseLower)
	ask := func(r *keywords.KeywordCaseRule, text string) (n int, fix string, pn string, whole bool) {
		pn = guarded(func() {
			vs, _ := r.Check(linter.NewContext(text, "case.sql"))
			n = len(vs)
			whole = n == 1 && vs[0].Location.Line == 1 && vs[0].Location.Column == 1
			fix, _ = r.Fix(text, vs)
		})
		return
	}
	seen := map[string]bool{}
	for _, w := range words {
		W := strings.ToUpper(w)
		l := strings.ToLower(W)
		if seen[W] || !lintWordish(W) || !lintWordish(l) || strings.ToUpper(l) != W || l == W {
			continue // no letter with two cases, or case images that do not round-trip: not a spelling the set is asked about
		}
		seen[W] = true
		// a keyword: the word as a whole is flagged (one violation, at its first character) and re-cased as a whole; a
		// rule that flags a part of the word, or flags without re-casing, shows up below as an inconsistency
		_, fix0, pn0, whole0 := ask(up, l)
		isKw := pn0 == "" && whole0 && fix0 == W
		if isKw {
			kws = append(kws, W)
		}
		capd := strings.ToUpper(l[:1]) + l[1:]
		if r, sz := utf8.DecodeRuneInString(l); sz > 0 {
			capd = strings.ToUpper(string(r)) + l[sz:]
		}
		for _, sp := range []string{l, W, capd, lintAlternating(l)} {
			if strings.ToUpper(sp) != W || strings.ToLower(sp) != l {
				continue
			}
			for _, st := range []struct {
				name string
				r    *keywords.KeywordCaseRule
				pref string
			}{{"upper", up, W}, {"lower", lo, l}} {
				n, fix, pn, _ := ask(st.r, sp)
				wantN, wantFix := 0, sp
				if isKw {
					wantFix = st.pref
					if sp != st.pref {
						wantN = 1
					}
				}
				if pn != "" || n != wantN || fix != wantFix {
					if len(incons) < 40 {
						incons = append(incons, lintKwIncons{Word: W, Spelling: sp, Style: st.name, Keyword: isKw, Flagged: n, Fix: fix, Want: wantFix, Panic: pn})
					}
				}
			}
		}
	}
	sort.Strings(kws)
	return
}

// SQL words (reserved and non-reserved words of the standard and of the common dialects) and ordinary identifiers
const lintDictionary = `
ABORT ABS ABSOLUTE ACCESS ACTION ADD ADMIN AFTER AGGREGATE ALL ALLOCATE ALSO ALTER ALWAYS ANALYSE ANALYZE AND ANY ARE ARRAY AS ASC
ASENSITIVE ASSERTION ASSIGNMENT ASYMMETRIC AT ATOMIC ATTACH ATTRIBUTE AUTHORIZATION AUTO_INCREMENT AUTOINCREMENT AVG BACKWARD BEFORE
BEGIN BETWEEN BIGINT BINARY BIT BLOB BOOLEAN BOTH BREADTH BY CACHE CALL CALLED CASCADE CASCADED CASE CAST CATALOG CEIL CEILING CHAIN
CHAR CHARACTER CHARACTERISTICS CHECK CHECKPOINT CLASS CLOB CLOSE CLUSTER COALESCE COLLATE COLLATION COLUMN COLUMNS COMMENT COMMENTS
COMMIT COMMITTED CONCURRENTLY CONDITION CONFLICT CONNECT CONNECTION CONSTRAINT CONSTRAINTS CONTAINS CONTENT CONTINUE CONVERSION
CONVERT COPY CORRESPONDING COUNT CREATE CROSS CSV CUBE CUME_DIST CURRENT CURRENT_DATE CURRENT_ROLE CURRENT_TIME CURRENT_TIMESTAMP
CURRENT_USER CURSOR CYCLE DATA DATABASE DATABASES DATE DATETIME DAY DEALLOCATE DEC DECIMAL DECLARE DEFAULT DEFAULTS DEFERRABLE
DEFERRED DEFINER DELETE DELIMITER DENSE_RANK DEPTH DEREF DESC DESCRIBE DESCRIPTOR DETACH DETERMINISTIC DICTIONARY DISABLE DISCARD
DISCONNECT DISTINCT DISTRIBUTE DO DOCUMENT DOMAIN DOUBLE DROP DUPLICATE DYNAMIC EACH ELEMENT ELSE ELSEIF ENABLE ENCODING ENCRYPTED END
ENUM ESCAPE EVENT EXCEPT EXCLUDE EXCLUDING EXCLUSIVE EXEC EXECUTE EXISTS EXIT EXPLAIN EXTENSION EXTERNAL EXTRACT FALSE FAMILY FETCH
FILTER FIRST FIRST_VALUE FLOAT FLOOR FOLLOWING FOR FORCE FOREIGN FORMAT FORWARD FREE FREEZE FROM FULL FULLTEXT FUNCTION FUNCTIONS
GENERATED GET GLOB GLOBAL GO GOTO GRANT GRANTED GREATEST GROUP GROUPING GROUPS HANDLER HAVING HEADER HOLD HOUR IDENTITY IF IGNORE ILIKE
IMMEDIATE IMMUTABLE IMPLICIT IMPORT IN INCLUDE INCLUDING INCREMENT INDEX INDEXED INDEXES INHERIT INHERITS INITIALLY INLINE INNER INOUT
INPUT INSENSITIVE INSERT INSTEAD INT INTEGER INTERSECT INTERVAL INTO INVOKER IS ISNULL ISOLATION ITERATE JOIN JSON JSONB KEY KEYS KILL
LABEL LAG LANGUAGE LARGE LAST LAST_VALUE LATERAL LEAD LEADING LEAKPROOF LEAST LEAVE LEFT LEVEL LIKE LIMIT LISTEN LN LOAD LOCAL
LOCALTIME LOCALTIMESTAMP LOCATION LOCK LOCKED LOGGED LONG LOOP LOWER MAP MAPPING MATCH MATCHED MATERIALIZED MAX MAXVALUE MEMBER MERGE
METHOD MIN MINUS MINUTE MINVALUE MOD MODE MODIFIES MODIFY MODULE MONTH MOVE MULTISET NAME NAMES NATIONAL NATURAL NCHAR NCLOB NEW NEXT
NO NONE NORMALIZE NOT NOTHING NOTIFY NOTNULL NOWAIT NTH_VALUE NTILE NULL NULLIF NULLS NUMERIC OBJECT OCTET_LENGTH OF OFF OFFSET OIDS OLD
ON ONLY OPEN OPERATOR OPTION OPTIONS OR ORDER ORDINALITY OTHERS OUT OUTER OVER OVERLAPS OVERLAY OVERRIDING OWNED OWNER PARALLEL
PARAMETER PARSER PARTIAL PARTITION PASSING PASSWORD PERCENT PERCENT_RANK PIVOT PLACING PLANS POLICY POSITION POWER PRECEDING PRECISION
PREPARE PREPARED PRESERVE PRIMARY PRIOR PRIVILEGES PROCEDURAL PROCEDURE PROCEDURES PROGRAM PUBLICATION QUALIFY QUOTE RANGE RANK READ
READS REAL REASSIGN RECHECK RECURSIVE REF REFERENCES REFERENCING REFRESH REGEXP REINDEX RELATIVE RELEASE RENAME REPEAT REPEATABLE
REPLACE REPLICA RESET RESIGNAL RESTART RESTRICT RESULT RETURN RETURNING RETURNS REVOKE RIGHT RLIKE ROLE ROLLBACK ROLLUP ROUTINE ROW
ROW_NUMBER ROWS RULE SAVEPOINT SCHEMA SCHEMAS SCOPE SCROLL SEARCH SECOND SECURITY SELECT SENSITIVE SEQUENCE SEQUENCES SERIAL
SERIALIZABLE SERVER SESSION SESSION_USER SET SETOF SETS SHARE SHOW SIGNAL SIMILAR SIMPLE SKIP SMALLINT SNAPSHOT SOME SQL SQLSTATE
STABLE STANDALONE START STATEMENT STATIC STATISTICS STDIN STDOUT STORAGE STORED STRICT STRIP SUBSCRIPTION SUBSTRING SUM SUPPORT
SYMMETRIC SYSID SYSTEM SYSTEM_USER TABLE TABLES TABLESAMPLE TABLESPACE TEMP TEMPLATE TEMPORARY TEXT THEN TIES TIME TIMESTAMP TINYINT
TO TOP TRAILING TRANSACTION TRANSFORM TREAT TRIGGER TRIM TRUE TRUNCATE TRUSTED TYPE TYPES UNBOUNDED UNCOMMITTED UNDO UNENCRYPTED UNION
UNIQUE UNKNOWN UNLISTEN UNLOCK UNLOGGED UNNEST UNPIVOT UNSIGNED UNTIL UPDATE UPPER USAGE USE USER USING VACUUM VALID VALIDATE VALIDATOR
VALUE VALUES VARBINARY VARCHAR VARIADIC VARYING VERBOSE VERSION VIEW VIEWS VOLATILE WHEN WHENEVER WHERE WHILE WHITESPACE WINDOW WITH
WITHIN WITHOUT WORK WRAPPER WRITE XML XMLATTRIBUTES XMLCONCAT XMLELEMENT XMLEXISTS XMLFOREST XMLNAMESPACES XMLPARSE XMLPI XMLROOT
XMLSERIALIZE XMLTABLE XOR YEAR YES ZEROFILL ZONE
a b c d e f g h i j k l m n o p q r s t u v w x y z aa ab id ids uid pk fk no n1 t1 t2 t3 c1 c2 col col1 col2 tbl tab foo bar baz qux quux
users user_id username email name names first_name last_name full_name age address city state country zip phone status active
created created_at updated updated_at deleted deleted_at orders order_id order_date order_total customers customer customer_id
products product product_id price amount total quantity qty items item item_id sku category categories category_id description title
accounts account account_id balance payments payment invoices invoice employees employee emp emp_id dept department departments
dept_id salary manager manager_id hire_date projects project tasks task events event logs log messages message posts post comments
tags tag sessions token tokens roles permissions groups members teams team companies company regions region stores store sales
revenue cost profit budget year_month day_of_week ts dt val vals num cnt sum_total avg_price max_id min_id flag flags is_active
is_deleted enabled visible score rank_no level parent parent_id child children node nodes path url uri host port ip lat lon
geo data payload body content text_value json_data meta metadata config settings options params result results output input
señor naïve café été straße größe übung Ünïcödé таблица имя данные 名前 表 列 δοκιμή
`

