package main

// C03 harness, statement level: the real parseStatement on a token list.
//
//	c03stmtp : stdin JSON lines {"id","sql"}; the text is tokenised with the real tokenizer, converted with the real
//	           token converter, and parseStatement is run ONCE at token 0 of a fresh parser (hook
//	           VerifParseStatementAt).  Output per line: the converted tokens (constructor name of the Gallina token
//	           type, models.TokenType number, literal), accept / reject, error code, cursor position afterwards, the
//	           statement as generic JSON tree (same dump as c03expr / c03stmt).

import (
	"bufio"
	"encoding/json"
	"os"
	"reflect"

	"github.com/ajitpratap0/GoSQLX/pkg/sql/ast"
	"github.com/ajitpratap0/GoSQLX/pkg/sql/parser"
)

type c03stmtpOut struct {
	ID       string      `json:"id"`
	TokErr   string      `json:"tok_err,omitempty"`
	Tokens   []c03tok    `json:"tokens,omitempty"`
	Accepted bool        `json:"accepted"`
	Code     string      `json:"code,omitempty"`
	Msg      string      `json:"msg,omitempty"`
	Pos      int         `json:"pos"`
	Tree     interface{} `json:"tree,omitempty"`
	Panic    string      `json:"panic,omitempty"`
}

func init() {
	subcmds["c03stmtp"] = func(args []string) int {
		sc := bufio.NewScanner(os.Stdin)
		sc.Buffer(make([]byte, 1<<20), 64<<20)
		w := bufio.NewWriter(os.Stdout)
		defer w.Flush()
		enc := json.NewEncoder(w)
		enc.SetEscapeHTML(false)
		for sc.Scan() {
			var in struct {
				ID  string `json:"id"`
				SQL string `json:"sql"`
			}
			if json.Unmarshal(sc.Bytes(), &in) != nil {
				continue
			}
			out := c03stmtpOut{ID: in.ID}
			toks, err := c03tokenize(in.SQL)
			if err != nil {
				out.TokErr = infoOf(err).Code
				if out.TokErr == "" {
					out.TokErr = "error"
				}
				_ = enc.Encode(out)
				continue
			}
			out.Tokens = c03tokens(toks)
			p := parser.NewParser()
			var st ast.Statement
			var perr error
			out.Panic = guarded(func() {
				st, out.Pos, perr = p.VerifParseStatementAt(toks, 0)
			})
			out.Accepted = perr == nil && out.Panic == ""
			if perr != nil {
				ei := infoOf(perr)
				out.Code, out.Msg = ei.Code, ei.Msg
			}
			if out.Accepted && st != nil {
				out.Tree = jtree(reflect.ValueOf(st), 0)
			}
			_ = enc.Encode(out)
		}
		return 0
	}
}
