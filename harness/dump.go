package main

import (
	"fmt"
	"reflect"
	"strconv"
	"strings"
)

// dump renders any value as a canonical s-expression over exported fields (zero-valued fields omitted),
// used to compare and snapshot trees, tokens and results.
func dump(v interface{}) string {
	var b strings.Builder
	dumpValue(&b, reflect.ValueOf(v), 0)
	return b.String()
}

func dumpValue(b *strings.Builder, v reflect.Value, depth int) {
	if depth > 4000 {
		b.WriteString("<deep>")
		return
	}
	if !v.IsValid() {
		b.WriteString("nil")
		return
	}
	switch v.Kind() {
	case reflect.Ptr, reflect.Interface:
		if v.IsNil() {
			b.WriteString("nil")
			return
		}
		dumpValue(b, v.Elem(), depth+1)
	case reflect.Struct:
		t := v.Type()
		b.WriteString("(" + t.Name())
		for i := 0; i < t.NumField(); i++ {
			if !t.Field(i).IsExported() {
				continue
			}
			f := v.Field(i)
			if f.IsZero() {
				continue
			}
			if (f.Kind() == reflect.Slice || f.Kind() == reflect.Map) && f.Len() == 0 {
				continue
			}
			b.WriteString(" " + t.Field(i).Name + "=")
			dumpValue(b, f, depth+1)
		}
		b.WriteString(")")
	case reflect.Slice, reflect.Array:
		if v.Kind() == reflect.Slice && v.Type().Elem().Kind() == reflect.Uint8 {
			b.WriteString(strconv.Quote(string(v.Bytes())))
			return
		}
		b.WriteString("[")
		for i := 0; i < v.Len(); i++ {
			if i > 0 {
				b.WriteString(" ")
			}
			dumpValue(b, v.Index(i), depth+1)
		}
		b.WriteString("]")
	case reflect.Map:
		keys := v.MapKeys()
		strs := make([]string, 0, len(keys))
		for _, k := range keys {
			var kb strings.Builder
			dumpValue(&kb, k, depth+1)
			kb.WriteString(":")
			dumpValue(&kb, v.MapIndex(k), depth+1)
			strs = append(strs, kb.String())
		}
		sortStrings(strs)
		b.WriteString("{" + strings.Join(strs, " ") + "}")
	case reflect.String:
		b.WriteString(strconv.Quote(v.String()))
	case reflect.Bool:
		b.WriteString(strconv.FormatBool(v.Bool()))
	case reflect.Int, reflect.Int8, reflect.Int16, reflect.Int32, reflect.Int64:
		b.WriteString(strconv.FormatInt(v.Int(), 10))
	case reflect.Uint, reflect.Uint8, reflect.Uint16, reflect.Uint32, reflect.Uint64:
		b.WriteString(strconv.FormatUint(v.Uint(), 10))
	case reflect.Float32, reflect.Float64:
		b.WriteString(strconv.FormatFloat(v.Float(), 'g', -1, 64))
	default:
		b.WriteString(fmt.Sprintf("<%s>", v.Kind()))
	}
}

func sortStrings(s []string) {
	for i := 1; i < len(s); i++ {
		for j := i; j > 0 && s[j] < s[j-1]; j-- {
			s[j], s[j-1] = s[j-1], s[j]
		}
	}
}

// splitmix64: the single PRNG of the harness
type rng struct{ s uint64 }

func (r *rng) next() uint64 {
	r.s += 0x9e3779b97f4a7c15
	z := r.s
	z = (z ^ (z >> 30)) * 0xbf58476d1ce4e5b9
	z = (z ^ (z >> 27)) * 0x94d049bb133111eb
	return z ^ (z >> 31)
}
func (r *rng) intn(n int) int {
	if n <= 0 {
		return 0
	}
	return int(r.next() % uint64(n))
}
