package main

// total: every public entry point on every input (C01).  Protocol: for each input line {"id":n,"sql":...,"b64":...}
// and each entry point the harness prints "B <id> <entry>" before the call and "E <id> <entry> <status>" after it
// (status ok | err:<code> | PANIC:<text>), flushing each line, so that the driver can attribute a process death
// (fatal error: stack overflow, out of memory) or a stall (hang) to the call that was running.

import (
	"bufio"
	"context"
	"encoding/base64"
	"encoding/json"
	"fmt"
	"os"
	"strings"
	"time"

	"github.com/ajitpratap0/GoSQLX/pkg/formatter"
	"github.com/ajitpratap0/GoSQLX/pkg/gosqlx"
	"github.com/ajitpratap0/GoSQLX/pkg/linter"
	lkw "github.com/ajitpratap0/GoSQLX/pkg/linter/rules/keywords"
	"github.com/ajitpratap0/GoSQLX/pkg/linter/rules/style"
	"github.com/ajitpratap0/GoSQLX/pkg/linter/rules/whitespace"
	"github.com/ajitpratap0/GoSQLX/pkg/models"
	"github.com/ajitpratap0/GoSQLX/pkg/sql/ast"
	"github.com/ajitpratap0/GoSQLX/pkg/sql/keywords"
	"github.com/ajitpratap0/GoSQLX/pkg/sql/parser"
	"github.com/ajitpratap0/GoSQLX/pkg/sql/security"
	"github.com/ajitpratap0/GoSQLX/pkg/sql/token"
	"github.com/ajitpratap0/GoSQLX/pkg/sql/tokenizer"
)

type totalEntry struct {
	name string
	run  func(sql string) error
}

func allLinter() *linter.Linter {
	return linter.New(
		whitespace.NewTrailingWhitespaceRule(), whitespace.NewMixedIndentationRule(), whitespace.NewConsecutiveBlankLinesRule(1),
		whitespace.NewIndentationDepthRule(4, 4), whitespace.NewLongLinesRule(100), whitespace.NewRedundantWhitespaceRule(),
		style.NewColumnAlignmentRule(), style.NewCommaPlacementRule(style.CommaTrailing), style.NewAliasingConsistencyRule(true),
		lkw.NewKeywordCaseRule(lkw.CaseUpper))
}

// token-level variants for the low-level Parser API: sequences no tokenizer run produces
func tokenVariants(sql string) map[string][]token.Token {
	out := map[string][]token.Token{"empty": {}, "nil": nil}
	tk, _ := tokenizer.New()
	mt, err := tk.Tokenize([]byte(sql))
	if err != nil {
		return out
	}
	conv, err := parser.VerifConvertModelTokens(mt)
	if err != nil || len(conv) == 0 {
		return out
	}
	cp := func(ts []token.Token) []token.Token { r := make([]token.Token, len(ts)); copy(r, ts); return r }
	out["asis"] = cp(conv)
	out["noeof"] = cp(conv[:len(conv)-1])
	tl := cp(conv)
	for i := range tl {
		tl[i].Type = models.TokenTypeUnknown
	}
	out["typeless"] = tl
	if len(conv) > 2 {
		mid := cp(conv)
		mid[len(mid)/2] = conv[len(conv)-1] // EOF in the middle
		out["eofmid"] = mid
		out["eofonly"] = cp(conv[len(conv)-1:])
		dbl := append(cp(conv), conv[len(conv)-1])
		out["eoftwice"] = dbl
	}
	return out
}

func totalEntries() []totalEntry {
	var es []totalEntry
	add := func(n string, f func(sql string) error) { es = append(es, totalEntry{n, f}) }
	add("tokenizer.Tokenize", func(s string) error { tk, _ := tokenizer.New(); _, err := tk.Tokenize([]byte(s)); return err })
	add("tokenizer.TokenizeContext", func(s string) error {
		tk, _ := tokenizer.New()
		_, err := tk.TokenizeContext(context.Background(), []byte(s))
		return err
	})
	add("gosqlx.Parse", func(s string) error { _, err := gosqlx.Parse(s); return err })
	add("gosqlx.ParseBytes", func(s string) error { _, err := gosqlx.ParseBytes([]byte(s)); return err })
	add("gosqlx.ParseWithContext", func(s string) error { _, err := gosqlx.ParseWithContext(context.Background(), s); return err })
	add("gosqlx.ParseWithTimeout", func(s string) error { _, err := gosqlx.ParseWithTimeout(s, time.Minute); return err })
	add("gosqlx.ParseMultiple", func(s string) error { _, err := gosqlx.ParseMultiple([]string{s, s}); return err })
	add("gosqlx.Validate", func(s string) error { return gosqlx.Validate(s) })
	add("gosqlx.ValidateMultiple", func(s string) error { return gosqlx.ValidateMultiple([]string{s}) })
	add("gosqlx.ParseWithRecovery", func(s string) error {
		_, errs := gosqlx.ParseWithRecovery(s)
		if len(errs) > 0 {
			return errs[0]
		}
		return nil
	})
	add("gosqlx.Format", func(s string) error { _, err := gosqlx.Format(s, gosqlx.DefaultFormatOptions()); return err })
	add("gosqlx.Format(opts)", func(s string) error {
		o := gosqlx.DefaultFormatOptions()
		o.UppercaseKeywords, o.AddSemicolon, o.SingleLineLimit, o.IndentSize = true, true, 20, 4
		_, err := gosqlx.Format(s, o)
		return err
	})
	add("formatter.FormatString", func(s string) error { _, err := formatter.FormatString(s); return err })
	add("parser.ParseBytes", func(s string) error { _, err := parser.ParseBytes([]byte(s)); return err })
	add("parser.Validate", func(s string) error { return parser.Validate(s) })
	add("parser.ParseBytesWithTokens", func(s string) error { _, _, err := parser.ParseBytesWithTokens([]byte(s)); return err })
	for _, d := range []keywords.SQLDialect{keywords.DialectPostgreSQL, keywords.DialectMySQL, keywords.DialectSQLServer, keywords.DialectOracle,
		keywords.DialectSQLite, keywords.DialectSnowflake, keywords.DialectGeneric, keywords.DialectUnknown} {
		d := d
		add("parser.ParseWithDialect("+string(d)+")", func(s string) error { _, err := parser.ParseWithDialect(s, d); return err })
		add("parser.ValidateWithDialect("+string(d)+")", func(s string) error { return parser.ValidateWithDialect(s, d) })
	}
	// tree consumers on the parsed tree
	add("tree:SQL+Format+extract+scan", func(s string) error {
		a, err := gosqlx.Parse(s)
		if err != nil {
			return err
		}
		_ = a.SQL()
		_ = a.Format(ast.FormatOptions{})
		_ = a.Format(ast.FormatOptions{IndentWidth: 2, NewlinePerClause: true, AddSemicolon: true})
		_ = gosqlx.ExtractTables(a)
		_ = gosqlx.ExtractTablesQualified(a)
		_ = gosqlx.ExtractColumns(a)
		_ = gosqlx.ExtractColumnsQualified(a)
		_ = gosqlx.ExtractFunctions(a)
		_ = gosqlx.ExtractMetadata(a).String()
		_ = security.NewScanner().Scan(a)
		ast.Inspect(a, func(n ast.Node) bool { return true })
		ast.ReleaseAST(a)
		return nil
	})
	add("security.ScanSQL", func(s string) error { _ = security.NewScanner().ScanSQL(s); return nil })
	add("linter.LintString", func(s string) error { r := allLinter().LintString(s, "q.sql"); _ = r; return nil })
	// low-level Parser API on token sequences, default and strict
	for _, strict := range []bool{false, true} {
		strict := strict
		sfx := ""
		if strict {
			sfx = "(strict)"
		}
		mk := func() *parser.Parser {
			if strict {
				return parser.NewParser(parser.WithStrictMode())
			}
			return parser.NewParser()
		}
		add("Parser.*"+sfx+" on token variants", func(s string) error {
			for name, toks := range tokenVariants(s) {
				cp := func() []token.Token { r := make([]token.Token, len(toks)); copy(r, toks); return r }
				fmt.Printf("V %s\n", name)
				_, _ = mk().Parse(cp())
				_, _ = mk().ParseContext(context.Background(), cp())
				_, _ = mk().ParseWithRecovery(cp())
				_, _ = mk().ParseWithPositions(&parser.ConversionResult{Tokens: cp()})
			}
			return nil
		})
	}
	add("Parser.*FromModelTokens", func(s string) error {
		tk, _ := tokenizer.New()
		mt, err := tk.Tokenize([]byte(s))
		if err != nil {
			return err
		}
		_, _ = parser.NewParser().ParseFromModelTokens(mt)
		_, _ = parser.NewParser().ParseFromModelTokensWithPositions(mt)
		_, _ = parser.NewParser().ParseContextFromModelTokens(context.Background(), mt)
		_, _ = parser.NewParser().ParseWithRecoveryFromModelTokens(mt)
		if len(mt) > 1 {
			_, _ = parser.NewParser().ParseFromModelTokens(mt[:len(mt)-1]) // no EOF
			_, _ = parser.NewParser().ParseFromModelTokensWithPositions(mt[:len(mt)-1])
		}
		_, _ = parser.NewParser().ParseFromModelTokens(nil)
		return nil
	})
	return es
}

func init() {
	subcmds["total"] = func(args []string) int {
		only := ""
		if len(args) > 0 {
			only = args[0]
		}
		w := bufio.NewWriter(os.Stdout)
		sc := bufio.NewScanner(os.Stdin)
		sc.Buffer(make([]byte, 1<<20), 256<<20)
		es := totalEntries()
		for sc.Scan() {
			var in struct {
				ID  int    `json:"id"`
				SQL string `json:"sql"`
				B64 string `json:"b64"`
			}
			if json.Unmarshal(sc.Bytes(), &in) != nil {
				continue
			}
			sql := in.SQL
			if in.B64 != "" {
				b, _ := base64.StdEncoding.DecodeString(in.B64)
				sql = string(b)
			}
			for _, e := range es {
				if only != "" && !strings.HasPrefix(e.name, only) {
					continue
				}
				fmt.Fprintf(w, "B %d %s\n", in.ID, e.name)
				w.Flush()
				var err error
				pn := guarded(func() { err = e.run(sql) })
				st := "ok"
				if pn != "" {
					st = "PANIC:" + strings.ReplaceAll(pn, "\n", " | ")
					if len(st) > 600 {
						st = st[:600]
					}
				} else if err != nil {
					st = "err:" + infoOf(err).Code
				}
				fmt.Fprintf(w, "E %d %s %s\n", in.ID, e.name, st)
				w.Flush()
			}
		}
		return 0
	}
}

// cursor: stdin JSON lines {"types":[...], "n":k}: the real advance() on an arbitrary token-type sequence
// (tie of Model/Cursor.v to the code).
func init() {
	subcmds["cursor"] = func(args []string) int {
		sc := bufio.NewScanner(os.Stdin)
		sc.Buffer(make([]byte, 1<<20), 64<<20)
		for sc.Scan() {
			var in struct {
				Types []int `json:"types"`
				N     int   `json:"n"`
			}
			if json.Unmarshal(sc.Bytes(), &in) != nil {
				continue
			}
			toks := make([]token.Token, len(in.Types))
			for i, t := range in.Types {
				toks[i] = token.Token{Type: models.TokenType(t), Literal: "x"}
			}
			emitJSON(map[string]interface{}{"eof": int(models.TokenTypeEOF), "trace": parser.NewParser().VerifAdvanceTrace(toks, in.N)})
		}
		return 0
	}
}
