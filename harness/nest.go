package main

import (
	"bufio"
	"context"
	"encoding/json"
	"fmt"
	"os"
	"runtime/debug"
	"strconv"
	"strings"
	"sync"
	"time"

	"github.com/ajitpratap0/GoSQLX/pkg/gosqlx"
	"github.com/ajitpratap0/GoSQLX/pkg/sql/parser"
	"github.com/ajitpratap0/GoSQLX/pkg/sql/tokenizer"
)

type nestOut struct {
	ID         string  `json:"id"`
	Accepted   bool    `json:"accepted"`
	Err        errInfo `json:"err"`
	FreshSame  bool    `json:"fresh_same"`  // a fresh parser gives the same accept/reject and code
	DepthAfter int     `json:"depth_after"` // depth counter of the long-lived parser after the call
	Panic      string  `json:"panic,omitempty"`
	Ms         int64   `json:"ms"`
}

func init() {
	// nest: stdin JSON lines {"id":..., "sql":...}; one long-lived parser parses them all in order, a fresh parser
	// parses each as well.  One output line per input, flushed, so a fatal error identifies its input.
	subcmds["nest"] = func(args []string) int {
		if v := os.Getenv("VH_MAXSTACK"); v != "" {
			if n, err := strconv.Atoi(v); err == nil {
				debug.SetMaxStack(n)
			}
		}
		long := parser.NewParser()
		sc := bufio.NewScanner(os.Stdin)
		sc.Buffer(make([]byte, 1<<20), 256<<20)
		w := bufio.NewWriter(os.Stdout)
		defer w.Flush()
		for sc.Scan() {
			var in struct {
				ID  string `json:"id"`
				SQL string `json:"sql"`
			}
			if json.Unmarshal(sc.Bytes(), &in) != nil {
				continue
			}
			out := nestOut{ID: in.ID}
			t0 := time.Now()
			tk := tokenizer.GetTokenizer()
			toks, terr := tk.Tokenize([]byte(in.SQL))
			tokenizer.PutTokenizer(tk)
			if terr != nil {
				out.Err = infoOf(terr)
				out.FreshSame = true
			} else {
				var err1, err2 error
				out.Panic = guarded(func() {
					tr, e := long.ParseFromModelTokens(toks)
					err1 = e
					_ = tr
				})
				out.DepthAfter = long.VerifState().Depth
				fresh := parser.NewParser()
				p2 := guarded(func() {
					_, e := fresh.ParseFromModelTokens(toks)
					err2 = e
				})
				if out.Panic == "" {
					out.Panic = p2
				}
				out.Accepted = err1 == nil
				out.Err = infoOf(err1)
				i2 := infoOf(err2)
				out.FreshSame = (err1 == nil) == (err2 == nil) && out.Err.Code == i2.Code
			}
			out.Ms = time.Since(t0).Milliseconds()
			b, _ := json.Marshal(out)
			w.Write(b)
			w.WriteByte('\n')
			w.Flush()
		}
		return 0
	}

	// limits: size and token-count boundaries through the tokenizer entry points and the convenience API
	subcmds["limits"] = func(args []string) int {
		full := len(args) > 0 && args[0] == "thorough"
		maxIn, maxTok := tokenizer.MaxInputSize, tokenizer.MaxTokens
		type lcase struct {
			Name  string
			Input func() []byte
			Entry string // tokenize | tokenizectx | parse | validate | parsectx
			Want  string // "" = must not be rejected with a limit code; else the limit code
		}
		pad := func(n int, tail string) []byte {
			// "SELECT 1" + whitespace (newline every 64 bytes) up to n bytes, ending with tail
			b := make([]byte, 0, n)
			b = append(b, "SELECT 1"...)
			for len(b) < n-len(tail) {
				if len(b)%64 == 63 {
					b = append(b, '\n')
				} else {
					b = append(b, ' ')
				}
			}
			b = append(b, tail...)
			return b
		}
		toks := func(n int, tail string) []byte {
			// n tokens: "1," pairs, a newline every 500 tokens (keeps the position bookkeeping cheap)
			var sb strings.Builder
			sb.Grow(n*2 + n/250 + len(tail) + 8)
			for i := 0; i < n; i++ {
				if i%2 == 0 {
					sb.WriteByte('1')
				} else {
					sb.WriteByte(',')
				}
				if i%500 == 499 {
					sb.WriteByte('\n')
				}
			}
			sb.WriteString(tail)
			return []byte(sb.String())
		}
		var cases []lcase
		for _, e := range []string{"tokenize", "tokenizectx", "parse", "validate", "parsectx"} {
			e := e
			if !full && (e == "validate" || e == "parsectx") {
				continue
			}
			cases = append(cases,
				lcase{"size=max " + e, func() []byte { return pad(maxIn, "") }, e, ""},
				lcase{"size=max+1 " + e, func() []byte { return pad(maxIn+1, "") }, e, "E1006"})
		}
		// the limit is on the bytes that were passed in: an entry point that trims or otherwise pre-processes its input
		// must still reject an over-long one whose excess is leading or trailing white space (and accept one at the limit)
		lead := func(n int) []byte {
			b := make([]byte, 0, n)
			for len(b) < n-len("SELECT 1") {
				if len(b)%64 == 63 {
					b = append(b, '\n')
				} else {
					b = append(b, ' ')
				}
			}
			return append(b, "SELECT 1"...)
		}
		for _, e := range []string{"pvalidate", "pvalidatebytes", "parsebytes", "validate"} {
			e := e
			if !full && (e == "parsebytes" || e == "validate") {
				continue
			}
			cases = append(cases,
				lcase{"size=max+1 trailing-blanks " + e, func() []byte { return pad(maxIn+1, "") }, e, "E1006"},
				lcase{"size=max+1 leading-blanks " + e, func() []byte { return lead(maxIn + 1) }, e, "E1006"},
				lcase{"size=max leading-blanks " + e, func() []byte { return lead(maxIn) }, e, ""})
		}
		// the size limit counts BYTES: filler of multi-byte characters (inside a comment, so the text stays lexically
		// harmless), invalid UTF-8 and NUL bytes just over / exactly at the limit
		fill := func(n int, unit string) []byte {
			b := make([]byte, 0, n+8)
			b = append(b, "SELECT 1 /* "...)
			for len(b)+len(unit)+3 <= n {
				b = append(b, unit...)
			}
			for len(b)+3 < n {
				b = append(b, ' ')
			}
			b = append(b, " */"...)
			return b
		}
		for _, e := range []string{"tokenize", "tokenizectx"} {
			e := e
			for _, u := range []struct{ name, unit string }{{"2-byte", "\u00e9"}, {"3-byte", "\u20ac"}, {"4-byte", "\U0001F600"}, {"invalid-utf8", "\xff\xfe"}} {
				u := u
				cases = append(cases,
					lcase{"size=max+1 " + u.name + " " + e, func() []byte { return fill(maxIn+1, u.unit) }, e, "E1006"})
				if full || u.name == "2-byte" {
					cases = append(cases, lcase{"size=max " + u.name + " " + e, func() []byte { return fill(maxIn, u.unit) }, e, ""})
				}
			}
		}
		for _, e := range []string{"tokenize", "tokenizectx"} {
			e := e
			cases = append(cases,
				lcase{"tokens=max " + e, func() []byte { return toks(maxTok, "") }, e, ""},
				lcase{"tokens=max+newline " + e, func() []byte { return toks(maxTok, "\n") }, e, ""},
				lcase{"tokens=max+1 " + e, func() []byte { return toks(maxTok+1, "") }, e, "E1007"})
			if full {
				cases = append(cases,
					lcase{"tokens=max+spaces " + e, func() []byte { return toks(maxTok, "   \t ") }, e, ""},
					lcase{"tokens=max+comment " + e, func() []byte { return toks(maxTok, " -- end") }, e, ""},
					lcase{"tokens=max-1 " + e, func() []byte { return toks(maxTok-1, "") }, e, ""},
					lcase{"tokens=max+2 " + e, func() []byte { return toks(maxTok+2, "\n") }, e, "E1007"})
			}
		}
		if full {
			cases = append(cases, lcase{"tokens=max+1 parse", func() []byte { return toks(maxTok+1, "") }, "parse", "E1007"},
				lcase{"tokens=max+1 parsectx", func() []byte { return toks(maxTok+1, "\n") }, "parsectx", "E1007"})
		}
		type lres struct {
			Name  string  `json:"name"`
			Bytes int     `json:"bytes"`
			Err   errInfo `json:"err"`
			NTok  int     `json:"ntokens"`
			Want  string  `json:"want"`
			OK    bool    `json:"ok"`
			Panic string  `json:"panic,omitempty"`
			Ms    int64   `json:"ms"`
		}
		results := make([]lres, len(cases))
		var wg sync.WaitGroup
		sem := make(chan struct{}, 6)
		for i, c := range cases {
			wg.Add(1)
			go func(i int, c lcase) {
				defer wg.Done()
				sem <- struct{}{}
				defer func() { <-sem }()
				in := c.Input()
				r := lres{Name: c.Name, Bytes: len(in), Want: c.Want}
				t0 := time.Now()
				var err error
				r.Panic = guarded(func() {
					switch c.Entry {
					case "tokenize":
						tk, _ := tokenizer.New()
						ts, e := tk.Tokenize(in)
						err, r.NTok = e, len(ts)
					case "tokenizectx":
						tk, _ := tokenizer.New()
						ts, e := tk.TokenizeContext(context.Background(), in)
						err, r.NTok = e, len(ts)
					case "parse":
						_, err = gosqlx.Parse(string(in))
					case "validate":
						err = gosqlx.Validate(string(in))
					case "pvalidate":
						err = parser.Validate(string(in))
					case "pvalidatebytes":
						err = parser.ValidateBytes(in)
					case "parsebytes":
						_, err = parser.ParseBytes(in)
					case "parsectx":
						_, err = gosqlx.ParseWithContext(context.Background(), string(in))
					}
				})
				r.Ms = time.Since(t0).Milliseconds()
				r.Err = infoOf(err)
				r.Err.Msg = ""
				if c.Want == "" {
					r.OK = r.Panic == "" && r.Err.Code != "E1006" && r.Err.Code != "E1007"
				} else {
					r.OK = r.Panic == "" && r.Err.Code == c.Want
				}
				results[i] = r
			}(i, c)
		}
		wg.Wait()
		emitJSON(map[string]interface{}{"max_input": maxIn, "max_tokens": maxTok, "results": results})
		_ = fmt.Sprint
		return 0
	}
}
