package main

import (
	"context"
	"errors"
	"fmt"
	"runtime/debug"

	goerrors "github.com/ajitpratap0/GoSQLX/pkg/errors"
)

// errInfo is the projected observable of an error: structured code reachable with errors.As, location,
// context-ness; never the message text.
type errInfo struct {
	Nil        bool   `json:"nil"`
	Code       string `json:"code,omitempty"`
	Structured bool   `json:"structured"`
	Line       int    `json:"line"`
	Col        int    `json:"col"`
	MsgEmpty   bool   `json:"msg_empty"`
	IsCanceled bool   `json:"is_canceled"`
	IsDeadline bool   `json:"is_deadline"`
	Msg        string `json:"msg,omitempty"`
}

func infoOf(err error) errInfo {
	if err == nil {
		return errInfo{Nil: true}
	}
	ei := errInfo{MsgEmpty: err.Error() == "", Msg: err.Error()}
	if len(ei.Msg) > 160 {
		ei.Msg = ei.Msg[:160]
	}
	var se *goerrors.Error
	if errors.As(err, &se) && se != nil {
		ei.Structured = true
		ei.Code = string(se.Code)
		ei.Line = se.Location.Line
		ei.Col = se.Location.Column
	}
	ei.IsCanceled = errors.Is(err, context.Canceled)
	ei.IsDeadline = errors.Is(err, context.DeadlineExceeded)
	return ei
}

// guarded runs f, turning a panic into a string
func guarded(f func()) (panicked string) {
	defer func() {
		if r := recover(); r != nil {
			panicked = fmt.Sprint(r)
			st := debug.Stack()
			if len(st) > 1500 {
				st = st[:1500]
			}
			panicked += "\n" + string(st)
		}
	}()
	f()
	return ""
}
