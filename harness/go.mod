module vh

go 1.21

require github.com/ajitpratap0/GoSQLX v0.0.0

replace github.com/ajitpratap0/GoSQLX => /repo
