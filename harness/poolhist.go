package main

import (
	"bufio"
	"encoding/json"
	"fmt"
	"os"
	"reflect"
	"runtime"
	"strconv"

	"github.com/ajitpratap0/GoSQLX/pkg/gosqlx"
	"github.com/ajitpratap0/GoSQLX/pkg/models"
	"github.com/ajitpratap0/GoSQLX/pkg/sql/ast"
	"github.com/ajitpratap0/GoSQLX/pkg/sql/tokenizer"
	"github.com/ajitpratap0/GoSQLX/pkg/transform"
)

type poolHistResult struct {
	Histories int      `json:"histories"`
	Ops       int      `json:"ops"`
	Gets      int      `json:"gets"`
	Reused    int      `json:"gets_reused"` // Get returned an object that had been Put earlier in the history
	Dirty     []string `json:"dirty"`       // "Type.Field status after: <history>"
	Samples   []string `json:"samples"`
}

// poolhist: random put/get histories over the real pools; every object returned by a Get must be
// indistinguishable from a fresh one (reflect-level check of every field, including backing arrays).
func runPoolHist(seed uint64, n int, putExprCases []string) poolHistResult {
	old := runtime.GOMAXPROCS(1)
	defer runtime.GOMAXPROCS(old)
	r := &rng{s: seed}
	res := poolHistResult{}
	caseType := map[string]reflect.Type{}
	for _, c := range putExprCases {
		for _, nt := range nodeTypes {
			if nt.Name() == c {
				caseType[c] = nt
			}
		}
	}
	for h := 0; h < n; h++ {
		drainPools()
		released := map[interface{}]bool{}
		var trace []string
		steps := 3 + r.intn(12)
		var last *poolReg
		for s := 0; s < steps; s++ {
			pr := poolRegs[r.intn(len(poolRegs))]
			res.Ops++
			k := r.intn(3)
			if last != nil && r.intn(10) < 6 {
				pr, k = *last, 2 // mostly: get back from the pool that was just fed
			}
			last = nil
			if k != 2 {
				cp := pr
				last = &cp
			}
			switch k {
			case 0: // put a filled object through PutX
				obj := pr.Get()
				fill(reflect.ValueOf(obj).Elem(), 0)
				pr.Put(obj)
				released[obj] = true
				trace = append(trace, "PutFilled("+pr.Name+")")
			case 1: // put a filled object through PutExpression when the type is one of its cases
				if t, ok := caseType[pr.Name]; ok {
					ov := reflect.New(t)
					fill(ov.Elem(), 0)
					if e, ok := ov.Interface().(ast.Expression); ok {
						ast.PutExpression(e)
						released[ov.Interface()] = true
						trace = append(trace, "PutExpressionFilled("+pr.Name+")")
					}
				}
			case 2:
				obj := pr.Get()
				res.Gets++
				if released[obj] {
					res.Reused++
				}
				trace = append(trace, "Get("+pr.Name+")")
				for f, st := range statusOf(reflect.ValueOf(obj).Elem()) {
					if st != "zero" && st != "len0_clean" {
						res.Dirty = append(res.Dirty, fmt.Sprintf("%s.%s %s after %v", pr.Name, f, st, trace))
					}
				}
			}
		}
		if h < 3 {
			res.Samples = append(res.Samples, fmt.Sprint(trace))
		}
	}
	res.Histories = n
	return res
}

// ---------------------------------------------------------------------------------------------
// ownership histories: parse / hold / release / pool-get / tokenizer reuse; held values must not change

type holdResult struct {
	Histories int      `json:"histories"`
	Ops       int      `json:"ops"`
	Checks    int      `json:"checks"`
	Changed   []string `json:"changed"`
	Samples   []string `json:"samples"`
}

type heldTree struct {
	sql  string
	tree *ast.AST
	snap string
}

type heldTokens struct {
	sql      string
	toks     []models.TokenWithSpan
	comments []models.Comment
	snap     string
}

// transform rules built once and used for every history (a rule value may be applied to any number of statements)
var holdRules = []transform.Rule{
	transform.AddWhereFromSQL("tenant_id = 42"),
	transform.AddWhereFromSQL("deleted_at IS NULL AND region IN ('eu', 'us')"),
	transform.AddJoinFromSQL("JOIN zz ON zz.id = 1"),
	transform.AddOrderBy("created_at", true),
	transform.SetLimit(10),
}

func runHold(seed uint64, n int, sqls []string) holdResult {
	r := &rng{s: seed}
	res := holdResult{}
	// deterministic probe: one rule value applied to two trees, one of them released or transformed again in place:
	// the other, still held, must read the same
	for ri, rule := range holdRules {
		for _, pair := range [][2]string{{"SELECT id FROM orders", "SELECT name FROM users"}, {"SELECT id FROM orders WHERE total > 10", "SELECT name FROM users WHERE active = 1 ORDER BY name"}} {
			t1, e1 := gosqlx.Parse(pair[0])
			t2, e2 := gosqlx.Parse(pair[1])
			if e1 != nil || e2 != nil {
				continue
			}
			for _, st := range t1.Statements {
				_ = transform.Apply(st, rule)
			}
			for _, st := range t2.Statements {
				_ = transform.Apply(st, rule)
			}
			before := dump(t2)
			res.Checks++
			ast.ReleaseAST(t1)
			if dump(t2) != before {
				res.Changed = append(res.Changed, fmt.Sprintf("transform rule %d applied to two trees: releasing the first changed the second (%q)", ri, pair[1]))
			}
			ast.ReleaseAST(t2)
		}
	}
	for h := 0; h < n; h++ {
		var trees []*heldTree
		var toks []*heldTokens
		var trace []string
		check := func() {
			for _, t := range trees {
				res.Checks++
				if d := dump(t.tree); d != t.snap {
					res.Changed = append(res.Changed, fmt.Sprintf("held tree of %q changed after %v", t.sql, trace))
					t.snap = d
				}
			}
			for _, t := range toks {
				res.Checks++
				if d := dump(t.toks) + dump(t.comments); d != t.snap {
					res.Changed = append(res.Changed, fmt.Sprintf("held tokens/comments of %q changed after %v", t.sql, trace))
					t.snap = d
				}
			}
		}
		steps := 4 + r.intn(14)
		for s := 0; s < steps; s++ {
			res.Ops++
			sql := sqls[r.intn(len(sqls))]
			switch r.intn(8) {
			case 7: // a transform rule that lives for the whole run is applied to a held tree: the tree changes (new
				// snapshot), and what the rule grafted into it belongs to that tree alone from then on
				if len(trees) > 0 {
					i := r.intn(len(trees))
					rule := holdRules[r.intn(len(holdRules))]
					for _, st := range trees[i].tree.Statements {
						_ = transform.Apply(st, rule)
					}
					trees[i].snap = dump(trees[i].tree)
					trace = append(trace, "TransformHeld")
				}
			case 0, 1: // parse and hold
				tr, err := gosqlx.Parse(sql)
				if err == nil && tr != nil {
					trees = append(trees, &heldTree{sql: sql, tree: tr, snap: dump(tr)})
					trace = append(trace, "ParseHold")
				}
			case 2: // release one held tree
				if len(trees) > 0 {
					i := r.intn(len(trees))
					ast.ReleaseAST(trees[i].tree)
					trees = append(trees[:i], trees[i+1:]...)
					trace = append(trace, "Release")
				}
			case 3: // parse and release immediately (pool churn)
				tr, err := gosqlx.Parse(sql)
				if err == nil && tr != nil {
					ast.ReleaseAST(tr)
				}
				trace = append(trace, "ParseRelease")
			case 4: // pool gets filled with junk and put back
				pr := poolRegs[r.intn(len(poolRegs))]
				obj := pr.Get()
				fill(reflect.ValueOf(obj).Elem(), 0)
				pr.Put(obj)
				trace = append(trace, "PoolChurn("+pr.Name+")")
			case 5: // tokenize with a pooled tokenizer, hold tokens and comments, return the tokenizer
				tk := tokenizer.GetTokenizer()
				ts, err := tk.Tokenize([]byte(sql))
				if err == nil {
					ht := &heldTokens{sql: sql, toks: ts, comments: tk.Comments}
					ht.snap = dump(ht.toks) + dump(ht.comments)
					toks = append(toks, ht)
				}
				tokenizer.PutTokenizer(tk)
				trace = append(trace, "TokenizeHold")
			case 6: // other library activity on another goroutine
				done := make(chan struct{})
				go func() {
					defer close(done)
					tr, err := gosqlx.Parse(sql)
					if err == nil && tr != nil {
						_ = gosqlx.ExtractTables(tr)
						ast.ReleaseAST(tr)
					}
					_, _ = gosqlx.Format(sql, gosqlx.DefaultFormatOptions())
				}()
				<-done
				trace = append(trace, "OtherGoroutine")
			}
			check()
		}
		if h < 3 {
			res.Samples = append(res.Samples, fmt.Sprint(trace))
		}
	}
	res.Histories = n
	return res
}

func readSQLLines() []string {
	var out []string
	sc := bufio.NewScanner(os.Stdin)
	sc.Buffer(make([]byte, 1<<20), 64<<20)
	for sc.Scan() {
		var in struct {
			SQL string `json:"sql"`
		}
		if json.Unmarshal(sc.Bytes(), &in) == nil {
			out = append(out, in.SQL)
		}
	}
	return out
}

func init() {
	subcmds["poolhist"] = func(args []string) int {
		// args: static.json seed n
		st := readStatic(args[0])
		var cases []string
		if l, ok := st["put_expression_cases"].([]interface{}); ok {
			for _, x := range l {
				cases = append(cases, x.(string))
			}
		}
		seed, _ := strconv.ParseUint(args[1], 10, 64)
		n, _ := strconv.Atoi(args[2])
		emitJSON(runPoolHist(seed, n, cases))
		return 0
	}
	subcmds["hold"] = func(args []string) int {
		seed, _ := strconv.ParseUint(args[0], 10, 64)
		n, _ := strconv.Atoi(args[1])
		sqls := readSQLLines()
		if len(sqls) == 0 {
			return 2
		}
		emitJSON(runHold(seed, n, sqls))
		return 0
	}
}

// poolbig: release whole parsed trees (wide / deep shapes that exercise the work-queue limits of the
// release paths), then drain the pools: every object the pools hand out afterwards must be fresh.
type poolBigResult struct {
	Trees   int      `json:"trees"`
	Nodes   int      `json:"nodes_released"`
	Gets    int      `json:"gets"`
	Reused  int      `json:"gets_reused"`
	Dirty   []string `json:"dirty"`
	Samples []string `json:"samples"`
}

func runPoolBig(sqls []string) poolBigResult {
	old := runtime.GOMAXPROCS(1)
	defer runtime.GOMAXPROCS(old)
	res := poolBigResult{}
	for _, sql := range sqls {
		drainPools()
		tr, err := gosqlx.Parse(sql)
		if err != nil || tr == nil {
			continue
		}
		rs := reachable(tr)
		counts := map[string]int{}
		was := map[interface{}]bool{}
		for _, r := range rs {
			if r.Kind == "ptr" {
				counts[r.Type]++
				was[r.Ptr] = true
			}
		}
		res.Trees++
		res.Nodes += len(rs)
		ast.ReleaseAST(tr)
		for _, pr := range poolRegs {
			n := counts[pr.Name] + 2
			if n > 5000 {
				n = 5000
			}
			for i := 0; i < n; i++ {
				obj := pr.Get()
				res.Gets++
				if was[obj] {
					res.Reused++
				}
				for f, st := range statusOf(reflect.ValueOf(obj).Elem()) {
					if st != "zero" && st != "len0_clean" {
						short := sql
						if len(short) > 120 {
							short = short[:120] + "..."
						}
						if len(res.Dirty) < 20 {
							res.Dirty = append(res.Dirty, fmt.Sprintf("%s.%s %s after ReleaseAST of %q (Get #%d)", pr.Name, f, st, short, i))
						}
					}
				}
			}
		}
		if len(res.Samples) < 3 {
			short := sql
			if len(short) > 100 {
				short = short[:100] + "..."
			}
			res.Samples = append(res.Samples, fmt.Sprintf("%q: %d nodes", short, len(rs)))
		}
	}
	return res
}

func init() {
	subcmds["poolbig"] = func(args []string) int {
		emitJSON(runPoolBig(readSQLLines()))
		return 0
	}
}
