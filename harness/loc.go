package main

// loc: observables of C05 (reported source positions) for one input per line.
//
//	in : {"hex": "<input bytes>", "tbl": bool, "parse": bool}
//	out: tokens with reported Start/End, comments with reported spans, the tokenizer error location and the
//	     scanning cursor at that moment, the complete offset -> (line, column) table of toSQLPosition and
//	     getLocation for offsets 0..len+2 (when tbl), and for ParseFromModelTokensWithPositions the error
//	     location, the parser cursor when the error was returned and the position mapping (when parse).

import (
	"bufio"
	"bytes"
	"context"
	"encoding/hex"
	"encoding/json"
	"os"

	"github.com/ajitpratap0/GoSQLX/pkg/models"
	"github.com/ajitpratap0/GoSQLX/pkg/sql/ast"
	"github.com/ajitpratap0/GoSQLX/pkg/sql/parser"
	"github.com/ajitpratap0/GoSQLX/pkg/sql/tokenizer"
)

type locTok struct {
	Type  int    `json:"type"`
	VHex  string `json:"vhex"`
	Quote int    `json:"quote"`
	Word  bool   `json:"word"`
	SL    int    `json:"sl"`
	SC    int    `json:"sc"`
	EL    int    `json:"el"`
	EC    int    `json:"ec"`
}

type locComment struct {
	THex  string `json:"thex"`
	Style int    `json:"style"`
	SL    int    `json:"sl"`
	SC    int    `json:"sc"`
	EL    int    `json:"el"`
	EC    int    `json:"ec"`
}

type locPos struct {
	OI int `json:"oi"`
	SL int `json:"sl"`
	SC int `json:"sc"`
	EL int `json:"el"`
	EC int `json:"ec"`
}

type locConv struct {
	Type int    `json:"type"`
	Lit  string `json:"lit"`
}

type locRec struct {
	Idx   int     `json:"idx"`
	Line  int     `json:"line"`
	Col   int     `json:"col"`
	Cause errInfo `json:"cause"`
	Typed bool    `json:"typed"`
}

type locParse struct {
	Err       errInfo   `json:"err"`
	Panic     string    `json:"panic,omitempty"`
	Cursor    int       `json:"cursor"`
	NTok      int       `json:"ntok"`
	NPos      int       `json:"npos"`
	Positions []locPos  `json:"positions"`
	Conv      []locConv `json:"conv"`
	ConvErr   errInfo   `json:"conv_err"`
	RecErrs   []locRec  `json:"rec_errs"` // ParseWithRecoveryFromModelTokens: each recovered error
	RecPanic  string    `json:"rec_panic,omitempty"`
}

type locOut struct {
	N          int          `json:"n"`
	Err        errInfo      `json:"err"`
	Panic      string       `json:"panic,omitempty"`
	Tokens     []locTok     `json:"tokens"`
	Comments   []locComment `json:"comments"`
	LineStarts []int        `json:"linestarts,omitempty"`
	Tbl        [][2]int     `json:"tbl,omitempty"`
	GTbl       [][2]int     `json:"gtbl,omitempty"`
	TblStable  bool         `json:"tbl_stable"` // same answers when offsets are queried backwards / in stride order / after the instance read another input
	PosIndex   int          `json:"pos_index"`
	PosLine    int          `json:"pos_line"`
	PosCol     int          `json:"pos_col"`
	GoodPrefix int          `json:"good_prefix"` // on a tokenizer error: largest q <= cursor such that input[:q] tokenizes (-1: none found)
	GoodLast   [2]int       `json:"good_last"`   // reported Start of the last non-EOF token of that prefix (0,0: none)
	CtxSame    bool         `json:"ctx_same"`    // TokenizeContext reports the same spans / error location
	Parse      *locParse    `json:"parse,omitempty"`
}

func locToks(toks []models.TokenWithSpan) []locTok {
	out := make([]locTok, 0, len(toks))
	for _, t := range toks {
		out = append(out, locTok{Type: int(t.Token.Type), VHex: hex.EncodeToString([]byte(t.Token.Value)),
			Quote: int(t.Token.Quote), Word: t.Token.Word != nil,
			SL: t.Start.Line, SC: t.Start.Column, EL: t.End.Line, EC: t.End.Column})
	}
	return out
}

func locOne(input []byte, tbl, parse bool) locOut {
	out := locOut{N: len(input)}
	tkz, err := tokenizer.New()
	if err != nil {
		out.Panic = "tokenizer.New: " + err.Error()
		return out
	}
	var toks []models.TokenWithSpan
	var terr error
	out.Panic = guarded(func() { toks, terr = tkz.Tokenize(input) })
	out.Err = infoOf(terr)
	out.Tokens = locToks(toks)
	for _, c := range tkz.Comments {
		out.Comments = append(out.Comments, locComment{THex: hex.EncodeToString([]byte(c.Text)), Style: int(c.Style),
			SL: c.Start.Line, SC: c.Start.Column, EL: c.End.Line, EC: c.End.Column})
	}
	out.PosIndex, out.PosLine, out.PosCol = tkz.VerifPos()
	out.GoodPrefix = -1
	if terr != nil && out.Panic == "" {
		q := out.PosIndex
		if q > len(input) {
			q = len(input)
		}
		for steps := 0; q >= 0 && steps < 700; q, steps = q-1, steps+1 {
			tk, _ := tokenizer.New()
			var e error
			var pt []models.TokenWithSpan
			if guarded(func() { pt, e = tk.Tokenize(input[:q]) }) == "" && e == nil {
				out.GoodPrefix = q
				for k := len(pt) - 1; k >= 0; k-- {
					if pt[k].Token.Type != models.TokenTypeEOF {
						out.GoodLast = [2]int{pt[k].Start.Line, pt[k].Start.Column}
						break
					}
				}
				break
			}
		}
	}
	if tbl {
		out.LineStarts = tkz.VerifLineStarts()
		for i := 0; i <= len(input)+2; i++ {
			l := tkz.VerifLoc(i)
			out.Tbl = append(out.Tbl, [2]int{l.Line, l.Column})
			g := tkz.VerifGetLocation(i)
			out.GTbl = append(out.GTbl, [2]int{g.Line, g.Column})
		}
	}
	if tbl {
		// toSQLPosition must be a function of (input, offset): query order and instance history must not matter
		out.TblStable = true
		n := len(input) + 3
		chk := func(i int) {
			l := tkz.VerifLoc(i)
			if i >= 0 && i < len(out.Tbl) && (l.Line != out.Tbl[i][0] || l.Column != out.Tbl[i][1]) {
				out.TblStable = false
			}
		}
		for i := n - 1; i >= 0; i-- {
			chk(i)
		}
		for _, stride := range []int{7, 3} {
			for st := 0; st < stride; st++ {
				for i := st; i < n; i += stride {
					chk(i)
				}
			}
		}
		for i := 0; i < n; i++ { // zig-zag
			chk(i)
			chk(n - 1 - i)
		}
		// another input on the same instance, then this one again
		other := append([]byte("x\n\ty\n"), input...)
		guarded(func() { _, _ = tkz.Tokenize(other) })
		_ = tkz.VerifLoc(len(other))
		guarded(func() { _, _ = tkz.Tokenize(input) })
		for i := 0; i < n; i += 2 {
			chk(i)
		}
		for i := 1; i < n; i += 2 {
			chk(i)
		}
		// a short earlier input whose last answered offset lies before most offsets of this one
		guarded(func() { _, _ = tkz.Tokenize([]byte("\n")) })
		_ = tkz.VerifLoc(1)
		guarded(func() { _, _ = tkz.Tokenize(input) })
		for i := n - 1; i >= 0; i -= 3 {
			chk(i)
		}
		for i := 0; i < n; i++ {
			chk(i)
		}
	}
	// the context variant is a second copy of the loop: same spans, same error location
	{
		tk2, _ := tokenizer.New()
		var toks2 []models.TokenWithSpan
		var terr2 error
		p2 := guarded(func() { toks2, terr2 = tk2.TokenizeContext(context.Background(), input) })
		a, _ := json.Marshal(locToks(toks2))
		b, _ := json.Marshal(out.Tokens)
		e2 := infoOf(terr2)
		out.CtxSame = p2 == "" && string(a) == string(b) && e2.Code == out.Err.Code && e2.Line == out.Err.Line && e2.Col == out.Err.Col &&
			len(tk2.Comments) == len(tkz.Comments)
		if out.CtxSame {
			for i := range tk2.Comments {
				if tk2.Comments[i].Start != tkz.Comments[i].Start || tk2.Comments[i].End != tkz.Comments[i].End {
					out.CtxSame = false
				}
			}
		}
	}
	if parse && terr == nil && out.Panic == "" {
		lp := &locParse{}
		conv, cerr := parser.VerifConvertModelTokensWithPositions(toks)
		lp.ConvErr = infoOf(cerr)
		if cerr == nil && conv != nil {
			for _, p := range conv.PositionMapping {
				lp.Positions = append(lp.Positions, locPos{OI: p.OriginalIndex, SL: p.Start.Line, SC: p.Start.Column, EL: p.End.Line, EC: p.End.Column})
			}
			for _, t := range conv.Tokens {
				lp.Conv = append(lp.Conv, locConv{Type: int(t.Type), Lit: t.Literal})
			}
		}
		p := parser.NewParser()
		var tree *ast.AST
		var perr error
		lp.Panic = guarded(func() { tree, perr = p.ParseFromModelTokensWithPositions(toks) })
		lp.Err = infoOf(perr)
		st := p.VerifState()
		lp.Cursor, lp.NTok, lp.NPos = st.Pos, st.NTokens, st.NPositions
		if tree != nil {
			ast.ReleaseAST(tree)
		}
		{
			p2 := parser.NewParser()
			var errs []error
			lp.RecPanic = guarded(func() { _, errs = p2.ParseWithRecoveryFromModelTokens(toks) })
			for _, e := range errs {
				re := locRec{Idx: -1}
				if pe, ok := e.(*parser.ParseError); ok {
					re.Typed = true
					re.Idx, re.Line, re.Col = pe.TokenIdx, pe.Line, pe.Column
					re.Cause = infoOf(pe.Cause)
				} else {
					re.Cause = infoOf(e)
				}
				lp.RecErrs = append(lp.RecErrs, re)
			}
		}
		out.Parse = lp
	}
	return out
}

func init() {
	subcmds["loc"] = func(args []string) int {
		sc := bufio.NewScanner(os.Stdin)
		sc.Buffer(make([]byte, 1<<20), 1<<28)
		w := bufio.NewWriterSize(os.Stdout, 1<<20)
		defer w.Flush()
		enc := json.NewEncoder(w)
		enc.SetEscapeHTML(false)
		for sc.Scan() {
			line := sc.Bytes()
			if len(line) == 0 {
				continue
			}
			var in struct {
				Hex    string `json:"hex"`
				Repeat int    `json:"repeat"` // the bytes of hex repeated this many times (oversized inputs without shipping them)
				Tbl    bool   `json:"tbl"`
				Parse  bool   `json:"parse"`
			}
			if err := json.Unmarshal(line, &in); err != nil {
				enc.Encode(map[string]string{"harness_error": err.Error()})
				continue
			}
			b, err := hex.DecodeString(in.Hex)
			if err != nil {
				enc.Encode(map[string]string{"harness_error": err.Error()})
				continue
			}
			if in.Repeat > 1 {
				b = bytes.Repeat(b, in.Repeat)
			}
			enc.Encode(locOne(b, in.Tbl, in.Parse))
		}
		return 0
	}
}
