package main

// C06 harness: serialise -> re-parse round trip, idempotence and serialiser agreement, on the implementation only.
//
//	c06rt <options.json> : stdin JSON lines {"id","sql"}.  options.json is a list of serialiser configurations
//	        (see rtOpt).  For every accepted input and every configuration:
//	          (i)   the serialiser's output is accepted by the parser,
//	          (ii)  its tree equals the original tree (structural comparison of every exported field; strings in
//	                keyword / operator-word fields are compared case-insensitively, see rtKeywordField),
//	          (iii) serialising the re-parsed tree (formatting the formatted text) returns the same text,
//	          (iv)  its token sequence (real tokenizer + converter; keyword case, semicolons and the optional AS
//	                before an alias normalised away) equals that of AST.SQL().
//	        Output per line: accepted, number of configurations run, the failures (configuration index, kind, the
//	        place of the first difference as struct type + field, the offending output text).
//	c06expr : stdin JSON lines {"id","sql"}; the text is an expression: real tokenizer + converter +
//	        parseExpression (hook); output: the tree (generic JSON as c03expr), SQL() of the tree, the converted
//	        tokens of that text, and the result of re-parsing it (tree equality, all tokens consumed).
//	c06lit : stdin JSON lines {"id","bytes":[...]}: a LiteralValue{Type:"string"} with that content and an
//	        Identifier with that name are serialised with SQL(); output: the text and what the tokenizer reads back.

import (
	"bufio"
	"encoding/json"
	"fmt"
	"os"
	"reflect"
	"strings"

	clicmd "github.com/ajitpratap0/GoSQLX/cmd/gosqlx/cmd"
	"github.com/ajitpratap0/GoSQLX/pkg/formatter"
	"github.com/ajitpratap0/GoSQLX/pkg/gosqlx"
	"github.com/ajitpratap0/GoSQLX/pkg/models"
	"github.com/ajitpratap0/GoSQLX/pkg/sql/ast"
	"github.com/ajitpratap0/GoSQLX/pkg/sql/parser"
	"github.com/ajitpratap0/GoSQLX/pkg/sql/token"
	"github.com/ajitpratap0/GoSQLX/pkg/sql/tokenizer"
)

// rtOpt: one serialiser configuration.
//
//	ser = "sql"       AST.SQL()
//	      "astfmt"    AST.Format(ast.FormatOptions{KeywordCase: kw, IndentStyle: istyle, IndentWidth: iwidth,
//	                  NewlinePerClause: nl, AddSemicolon: semi, LineWidth: lw})
//	      "gosqlx"    gosqlx.Format(text, gosqlx.FormatOptions{IndentSize: iwidth, UppercaseKeywords: upper,
//	                  AddSemicolon: semi, SingleLineLimit: lw})
//	      "formatter" formatter.New(formatter.Options{IndentSize: iwidth, Uppercase: upper, Compact: compact}).Format(text)
//	      "fmtstring" formatter.FormatString(text)
//	      "cli"       cmd.NewSQLFormatter(cmd.FormatterOptions{Indent: indent, Compact: compact, UppercaseKw: upper,
//	                  AlignColumns: align}).Format(tree)   (what `gosqlx format` runs on every file)
type rtOpt struct {
	Ser     string `json:"ser"`
	KW      int    `json:"kw"`
	IStyle  int    `json:"istyle"`
	IWidth  int    `json:"iwidth"`
	NL      bool   `json:"nl"`
	Semi    bool   `json:"semi"`
	LW      int    `json:"lw"`
	Upper   bool   `json:"upper"`
	Compact bool   `json:"compact"`
	Indent  string `json:"indent"`
	Align   bool   `json:"align"`
}

type rtFail struct {
	Opt    int    `json:"opt"`
	Kind   string `json:"kind"` // ser-error | reject | tree | idem | agree | panic
	Type   string `json:"type,omitempty"`
	Field  string `json:"field,omitempty"`
	Path   string `json:"path,omitempty"`
	A      string `json:"a,omitempty"`
	B      string `json:"b,omitempty"`
	Code   string `json:"code,omitempty"`
	Out    string `json:"out,omitempty"`
	Detail string `json:"detail,omitempty"`
}

type rtOut struct {
	ID       string   `json:"id"`
	Accepted bool     `json:"accepted"`
	Code     string   `json:"code,omitempty"`
	Kinds    []string `json:"kinds,omitempty"` // statement types of the original tree
	Types    []string `json:"types,omitempty"` // distinct node types of the original tree
	Runs     int      `json:"runs"`
	SQL      string   `json:"sql_out,omitempty"`
	Fails    []rtFail `json:"fails,omitempty"`
	Panic    string   `json:"panic,omitempty"`
}

func rtParse(sql string) (*ast.AST, []models.Comment, error) {
	tk := tokenizer.GetTokenizer()
	defer tokenizer.PutTokenizer(tk)
	toks, err := tk.Tokenize([]byte(sql))
	if err != nil {
		return nil, nil, err
	}
	var comments []models.Comment
	if len(tk.Comments) > 0 {
		comments = make([]models.Comment, len(tk.Comments))
		copy(comments, tk.Comments)
	}
	p := parser.NewParser()
	tree, err := p.ParseFromModelTokens(toks)
	if err != nil {
		return nil, nil, err
	}
	return tree, comments, nil
}

// rtKeywordField: fields that are compared up to letter case. Empty since the parser stores the canonical spelling of
// every keyword and operator word (repo a8df5c2 4f7af58 7e001b2 3b9ee21 654ca05; C04 finding parse-keeps-keyword-spelling,
// fixed): a serialiser that writes `and` for "AND" must give back "AND". The one exception left is the value of a boolean
// literal (C04 known finding parse-keeps-boolean-spelling), handled where the strings are compared.
var rtKeywordField = map[string]bool{}

type rtDelta struct {
	Path, Type, Field, A, B string
}

func rtShort(v reflect.Value) string {
	if !v.IsValid() {
		return "<absent>"
	}
	s := dump(v.Interface())
	if len(s) > 160 {
		s = s[:160] + "..."
	}
	return s
}

// rtDiff: first structural difference between two values (nil slice = empty slice)
func rtDiff(a, b reflect.Value, path, owner, field string, boolLit bool) *rtDelta {
	mk := func() *rtDelta { return &rtDelta{Path: path, Type: owner, Field: field, A: rtShort(a), B: rtShort(b)} }
	if !a.IsValid() || !b.IsValid() {
		if a.IsValid() != b.IsValid() {
			return mk()
		}
		return nil
	}
	if a.Type() != b.Type() {
		return mk()
	}
	switch a.Kind() {
	case reflect.Interface, reflect.Ptr:
		if a.IsNil() || b.IsNil() {
			if a.IsNil() != b.IsNil() {
				return mk()
			}
			return nil
		}
		if a.Elem().Type() != b.Elem().Type() {
			return mk()
		}
		return rtDiff(a.Elem(), b.Elem(), path, owner, field, boolLit)
	case reflect.Struct:
		t := a.Type()
		isBoolLit := false
		if t.Name() == "LiteralValue" {
			ty := strings.ToLower(a.FieldByName("Type").String())
			isBoolLit = ty == "bool" || ty == "boolean" || ty == "null"
		}
		for i := 0; i < t.NumField(); i++ {
			if !t.Field(i).IsExported() {
				continue
			}
			if d := rtDiff(a.Field(i), b.Field(i), path+"."+t.Field(i).Name, t.Name(), t.Field(i).Name, isBoolLit); d != nil {
				return d
			}
		}
		return nil
	case reflect.Slice, reflect.Array:
		if a.Len() != b.Len() {
			return mk()
		}
		for i := 0; i < a.Len(); i++ {
			if d := rtDiff(a.Index(i), b.Index(i), fmt.Sprintf("%s[%d]", path, i), owner, field, boolLit); d != nil {
				return d
			}
		}
		return nil
	case reflect.String:
		if a.String() == b.String() {
			return nil
		}
		if strings.EqualFold(a.String(), b.String()) && (rtKeywordField[owner+"."+field] || (boolLit && owner == "LiteralValue" && field == "Value")) {
			return nil
		}
		return mk()
	case reflect.Map:
		if dump(a.Interface()) != dump(b.Interface()) {
			return mk()
		}
		return nil
	default:
		if a.Kind() == reflect.Func || a.Kind() == reflect.Chan {
			return nil
		}
		if !reflect.DeepEqual(a.Interface(), b.Interface()) {
			return mk()
		}
		return nil
	}
}

func rtTreeDiff(a, b *ast.AST) *rtDelta {
	return rtDiff(reflect.ValueOf(a.Statements), reflect.ValueOf(b.Statements), "$", "AST", "Statements", false)
}

// rtSerialise: text of the tree / of the original text under one configuration
func rtSerialise(o rtOpt, tree *ast.AST, comments []models.Comment, text string) (string, error) {
	switch o.Ser {
	case "sql":
		return tree.SQL(), nil
	case "astfmt":
		return tree.Format(ast.FormatOptions{IndentStyle: ast.IndentStyle(o.IStyle), IndentWidth: o.IWidth,
			KeywordCase: ast.KeywordCase(o.KW), LineWidth: o.LW, NewlinePerClause: o.NL, AddSemicolon: o.Semi}), nil
	case "gosqlx":
		return gosqlx.Format(text, gosqlx.FormatOptions{IndentSize: o.IWidth, UppercaseKeywords: o.Upper,
			AddSemicolon: o.Semi, SingleLineLimit: o.LW})
	case "formatter":
		return formatter.New(formatter.Options{IndentSize: o.IWidth, Uppercase: o.Upper, Compact: o.Compact}).Format(text)
	case "fmtstring":
		return formatter.FormatString(text)
	case "cli":
		return clicmd.NewSQLFormatter(clicmd.FormatterOptions{Indent: o.Indent, Compact: o.Compact,
			UppercaseKw: o.Upper, AlignColumns: o.Align}).Format(tree)
	}
	return "", fmt.Errorf("unknown serialiser %q", o.Ser)
}

func rtIsValueToken(t models.TokenType) bool {
	switch t {
	case models.TokenTypeIdentifier, models.TokenTypeDoubleQuotedString, models.TokenTypeNumber, models.TokenTypeString,
		models.TokenTypeSingleQuotedString, models.TokenTypeDollarQuotedString, models.TokenTypePlaceholder:
		return true
	}
	return false
}

// rtNormTokens: the token sequence up to keyword case, semicolons and the optional AS
func rtNormTokens(text string) ([]string, error) {
	ts, err := c03tokenize(text)
	if err != nil {
		return nil, err
	}
	out := make([]string, 0, len(ts))
	for _, t := range ts {
		if t.Type == models.TokenTypeSemicolon || t.Type == models.TokenTypeEOF || t.Type == models.TokenTypeAs {
			continue
		}
		if t.Type == models.TokenTypeIdentifier {
			// a word the tokenizer hands out as identifier may still be a keyword of the statement (RESTART IDENTITY,
			// NO ACTION, ...) that a formatter re-cases; name case itself is checked by the tree comparison (ii)
			out = append(out, "14:"+strings.ToUpper(t.Literal))
		} else if rtIsValueToken(t.Type) {
			out = append(out, fmt.Sprintf("%d:%s", int(t.Type), t.Literal))
		} else {
			out = append(out, strings.ToUpper(t.Literal))
		}
	}
	return out, nil
}

func rtClip(s string) string {
	if len(s) > 600 {
		return s[:600] + "..."
	}
	return s
}

func rtNodeTypes(v reflect.Value, seen map[string]bool, depth int) {
	if !v.IsValid() || depth > 5000 {
		return
	}
	switch v.Kind() {
	case reflect.Interface, reflect.Ptr:
		if !v.IsNil() {
			rtNodeTypes(v.Elem(), seen, depth+1)
		}
	case reflect.Struct:
		seen[v.Type().Name()] = true
		for i := 0; i < v.NumField(); i++ {
			if v.Type().Field(i).IsExported() {
				rtNodeTypes(v.Field(i), seen, depth+1)
			}
		}
	case reflect.Slice, reflect.Array:
		for i := 0; i < v.Len(); i++ {
			rtNodeTypes(v.Index(i), seen, depth+1)
		}
	}
}

func rtOne(id, sql string, opts []rtOpt, maxFails int) rtOut {
	out := rtOut{ID: id}
	t0, comments, err := rtParse(sql)
	if err != nil {
		out.Code = infoOf(err).Code
		if out.Code == "" {
			out.Code = "error"
		}
		return out
	}
	out.Accepted = true
	seen := map[string]bool{}
	for _, s := range t0.Statements {
		out.Kinds = append(out.Kinds, reflect.TypeOf(s).Elem().Name())
	}
	rtNodeTypes(reflect.ValueOf(t0.Statements), seen, 0)
	for k := range seen {
		out.Types = append(out.Types, k)
	}
	sortStrings(out.Types)
	var refToks []string
	refOK := false
	add := func(f rtFail) {
		if len(out.Fails) < maxFails {
			out.Fails = append(out.Fails, f)
		}
	}
	for i, o := range opts {
		out.Runs++
		var text string
		var serr error
		if p := guarded(func() {
			tree := t0
			if o.Ser == "formatter" || o.Ser == "fmtstring" {
				tree = nil
			}
			text, serr = rtSerialise(o, tree, comments, sql)
		}); p != "" {
			add(rtFail{Opt: i, Kind: "panic", Detail: rtClip(p)})
			continue
		}
		if serr != nil {
			add(rtFail{Opt: i, Kind: "ser-error", Detail: rtClip(serr.Error())})
			continue
		}
		if o.Ser == "sql" && out.SQL == "" {
			out.SQL = text
			refToks, err = rtNormTokens(text)
			refOK = err == nil
		}
		t1, c1, perr := rtParse(text)
		if perr != nil {
			add(rtFail{Opt: i, Kind: "reject", Code: infoOf(perr).Code, Out: rtClip(text), Detail: rtClip(perr.Error())})
			continue
		}
		if d := rtTreeDiff(t0, t1); d != nil {
			add(rtFail{Opt: i, Kind: "tree", Type: d.Type, Field: d.Field, Path: d.Path, A: d.A, B: d.B, Out: rtClip(text)})
			continue
		}
		// idempotence: the serialiser applied to its own output
		var text2 string
		if p := guarded(func() { text2, serr = rtSerialise(o, t1, c1, text) }); p != "" {
			add(rtFail{Opt: i, Kind: "panic", Detail: "second pass: " + rtClip(p)})
			continue
		}
		if serr != nil {
			add(rtFail{Opt: i, Kind: "idem", Detail: "second pass failed: " + rtClip(serr.Error()), Out: rtClip(text)})
			continue
		}
		if text2 != text {
			add(rtFail{Opt: i, Kind: "idem", A: rtClip(text), B: rtClip(text2)})
			continue
		}
		if refOK && o.Ser != "sql" {
			nt, terr := rtNormTokens(text)
			if terr != nil {
				add(rtFail{Opt: i, Kind: "agree", Detail: "tokenizer: " + terr.Error(), Out: rtClip(text)})
				continue
			}
			if len(nt) != len(refToks) {
				add(rtFail{Opt: i, Kind: "agree", Detail: fmt.Sprintf("%d tokens vs %d of SQL()", len(nt), len(refToks)), Out: rtClip(text)})
				continue
			}
			for k := range nt {
				if nt[k] != refToks[k] {
					add(rtFail{Opt: i, Kind: "agree", Detail: fmt.Sprintf("token %d: %q vs %q of SQL()", k, nt[k], refToks[k]), Out: rtClip(text)})
					break
				}
			}
		}
	}
	return out
}

func init() {
	subcmds["c06rt"] = func(args []string) int {
		var opts []rtOpt
		b, err := os.ReadFile(args[0])
		if err != nil || json.Unmarshal(b, &opts) != nil {
			fmt.Fprintln(os.Stderr, "c06rt: cannot read options", err)
			return 2
		}
		maxFails := 6
		sc := bufio.NewScanner(os.Stdin)
		sc.Buffer(make([]byte, 1<<20), 64<<20)
		w := bufio.NewWriter(os.Stdout)
		defer w.Flush()
		enc := json.NewEncoder(w)
		enc.SetEscapeHTML(false)
		for sc.Scan() {
			var in struct {
				ID   string `json:"id"`
				SQL  string `json:"sql"`
				Opts []int  `json:"opts"` // optional: indices into the option list
				All  int    `json:"max_fails"`
			}
			if json.Unmarshal(sc.Bytes(), &in) != nil {
				continue
			}
			use := opts
			if len(in.Opts) > 0 {
				use = nil
				for _, k := range in.Opts {
					if k >= 0 && k < len(opts) {
						use = append(use, opts[k])
					}
				}
			}
			mf := maxFails
			if in.All > 0 {
				mf = in.All
			}
			var out rtOut
			if p := guarded(func() { out = rtOne(in.ID, in.SQL, use, mf) }); p != "" {
				out = rtOut{ID: in.ID, Panic: rtClip(p)}
			}
			if len(in.Opts) > 0 {
				for k := range out.Fails {
					out.Fails[k].Opt = in.Opts[out.Fails[k].Opt]
				}
			}
			_ = enc.Encode(out)
		}
		return 0
	}

	subcmds["c06expr"] = func(args []string) int {
		sc := bufio.NewScanner(os.Stdin)
		sc.Buffer(make([]byte, 1<<20), 64<<20)
		w := bufio.NewWriter(os.Stdout)
		defer w.Flush()
		enc := json.NewEncoder(w)
		enc.SetEscapeHTML(false)
		type outT struct {
			ID       string      `json:"id"`
			Accepted bool        `json:"accepted"`
			Tree     interface{} `json:"tree,omitempty"`
			SQL      string      `json:"sql_out,omitempty"`
			Tokens   []c03tok    `json:"tokens,omitempty"`  // converted tokens of SQL() (without EOF)
			Reparse  string      `json:"reparse,omitempty"` // "" = same tree, all tokens consumed
			Panic    string      `json:"panic,omitempty"`
		}
		parseExpr := func(sql string) (ast.Expression, []token.Token, int, error) {
			toks, err := c03tokenize(sql)
			if err != nil {
				return nil, nil, 0, err
			}
			p := parser.NewParser()
			e, pos, _, perr := p.VerifParseExpressionAt(toks, 0, 0)
			return e, toks, pos, perr
		}
		for sc.Scan() {
			var in struct {
				ID  string `json:"id"`
				SQL string `json:"sql"`
			}
			if json.Unmarshal(sc.Bytes(), &in) != nil {
				continue
			}
			out := outT{ID: in.ID}
			out.Panic = guarded(func() {
				e, toks, pos, err := parseExpr(in.SQL)
				if err != nil || pos != len(toks)-1 {
					return
				}
				out.Accepted = true
				out.Tree = jtree(reflect.ValueOf(e), 0)
				s, ok := e.(interface{ SQL() string })
				if !ok {
					out.Reparse = "no SQL() method"
					return
				}
				out.SQL = s.SQL()
				e2, toks2, pos2, err2 := parseExpr(out.SQL)
				if toks2 != nil {
					out.Tokens = c03tokens(toks2[:len(toks2)-1])
				}
				switch {
				case err2 != nil:
					out.Reparse = "rejected: " + infoOf(err2).Code
				case pos2 != len(toks2)-1:
					out.Reparse = fmt.Sprintf("stopped after %d of %d tokens", pos2, len(toks2)-1)
				default:
					if d := rtDiff(reflect.ValueOf(&e).Elem(), reflect.ValueOf(&e2).Elem(), "$", "", "", false); d != nil {
						out.Reparse = fmt.Sprintf("tree differs at %s (%s.%s): %s vs %s", d.Path, d.Type, d.Field, d.A, d.B)
					}
				}
			})
			_ = enc.Encode(out)
		}
		return 0
	}

	// c06stmt: stdin JSON lines {"id","sql"}; one accepted statement: its tree (generic JSON), SQL() of the statement,
	// the converted tokens of that text (without EOF), and whether that text re-parses to the same tree
	subcmds["c06stmt"] = func(args []string) int {
		sc := bufio.NewScanner(os.Stdin)
		sc.Buffer(make([]byte, 1<<20), 64<<20)
		w := bufio.NewWriter(os.Stdout)
		defer w.Flush()
		enc := json.NewEncoder(w)
		enc.SetEscapeHTML(false)
		type outT struct {
			ID       string      `json:"id"`
			Accepted bool        `json:"accepted"`
			Tree     interface{} `json:"tree,omitempty"`
			SQL      string      `json:"sql_out,omitempty"`
			Tokens   []c03tok    `json:"tokens,omitempty"`
			Reparse  string      `json:"reparse,omitempty"`
			Panic    string      `json:"panic,omitempty"`
		}
		for sc.Scan() {
			var in struct {
				ID  string `json:"id"`
				SQL string `json:"sql"`
			}
			if json.Unmarshal(sc.Bytes(), &in) != nil {
				continue
			}
			out := outT{ID: in.ID}
			out.Panic = guarded(func() {
				t0, _, err := rtParse(in.SQL)
				if err != nil || len(t0.Statements) != 1 {
					return
				}
				out.Accepted = true
				out.Tree = jtree(reflect.ValueOf(t0.Statements[0]), 0)
				out.SQL = t0.SQL()
				toks, terr := c03tokenize(out.SQL)
				if terr != nil {
					out.Reparse = "tokenizer rejects: " + infoOf(terr).Code
					return
				}
				out.Tokens = c03tokens(toks[:len(toks)-1])
				t1, _, perr := rtParse(out.SQL)
				if perr != nil {
					out.Reparse = "rejected: " + infoOf(perr).Code
					return
				}
				if d := rtTreeDiff(t0, t1); d != nil {
					out.Reparse = fmt.Sprintf("tree differs at %s (%s.%s): %s vs %s", d.Path, d.Type, d.Field, d.A, d.B)
				}
			})
			_ = enc.Encode(out)
		}
		return 0
	}

	subcmds["c06lit"] = func(args []string) int {
		sc := bufio.NewScanner(os.Stdin)
		sc.Buffer(make([]byte, 1<<20), 64<<20)
		w := bufio.NewWriter(os.Stdout)
		defer w.Flush()
		enc := json.NewEncoder(w)
		enc.SetEscapeHTML(false)
		type side struct {
			Text   string `json:"text"`
			TokErr string `json:"tok_err,omitempty"`
			NTok   int    `json:"ntok"`
			Ty     string `json:"ty,omitempty"`
			Back   []int  `json:"back"`
			Same   bool   `json:"same"`
		}
		read := func(text string, want string) side {
			s := side{Text: text}
			toks, err := c03tokenize(text)
			if err != nil {
				s.TokErr = infoOf(err).Code
				if s.TokErr == "" {
					s.TokErr = "error"
				}
				return s
			}
			s.NTok = len(toks) - 1
			if s.NTok >= 1 {
				ct := c03tokens(toks[:1])
				s.Ty = ct[0].Ty
				for _, c := range []byte(toks[0].Literal) {
					s.Back = append(s.Back, int(c))
				}
				s.Same = s.NTok == 1 && toks[0].Literal == want
			}
			return s
		}
		for sc.Scan() {
			var in struct {
				ID    string `json:"id"`
				Bytes []int  `json:"bytes"`
			}
			if json.Unmarshal(sc.Bytes(), &in) != nil {
				continue
			}
			bs := make([]byte, len(in.Bytes))
			for i, c := range in.Bytes {
				bs[i] = byte(c)
			}
			content := string(bs)
			lit := (&ast.LiteralValue{Value: content, Type: "string"}).SQL()
			id := (&ast.Identifier{Name: content}).SQL()
			_ = enc.Encode(map[string]interface{}{"id": in.ID, "lit": read(lit, content), "ident": read(id, content)})
		}
		return 0
	}
}
