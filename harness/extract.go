package main

// extract.go — C15: run the real gosqlx extraction functions on parsed (and grafted) trees.
// stdin: JSON lines (qinput); stdout: one JSON line per input.

import (
	"bufio"
	"encoding/json"
	"os"
	"sort"
	"time"

	"github.com/ajitpratap0/GoSQLX/pkg/gosqlx"
	"github.com/ajitpratap0/GoSQLX/pkg/sql/ast"
)

type extractResult struct {
	ID        int         `json:"id"`
	Accepted  bool        `json:"accepted"`
	Err       string      `json:"err,omitempty"`
	Panic     string      `json:"panic,omitempty"`
	Tree      []*qnode    `json:"tree,omitempty"`
	Nodes     int         `json:"nodes"`
	Tables    []string    `json:"tables"`
	Columns   []string    `json:"columns"`
	Functions []string    `json:"functions"`
	QTables   [][3]string `json:"qtables"`
	QColumns  [][3]string `json:"qcolumns"`
	Dups      []string    `json:"dups,omitempty"`      // which result contained a duplicate
	MetaDiff  []string    `json:"metadiff,omitempty"`  // ExtractMetadata field differing from the single function
	MaxNs     int64       `json:"max_ns"`              // slowest of the extraction calls
	TreeSame  bool        `json:"tree_same"`           // canonical dump identical before / after all calls
	TimedOut  bool        `json:"timed_out,omitempty"` // the calls did not return within extractDeadline (abandoned)
}

// extractDeadline bounds the extraction calls of ONE input.  A traversal that re-visits sub-trees (the pinned double
// recursion) needs 2^k visits on a chain of k set operations: it never returns on the flat chains.  The calls run in a
// goroutine of their own; when they miss the deadline the input is reported with timed_out (max_ns = the deadline), and
// every later input is reported as skipped, because the abandoned goroutine keeps a core busy until the process exits.
const extractDeadline = 20 * time.Second

var extractAbandoned bool

func hasDup(l []string) bool {
	m := map[string]bool{}
	for _, x := range l {
		if m[x] {
			return true
		}
		m[x] = true
	}
	return false
}

func qnKeys(l []gosqlx.QualifiedName) ([][3]string, []string) {
	out := make([][3]string, 0, len(l))
	keys := make([]string, 0, len(l))
	for _, q := range l {
		out = append(out, [3]string{q.Schema, q.Table, q.Name})
		keys = append(keys, q.Schema+"\x00"+q.Table+"\x00"+q.Name)
	}
	sort.Slice(out, func(i, j int) bool {
		for k := 0; k < 3; k++ {
			if out[i][k] != out[j][k] {
				return out[i][k] < out[j][k]
			}
		}
		return false
	})
	return out, keys
}

func sortedCopy(l []string) []string {
	c := append([]string{}, l...)
	sort.Strings(c)
	return c
}

func sameSet(a, b []string) bool {
	ma, mb := map[string]bool{}, map[string]bool{}
	for _, x := range a {
		ma[x] = true
	}
	for _, x := range b {
		mb[x] = true
	}
	if len(ma) != len(mb) {
		return false
	}
	for x := range ma {
		if !mb[x] {
			return false
		}
	}
	return true
}

func runExtract(in *qinput) extractResult {
	res := extractResult{ID: in.ID}
	if extractAbandoned {
		res.Err = "skipped: an earlier input exceeded the extraction deadline"
		return res
	}
	tree, perr := qparse(in)
	if tree == nil {
		res.Err = perr
		return res
	}
	res.Accepted = true
	before := ""
	if !in.NoDump {
		res.Tree, res.Nodes = qdump(tree)
		before = dump(tree)
	}
	done := make(chan extractResult, 1)
	go func(res extractResult) {
		res.Panic = extractCalls(tree, &res)
		done <- res
	}(res)
	select {
	case res = <-done:
	case <-time.After(extractDeadline):
		extractAbandoned = true
		res.TimedOut, res.MaxNs, res.TreeSame = true, extractDeadline.Nanoseconds(), true
		res.Tables, res.Columns, res.Functions = []string{}, []string{}, []string{}
		res.QTables, res.QColumns = [][3]string{}, [][3]string{}
		return res
	}
	if !in.NoDump {
		res.TreeSame = dump(tree) == before
	} else {
		res.TreeSame = true
	}
	return res
}

// extractCalls runs the six extraction functions on the tree and fills res; returns the panic text, if any.
func extractCalls(tree *ast.AST, res *extractResult) string {
	return guarded(func() {
		timed := func(f func()) {
			t0 := time.Now()
			f()
			if d := time.Since(t0).Nanoseconds(); d > res.MaxNs {
				res.MaxNs = d
			}
		}
		var tb, cols, fns []string
		var qt, qc []gosqlx.QualifiedName
		timed(func() { tb = gosqlx.ExtractTables(tree) })
		timed(func() { cols = gosqlx.ExtractColumns(tree) })
		timed(func() { fns = gosqlx.ExtractFunctions(tree) })
		timed(func() { qt = gosqlx.ExtractTablesQualified(tree) })
		timed(func() { qc = gosqlx.ExtractColumnsQualified(tree) })
		var md *gosqlx.Metadata
		timed(func() { md = gosqlx.ExtractMetadata(tree) })
		if hasDup(tb) {
			res.Dups = append(res.Dups, "tables")
		}
		if hasDup(cols) {
			res.Dups = append(res.Dups, "columns")
		}
		if hasDup(fns) {
			res.Dups = append(res.Dups, "functions")
		}
		var kt, kc []string
		res.QTables, kt = qnKeys(qt)
		res.QColumns, kc = qnKeys(qc)
		if hasDup(kt) {
			res.Dups = append(res.Dups, "qtables")
		}
		if hasDup(kc) {
			res.Dups = append(res.Dups, "qcolumns")
		}
		res.Tables, res.Columns, res.Functions = sortedCopy(tb), sortedCopy(cols), sortedCopy(fns)
		if md != nil {
			if !sameSet(md.Tables, tb) {
				res.MetaDiff = append(res.MetaDiff, "Tables")
			}
			if !sameSet(md.Columns, cols) {
				res.MetaDiff = append(res.MetaDiff, "Columns")
			}
			if !sameSet(md.Functions, fns) {
				res.MetaDiff = append(res.MetaDiff, "Functions")
			}
			_, mkt := qnKeys(md.TablesQualified)
			_, mkc := qnKeys(md.ColumnsQualified)
			if !sameSet(mkt, kt) {
				res.MetaDiff = append(res.MetaDiff, "TablesQualified")
			}
			if !sameSet(mkc, kc) {
				res.MetaDiff = append(res.MetaDiff, "ColumnsQualified")
			}
		} else {
			res.MetaDiff = append(res.MetaDiff, "nil")
		}
	})
}

func init() {
	subcmds["extract"] = func(args []string) int {
		sc := bufio.NewScanner(os.Stdin)
		sc.Buffer(make([]byte, 1<<20), 256<<20)
		for sc.Scan() {
			var in qinput
			if err := json.Unmarshal(sc.Bytes(), &in); err != nil {
				continue
			}
			emitJSON(runExtract(&in))
		}
		return 0
	}
}
