package main

// ownhist.go — C09 ownership histories on the real pools, emitted in the vocabulary of Model/Own.v.
//
// One history = a sequence of steps on the real library under GOMAXPROCS(1) with the collector switched
// off (so that sync.Pool loses nothing and addresses are never reused; every object ever seen is kept
// alive by the harness):
//   parse-hold / parse-release / re-parse on another goroutine / build a small tree from pool Gets and hold
//   it / release a held tree (ReleaseAST, PutExpression or the typed Put) / empty the pools (GC) / observe.
// After every step: every held snapshot (canonical dump) must be unchanged; after every release the pools
// are drained and restored, which gives the exact multiset of objects that release Put (no object twice,
// only objects of the released tree, no object of a held tree); every object of a newly built tree must
// not belong to a held tree.  The same history is written as Alloc/Get/Write/Release/DropAll/Observe
// operations with object ids in order of first sight, together with the final pool content and the
// objects of every held tree: the Coq model runs it and must agree.

import (
	"fmt"
	"reflect"
	"runtime"
	"runtime/debug"
	"strconv"
	"sync"

	"github.com/ajitpratap0/GoSQLX/pkg/gosqlx"
	"github.com/ajitpratap0/GoSQLX/pkg/sql/ast"
)

type ownOp struct {
	Op   string   `json:"op"`
	T    int      `json:"t"`
	I    int      `json:"i"`
	Ty   int      `json:"ty,omitempty"`
	Kids [][2]int `json:"kids,omitempty"`
}

type ownHeld struct {
	T     int   `json:"t"`
	R     int   `json:"r"`
	Reach []int `json:"reach"`
}

type ownHistory struct {
	Trace []string  `json:"trace"`
	Ops   []ownOp   `json:"ops"`
	Pool  []int     `json:"pool"`
	Lossy bool      `json:"lossy"`
	Cut   bool      `json:"cutoff"` // a release left objects of its tree unpooled because of the work-queue budget
	Held  []ownHeld `json:"held"`
	NObj  int       `json:"nobj"`
}

type ownHistResult struct {
	Histories   int          `json:"histories"`
	Steps       int          `json:"steps"`
	Checks      int          `json:"checks"`
	Releases    int          `json:"releases"`
	ObjectsPut  int          `json:"objects_put"`
	GetsReused  int          `json:"gets_reused"`
	CutOffs     int          `json:"releases_beyond_cutoff"`
	SharedTrees int          `json:"trees_with_shared_objects"`
	Violations  []string     `json:"violations"`
	Hist        []ownHistory `json:"hist"`
	Samples     []string     `json:"samples"`
}

type ownTree struct {
	t     int
	root  interface{}
	objs  []interface{}
	snap  string
	what  string
	via   string // how it is released: ReleaseAST | PutExpression | typed
	typed func()
}

type ownRun struct {
	ids    map[interface{}]int
	keep   []interface{}
	owner  map[interface{}]int // object -> tree id while held (harness bookkeeping, independent of the model)
	held   []*ownTree
	nextT  int
	h      ownHistory
	res    *ownHistResult
	failed bool
}

func (r *ownRun) viol(format string, a ...interface{}) {
	msg := fmt.Sprintf(format, a...) + fmt.Sprintf(" after %v", r.h.Trace)
	if len(msg) > 1500 {
		msg = msg[:1500] + "..."
	}
	if len(r.res.Violations) < 20 {
		r.res.Violations = append(r.res.Violations, msg)
	}
	r.failed = true
}

// register: a tree that the library has just handed out (or that a pool user has just built)
func (r *ownRun) register(root interface{}, what, via string, typed func()) *ownTree {
	t := r.nextT
	r.nextT++
	objs := ownObjects(root)
	tr := &ownTree{t: t, root: root, objs: objs, what: what, via: via, typed: typed}
	for _, o := range objs {
		if id, ok := r.ids[o]; ok {
			if ot, held := r.owner[o]; held {
				r.viol("object %d (%T) of the new tree %q is an object of held tree %d", id, o, what, ot)
			}
			r.res.GetsReused++
			r.h.Ops = append(r.h.Ops, ownOp{Op: "get", T: t, I: id})
		} else {
			id = len(r.ids)
			r.ids[o] = id
			r.keep = append(r.keep, o)
			r.h.Ops = append(r.h.Ops, ownOp{Op: "alloc", T: t, I: id, Ty: ownTypeID[reflect.TypeOf(o).Elem().Name()]})
		}
	}
	for _, o := range objs {
		op := ownOp{Op: "write", T: t, I: r.ids[o], Ty: ownTypeID[reflect.TypeOf(o).Elem().Name()]}
		for _, k := range ownKids(reflect.ValueOf(o), nil) {
			op.Kids = append(op.Kids, [2]int{k.Slot, r.ids[k.Ptr]})
		}
		r.h.Ops = append(r.h.Ops, op)
	}
	if len(objs) > 0 {
		rows, _, ns := sharedSlots(root, nil)
		_ = rows
		if ns > 0 {
			r.res.SharedTrees++
		}
	}
	return tr
}

func (r *ownRun) hold(tr *ownTree) {
	tr.snap = dump(tr.root)
	for _, o := range tr.objs {
		r.owner[o] = tr.t
	}
	r.held = append(r.held, tr)
}

func (r *ownRun) release(tr *ownTree) {
	for _, o := range tr.objs {
		delete(r.owner, o)
	}
	mine := map[interface{}]bool{}
	for _, o := range tr.objs {
		mine[o] = true
	}
	before := drainKnown(func(o interface{}) bool { _, ok := r.ids[o]; return ok }, len(r.ids)+8)
	switch tr.via {
	case "ReleaseAST":
		ast.ReleaseAST(tr.root.(*ast.AST))
	case "PutExpression":
		ast.PutExpression(tr.root.(ast.Expression))
	default:
		tr.typed()
	}
	put := drainKnown(func(o interface{}) bool { _, ok := r.ids[o]; return ok }, len(r.ids)+8)
	r.res.Releases++
	r.res.ObjectsPut += len(put)
	seen := map[interface{}]bool{}
	for _, po := range put {
		id := r.ids[po.Obj]
		if seen[po.Obj] {
			r.viol("release of %q put object %d (%T) into %s twice", tr.what, id, po.Obj, po.Pool)
		}
		seen[po.Obj] = true
		if !mine[po.Obj] {
			r.viol("release of %q put object %d (%T), which is not an object of the released tree", tr.what, id, po.Obj)
		}
		if ot, held := r.owner[po.Obj]; held {
			r.viol("release of %q put object %d (%T) of held tree %d", tr.what, id, po.Obj, ot)
		}
	}
	if len(tr.objs) > ast.MaxWorkQueueSize && len(put) < len(tr.objs) {
		r.res.CutOffs++
		r.h.Cut = true
	}
	restorePools(before)
	restorePools(put)
	r.h.Ops = append(r.h.Ops, ownOp{Op: "release", T: tr.t, I: r.ids[tr.root]})
}

func (r *ownRun) check() {
	for _, tr := range r.held {
		r.res.Checks++
		if d := dump(tr.root); d != tr.snap {
			r.viol("held tree %d (%q) changed", tr.t, tr.what)
			tr.snap = d
		}
	}
}

// small trees built by a pool user from pool Gets
func (r *ownRun) userTree(rg *rng, wide bool) *ownTree {
	leaf := func() ast.Expression {
		if rg.intn(2) == 0 {
			id := ast.GetIdentifier()
			id.Name = "u" + strconv.Itoa(rg.intn(100))
			return id
		}
		l := ast.GetLiteralValue()
		l.Value = strconv.Itoa(rg.intn(100))
		l.Type = "INTEGER"
		return l
	}
	bin := func() *ast.BinaryExpression {
		b := ast.GetBinaryExpression()
		b.Left, b.Operator, b.Right = leaf(), "=", leaf()
		return b
	}
	if wide {
		fc := ast.GetFunctionCall()
		fc.Name = "wide"
		n := ast.MaxWorkQueueSize + 50 + rg.intn(100)
		for i := 0; i < n; i++ {
			fc.Arguments = append(fc.Arguments, leaf())
		}
		return r.register(fc, "user wide FunctionCall", "PutExpression", nil)
	}
	switch rg.intn(5) {
	case 0:
		b := bin()
		return r.register(b, "user BinaryExpression", "PutExpression", nil)
	case 1:
		b := bin()
		return r.register(b, "user BinaryExpression (typed Put)", "typed", func() { ast.PutBinaryExpression(b) })
	case 2:
		fc := ast.GetFunctionCall()
		fc.Name = "f"
		for i := 0; i < 1+rg.intn(4); i++ {
			fc.Arguments = append(fc.Arguments, leaf())
		}
		return r.register(fc, "user FunctionCall (typed Put)", "typed", func() { ast.PutFunctionCall(fc) })
	case 3:
		s := ast.GetSelectStatement()
		s.Columns = append(s.Columns, leaf(), bin())
		bt := ast.GetBetweenExpression()
		bt.Expr, bt.Lower, bt.Upper = leaf(), leaf(), leaf()
		s.Where = bt
		s.TableName = "ut"
		return r.register(s, "user SelectStatement (typed Put)", "typed", func() { ast.PutSelectStatement(s) })
	default:
		ce := ast.GetCaseExpression()
		ce.WhenClauses = append(ce.WhenClauses, ast.WhenClause{Condition: bin(), Result: leaf()})
		ce.ElseClause = leaf()
		in := ast.GetInExpression()
		in.Expr = ce
		in.List = append(in.List, leaf(), leaf())
		return r.register(in, "user InExpression", "PutExpression", nil)
	}
}

func (r *ownRun) finish() {
	for _, tr := range r.held {
		reach := make([]int, 0, len(tr.objs))
		for _, o := range tr.objs {
			reach = append(reach, r.ids[o])
		}
		r.h.Held = append(r.h.Held, ownHeld{T: tr.t, R: r.ids[tr.root], Reach: reach})
	}
	pooled := drainKnown(func(o interface{}) bool { _, ok := r.ids[o]; return ok }, len(r.ids)+8)
	seen := map[interface{}]bool{}
	for _, po := range pooled {
		if seen[po.Obj] {
			r.viol("object %d (%T) is in pool %s twice at the end of the history", r.ids[po.Obj], po.Obj, po.Pool)
			continue
		}
		seen[po.Obj] = true
		if ot, held := r.owner[po.Obj]; held {
			r.viol("object %d (%T) of held tree %d is in pool %s", r.ids[po.Obj], po.Obj, ot, po.Pool)
		}
		r.h.Pool = append(r.h.Pool, r.ids[po.Obj])
	}
	r.h.NObj = len(r.ids)
}

func runOwnHist(seed uint64, n int, sqls, special []string, concurrent bool) ownHistResult {
	ownInit()
	res := ownHistResult{}
	old := runtime.GOMAXPROCS(1)
	defer runtime.GOMAXPROCS(old)
	gcOld := debug.SetGCPercent(-1)
	defer debug.SetGCPercent(gcOld)
	rg := &rng{s: seed}
	// statements the parser rejects are used only by the dedicated failed-parse step (such a step may lose
	// pooled objects the parser had obtained: the history is then marked lossy)
	var good, rejected []string
	for _, q := range sqls {
		if tr, err := gosqlx.Parse(q); err == nil && tr != nil {
			ast.ReleaseAST(tr)
			good = append(good, q)
		} else {
			rejected = append(rejected, q)
		}
	}
	if len(good) > 0 {
		sqls = good
	}
	rejected = append(rejected, "SELECT (1, 2, FROM t", "SELECT ARRAY[1, 2 FROM t", "SELECT a[1:2 FROM t", "SELECT (a, b, c")
	for hi := 0; hi < n; hi++ {
		drainPools()
		r := &ownRun{ids: map[interface{}]int{}, owner: map[interface{}]int{}, res: &res}
		steps := 4 + rg.intn(10)
		pick := func() string {
			if len(special) > 0 && rg.intn(4) == 0 {
				return special[rg.intn(len(special))]
			}
			return sqls[rg.intn(len(sqls))]
		}
		wideLeft := 0
		if hi%25 == 3 {
			wideLeft = 1
		}
		for s := 0; s < steps; s++ {
			res.Steps++
			k := rg.intn(10)
			switch {
			case k <= 2: // parse and hold
				sql := pick()
				tr, err := gosqlx.Parse(sql)
				if err != nil || tr == nil {
					r.h.Lossy = true
					r.h.Trace = append(r.h.Trace, "ParseFailed")
					break
				}
				r.h.Trace = append(r.h.Trace, "ParseHold("+short(sql)+")")
				r.hold(r.register(tr, sql, "ReleaseAST", nil))
			case k == 3: // release one held tree
				if len(r.held) > 0 {
					i := rg.intn(len(r.held))
					tr := r.held[i]
					r.held = append(r.held[:i], r.held[i+1:]...)
					r.h.Trace = append(r.h.Trace, fmt.Sprintf("Release(t%d)", tr.t))
					r.release(tr)
				}
			case k == 4: // parse and release immediately
				sql := pick()
				tr, err := gosqlx.Parse(sql)
				if err != nil || tr == nil {
					r.h.Lossy = true
					r.h.Trace = append(r.h.Trace, "ParseFailed")
					break
				}
				r.h.Trace = append(r.h.Trace, "ParseRelease("+short(sql)+")")
				r.release(r.register(tr, sql, "ReleaseAST", nil))
			case k == 5 || k == 6: // a pool user builds a tree from pool Gets and holds it
				wide := wideLeft > 0 && rg.intn(2) == 0
				if wide {
					wideLeft--
				}
				tr := r.userTree(rg, wide)
				r.h.Trace = append(r.h.Trace, "UserBuild("+tr.what+")")
				r.hold(tr)
			case k == 7: // the same on another goroutine
				sql := pick()
				var tr *ast.AST
				var err error
				var wg sync.WaitGroup
				wg.Add(1)
				go func() {
					defer wg.Done()
					tr, err = gosqlx.Parse(sql)
				}()
				wg.Wait()
				if err != nil || tr == nil {
					r.h.Lossy = true
					r.h.Trace = append(r.h.Trace, "ParseFailed")
					break
				}
				r.h.Trace = append(r.h.Trace, "OtherGoroutineParseRelease("+short(sql)+")")
				t := r.register(tr, sql, "ReleaseAST", nil)
				wg.Add(1)
				go func() {
					defer wg.Done()
					r.release(t)
				}()
				wg.Wait()
			case k == 8: // the collector empties the pools
				drainPools()
				r.h.Ops = append(r.h.Ops, ownOp{Op: "dropall"})
				r.h.Trace = append(r.h.Trace, "GC")
			default:
				if rg.intn(4) == 0 { // a parse that fails (the parser drops what it had obtained from the pools)
					q := rejected[rg.intn(len(rejected))]
					if tr, err := gosqlx.Parse(q); err == nil && tr != nil {
						r.release(r.register(tr, q, "ReleaseAST", nil))
					} else {
						r.h.Lossy = true
					}
					r.h.Trace = append(r.h.Trace, "ParseFailed("+short(q)+")")
					break
				}
				if len(r.held) > 0 {
					tr := r.held[rg.intn(len(r.held))]
					r.h.Ops = append(r.h.Ops, ownOp{Op: "observe", T: tr.t, I: r.ids[tr.root]})
				}
				r.h.Trace = append(r.h.Trace, "Observe")
			}
			r.check()
		}
		r.finish()
		res.Histories++
		if hi < 2 {
			res.Samples = append(res.Samples, fmt.Sprint(r.h.Trace))
		}
		if r.h.NObj <= 6000 {
			res.Hist = append(res.Hist, r.h)
		}
	}
	if concurrent {
		runOwnConcurrent(seed, sqls, special, &res)
	}
	return res
}

// concurrent variant: goroutines on several Ps parse, hold, check and release at the same time; every
// held snapshot must stay unchanged and no two goroutines may hold the same object at the same time.
func runOwnConcurrent(seed uint64, sqls, special []string, res *ownHistResult) {
	old := runtime.GOMAXPROCS(4)
	defer runtime.GOMAXPROCS(old)
	var mu sync.Mutex
	owner := map[interface{}]int{}
	var wg sync.WaitGroup
	all := append(append([]string{}, sqls...), special...)
	for g := 0; g < 4; g++ {
		wg.Add(1)
		go func(g int) {
			defer wg.Done()
			rg := &rng{s: seed + uint64(g)*7919}
			type h struct {
				tr   *ast.AST
				snap string
				objs []interface{}
			}
			var held []h
			for it := 0; it < 60; it++ {
				sql := all[rg.intn(len(all))]
				tr, err := gosqlx.Parse(sql)
				if err == nil && tr != nil {
					objs := ownObjects(tr)
					mu.Lock()
					for _, o := range objs {
						if og, ok := owner[o]; ok {
							if len(res.Violations) < 20 {
								res.Violations = append(res.Violations, fmt.Sprintf("concurrent: object %T handed to goroutine %d is held by goroutine %d (sql %q)", o, g, og, short(sql)))
							}
						}
						owner[o] = g
					}
					res.Checks++
					mu.Unlock()
					held = append(held, h{tr, dump(tr), objs})
				}
				for _, x := range held {
					if dump(x.tr) != x.snap {
						mu.Lock()
						if len(res.Violations) < 20 {
							res.Violations = append(res.Violations, fmt.Sprintf("concurrent: a tree held by goroutine %d changed", g))
						}
						mu.Unlock()
					}
				}
				if len(held) > 2 || (len(held) > 0 && rg.intn(3) == 0) {
					i := rg.intn(len(held))
					x := held[i]
					held = append(held[:i], held[i+1:]...)
					mu.Lock()
					for _, o := range x.objs {
						delete(owner, o)
					}
					mu.Unlock()
					ast.ReleaseAST(x.tr)
				}
			}
		}(g)
	}
	wg.Wait()
}

func short(s string) string {
	if len(s) > 60 {
		return s[:60] + "..."
	}
	return s
}

func init() {
	subcmds["own"] = func(args []string) int {
		// args: seed n [concurrent]; stdin: {"sql":..} lines, special statements marked {"sql":..,"special":true}
		seed, _ := strconv.ParseUint(args[0], 10, 64)
		n, _ := strconv.Atoi(args[1])
		var sqls, special []string
		for _, l := range readSQLLinesTagged() {
			if l.Special {
				special = append(special, l.SQL)
			} else {
				sqls = append(sqls, l.SQL)
			}
		}
		if len(sqls) == 0 {
			return 2
		}
		emitJSON(runOwnHist(seed, n, sqls, special, len(args) > 2 && args[2] == "concurrent"))
		return 0
	}
}
