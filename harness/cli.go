// cli: library verdicts for the inputs the C19 check feeds to the real gosqlx binary.
// One JSON object per input line:
//
//	{"sql": "...", "indent": 2, "uppercase": true, "compact": false, "max_length": 100}
//
// One JSON object per output line: what the library says about that text — validation (default and
// strict), the formatter's output for those options, linter findings (rule, severity) and the text the
// auto-fixers produce, whether the tokenizer alone accepts it.
package main

import (
	"bufio"
	"encoding/json"
	"os"
	"strings"

	clicmd "github.com/ajitpratap0/GoSQLX/cmd/gosqlx/cmd"
	"github.com/ajitpratap0/GoSQLX/pkg/gosqlx"
	"github.com/ajitpratap0/GoSQLX/pkg/linter"
	"github.com/ajitpratap0/GoSQLX/pkg/linter/rules/keywords"
	"github.com/ajitpratap0/GoSQLX/pkg/linter/rules/style"
	"github.com/ajitpratap0/GoSQLX/pkg/linter/rules/whitespace"
	"github.com/ajitpratap0/GoSQLX/pkg/sql/ast"
	"github.com/ajitpratap0/GoSQLX/pkg/sql/parser"
	"github.com/ajitpratap0/GoSQLX/pkg/sql/tokenizer"
)

type cliIn struct {
	SQL       string `json:"sql"`
	Indent    int    `json:"indent"`
	Uppercase bool   `json:"uppercase"`
	Compact   bool   `json:"compact"`
	MaxLength int    `json:"max_length"`
}

type cliViolation struct {
	Rule     string `json:"rule"`
	Severity string `json:"severity"`
	Line     int    `json:"line"`
	Column   int    `json:"column"`
}

type cliOut struct {
	GosqlxValidate bool           `json:"gosqlx_validate"` // gosqlx.Validate(sql) == nil
	ParserValidate bool           `json:"parser_validate"` // parser.Validate(sql) == nil
	PipelineOK     bool           `json:"pipeline_ok"`     // tokenizer + parser.ParseFromModelTokens accept
	StrictOK       bool           `json:"strict_ok"`       // the same with parser.WithStrictMode()
	TokenizeOK     bool           `json:"tokenize_ok"`
	NumTokens      int            `json:"num_tokens"`
	FmtOK          bool           `json:"fmt_ok"`
	Fmt            string         `json:"fmt"`
	Violations     []cliViolation `json:"violations"`
	LintErr        string         `json:"lint_err,omitempty"`
	Fixed          string         `json:"fixed"`
	Panic          string         `json:"panic,omitempty"`
}

func cliPipeline(sql string, strict bool) (ok bool, ntok int, tokOK bool) {
	tkz := tokenizer.GetTokenizer()
	defer tokenizer.PutTokenizer(tkz)
	tokens, err := tkz.Tokenize([]byte(sql))
	if err != nil {
		return false, 0, false
	}
	var opts []parser.ParserOption
	if strict {
		opts = append(opts, parser.WithStrictMode())
	}
	p := parser.NewParser(opts...)
	defer p.Release()
	tree, err := p.ParseFromModelTokens(tokens)
	if err != nil {
		return false, len(tokens), true
	}
	ast.ReleaseAST(tree)
	return true, len(tokens), true
}

func cliFormat(in cliIn) (string, bool) {
	tkz := tokenizer.GetTokenizer()
	defer tokenizer.PutTokenizer(tkz)
	tokens, err := tkz.Tokenize([]byte(in.SQL))
	if err != nil {
		return "", false
	}
	if len(tokens) == 0 {
		return "", true
	}
	p := parser.NewParser()
	tree, err := p.ParseFromModelTokens(tokens)
	if err != nil {
		return "", false
	}
	defer ast.ReleaseAST(tree)
	f := clicmd.NewSQLFormatter(clicmd.FormatterOptions{
		Indent:       strings.Repeat(" ", in.Indent),
		Compact:      in.Compact,
		UppercaseKw:  in.Uppercase,
		AlignColumns: !in.Compact,
	})
	out, err := f.Format(tree)
	if err != nil {
		return "", false
	}
	return out, true
}

// the rule set of `gosqlx lint` (cmd/gosqlx/cmd/lint.go createLinter)
func cliLinter(maxLength int) *linter.Linter {
	return linter.New(
		whitespace.NewTrailingWhitespaceRule(),
		whitespace.NewMixedIndentationRule(),
		whitespace.NewConsecutiveBlankLinesRule(1),
		whitespace.NewIndentationDepthRule(4, 4),
		whitespace.NewLongLinesRule(maxLength),
		whitespace.NewRedundantWhitespaceRule(),
		style.NewColumnAlignmentRule(),
		style.NewCommaPlacementRule(style.CommaTrailing),
		style.NewAliasingConsistencyRule(true),
		keywords.NewKeywordCaseRule(keywords.CaseUpper),
	)
}

func init() {
	subcmds["cli"] = func(args []string) int {
		sc := bufio.NewScanner(os.Stdin)
		sc.Buffer(make([]byte, 1<<20), 64<<20)
		for sc.Scan() {
			line := sc.Bytes()
			if len(strings.TrimSpace(string(line))) == 0 {
				continue
			}
			var in cliIn
			if err := json.Unmarshal(line, &in); err != nil {
				emitJSON(map[string]string{"error": err.Error()})
				continue
			}
			if in.MaxLength == 0 {
				in.MaxLength = 100
			}
			var out cliOut
			out.Violations = []cliViolation{}
			out.Panic = guarded(func() {
				out.GosqlxValidate = gosqlx.Validate(in.SQL) == nil
				out.ParserValidate = parser.Validate(in.SQL) == nil
				out.PipelineOK, out.NumTokens, out.TokenizeOK = cliPipeline(in.SQL, false)
				out.StrictOK, _, _ = cliPipeline(in.SQL, true)
				out.Fmt, out.FmtOK = cliFormat(in)
				l := cliLinter(in.MaxLength)
				res := l.LintString(in.SQL, "input")
				if res.Error != nil {
					out.LintErr = res.Error.Error()
				}
				for _, v := range res.Violations {
					out.Violations = append(out.Violations, cliViolation{Rule: v.Rule, Severity: string(v.Severity), Line: v.Location.Line, Column: v.Location.Column})
				}
				fixed := in.SQL
				for _, rule := range l.Rules() {
					if !rule.CanAutoFix() {
						continue
					}
					fc, err := rule.Fix(fixed, res.Violations)
					if err != nil {
						continue
					}
					fixed = fc
				}
				out.Fixed = fixed
			})
			emitJSON(out)
		}
		return 0
	}
}
