package main

// own.go — C09 ownership clause.
//   owntable : release-descent table by reflective probing of the release paths (which objects a release
//              Puts, which child slots it goes on into, which slots survive the reset, the work-queue budget)
//   ownshare : slots in which the parser stores an object that is also stored elsewhere in the same tree
//   own      : ownership histories (see ownhist.go)
//
// Objects are pointers to node structs.  A slot of an object is an access path from the struct to a place
// that can hold a pointer to another node object, crossing by-value structs (including by-value nodes such
// as UpdateExpression, OrderByExpression, TableReference, JoinClause, WhenClause: they are part of the
// object that contains them), slices and pointers to non-node structs, in struct field order.

import (
	"bufio"
	"encoding/json"
	"os"
	"reflect"
	"runtime"
	"sort"
	"strings"
	"sync"

	"github.com/ajitpratap0/GoSQLX/pkg/gosqlx"
	"github.com/ajitpratap0/GoSQLX/pkg/sql/ast"
)

var (
	stmtIface = reflect.TypeOf((*ast.Statement)(nil)).Elem()
	exprIface = reflect.TypeOf((*ast.Expression)(nil)).Elem()
)

type ownSlot struct {
	Steps []string
	Path  string
	Type  reflect.Type // static type of the slot (interface or pointer to node struct)
}

var ownSlotCache = map[reflect.Type][]ownSlot{}
var ownSlotIndex = map[reflect.Type]map[string]int{}
var ownTypeID = map[string]int{}

func ownInit() {
	if len(ownTypeID) > 0 {
		return
	}
	for i, t := range nodeTypes {
		ownTypeID[t.Name()] = i
	}
}

var ownSlotMu sync.Mutex

func ownSlots(t reflect.Type) []ownSlot {
	ownSlotMu.Lock()
	defer ownSlotMu.Unlock()
	if s, ok := ownSlotCache[t]; ok {
		return s
	}
	var out []ownSlot
	var recStruct func(t reflect.Type, steps []string, seen map[reflect.Type]int)
	var slot func(ft reflect.Type, st []string, seen map[reflect.Type]int)
	slot = func(ft reflect.Type, st []string, seen map[reflect.Type]int) {
		switch ft.Kind() {
		case reflect.Interface:
			if ft.Implements(nodeIface) {
				out = append(out, ownSlot{Steps: st, Path: strings.Join(st, "."), Type: ft})
			}
		case reflect.Ptr:
			el := ft.Elem()
			if isNodeStruct(el) {
				out = append(out, ownSlot{Steps: st, Path: strings.Join(st, "."), Type: ft})
			} else if el.Kind() == reflect.Struct && seen[el] < 1 {
				recStruct(el, st, seen)
			}
		case reflect.Struct:
			if seen[ft] < 1 {
				recStruct(ft, st, seen)
			}
		case reflect.Slice, reflect.Array:
			slot(ft.Elem(), append(append([]string{}, st...), "[*]"), seen)
		}
	}
	recStruct = func(t reflect.Type, steps []string, seen map[reflect.Type]int) {
		seen2 := map[reflect.Type]int{}
		for k, v := range seen {
			seen2[k] = v
		}
		seen2[t]++
		for i := 0; i < t.NumField(); i++ {
			f := t.Field(i)
			if !f.IsExported() {
				continue
			}
			slot(f.Type, append(append([]string{}, steps...), f.Name), seen2)
		}
	}
	recStruct(t, nil, map[reflect.Type]int{})
	ownSlotCache[t] = out
	idx := map[string]int{}
	for i, s := range out {
		idx[s.Path] = i
	}
	ownSlotIndex[t] = idx
	return out
}

type ownKid struct {
	Slot int
	Path string
	Ptr  interface{}
}

// ownKids lists the node objects stored in the slots of the object pv points to, in slot order.
// valInIface counts by-value nodes met inside interface slots (not followed).
func ownKids(pv reflect.Value, valInIface *int) []ownKid {
	t := pv.Type().Elem()
	ownSlots(t)
	ownSlotMu.Lock()
	idx := ownSlotIndex[t]
	ownSlotMu.Unlock()
	var out []ownKid
	var recStruct func(v reflect.Value, path string, seen map[reflect.Type]int)
	var slot func(v reflect.Value, path string, seen map[reflect.Type]int)
	slot = func(v reflect.Value, path string, seen map[reflect.Type]int) {
		switch v.Kind() {
		case reflect.Interface:
			if v.IsNil() || !v.Type().Implements(nodeIface) {
				return
			}
			e := v.Elem()
			if e.Kind() == reflect.Ptr && isNodeStruct(e.Type().Elem()) {
				if !e.IsNil() {
					out = append(out, ownKid{Slot: idx[path], Path: path, Ptr: e.Interface()})
				}
			} else if valInIface != nil {
				*valInIface++
			}
		case reflect.Ptr:
			if v.IsNil() {
				return
			}
			el := v.Type().Elem()
			if isNodeStruct(el) {
				out = append(out, ownKid{Slot: idx[path], Path: path, Ptr: v.Interface()})
			} else if el.Kind() == reflect.Struct && seen[el] < 1 {
				recStruct(v.Elem(), path, seen)
			}
		case reflect.Struct:
			if seen[v.Type()] < 1 {
				recStruct(v, path, seen)
			}
		case reflect.Slice, reflect.Array:
			for i := 0; i < v.Len(); i++ {
				slot(v.Index(i), path+".[*]", seen)
			}
		}
	}
	recStruct = func(v reflect.Value, path string, seen map[reflect.Type]int) {
		seen2 := map[reflect.Type]int{}
		for k, x := range seen {
			seen2[k] = x
		}
		seen2[v.Type()]++
		st := v.Type()
		for i := 0; i < st.NumField(); i++ {
			if !st.Field(i).IsExported() {
				continue
			}
			p := st.Field(i).Name
			if path != "" {
				p = path + "." + p
			}
			slot(v.Field(i), p, seen2)
		}
	}
	recStruct(pv.Elem(), "", map[reflect.Type]int{})
	return out
}

// ownObjects lists every node object reachable from root (root first, depth first in slot order, each once).
func ownObjects(root interface{}) []interface{} {
	var out []interface{}
	seen := map[interface{}]bool{}
	var rec func(p interface{})
	rec = func(p interface{}) {
		if seen[p] {
			return
		}
		seen[p] = true
		out = append(out, p)
		for _, k := range ownKids(reflect.ValueOf(p), nil) {
			rec(k.Ptr)
		}
	}
	rv := reflect.ValueOf(root)
	if rv.Kind() == reflect.Ptr && !rv.IsNil() && isNodeStruct(rv.Type().Elem()) {
		rec(root)
	}
	return out
}

// ---------------------------------------------------------------------------------------------
// pools (through the verif hook): drain, restore

func poolNames() []string {
	var ns []string
	for n := range ast.VerifPools() {
		ns = append(ns, n)
	}
	sort.Strings(ns)
	return ns
}

type pooledObj struct {
	Pool string
	Obj  interface{}
}

// drainKnown empties every node pool and returns the objects for which known() holds, once per pool
// entry (an object that was Put twice comes out twice).  The pool's New is switched off meanwhile, so Get
// returns nil exactly when the pool is empty; pooled objects the harness has never seen (put there by a
// failed parse releasing its partial tree) are dropped.
func drainKnown(known func(interface{}) bool, limit int) []pooledObj {
	var out []pooledObj
	pools := ast.VerifPools()
	for _, n := range poolNames() {
		if n == "exprSlicePool" {
			continue
		}
		p := pools[n]
		mk := p.New
		p.New = nil
		for {
			o := p.Get()
			if o == nil {
				break
			}
			if known(o) {
				out = append(out, pooledObj{n, o})
			}
		}
		p.New = mk
	}
	return out
}

func restorePools(objs []pooledObj) {
	pools := ast.VerifPools()
	seen := map[interface{}]bool{}
	for _, po := range objs {
		if seen[po.Obj] {
			continue
		}
		seen[po.Obj] = true
		pools[po.Pool].Put(po.Obj)
	}
}

// ---------------------------------------------------------------------------------------------
// release-descent probe

type ownRow struct {
	Type      string   `json:"type"`
	Tid       int      `json:"tid"`
	Slot      int      `json:"slot"`
	Path      string   `json:"path"`
	Route     string   `json:"route"`
	Planted   bool     `json:"planted"`
	Sentinel  string   `json:"sentinel"`
	SelfPut   int      `json:"self_put"`
	ChildPut  int      `json:"child_put"`
	Kept      bool     `json:"kept"`              // the slot still refers to the child after the object was Put
	ChildDiff bool     `json:"child_written"`     // the child was modified although it was not Put
	Through   [][2]int `json:"through,omitempty"` // (type, slot) pairs below a child of a non-pooled type through which the release went on to objects it Put
}

// a sentinel planted below a non-pooled child: the chain of (type id, slot) pairs leading to it
type deepSentinel struct {
	ptr   interface{}
	chain [][2]int
}

// plantDeep fills every slot of the non-pooled object pv (and, up to depth, of non-pooled objects below it)
// with sentinels of their own
func plantDeep(pv reflect.Value, pooled map[string]bool, depth int, chain [][2]int, out *[]deepSentinel) {
	t := pv.Type().Elem()
	for si, sl := range ownSlots(t) {
		sv, ok := sentinelFor(sl.Type)
		if !ok {
			continue
		}
		if _, ok := plantAt(pv.Elem(), sl.Steps, sv); !ok {
			continue
		}
		ch := append(append([][2]int{}, chain...), [2]int{ownTypeID[t.Name()], si})
		*out = append(*out, deepSentinel{sv.Interface(), ch})
		if depth > 1 && !pooled[sv.Type().Elem().Name()] {
			plantDeep(sv, pooled, depth-1, ch, out)
		}
	}
}

type ownTypeRow struct {
	Type    string `json:"type"`
	Tid     int    `json:"tid"`
	Route   string `json:"route"` // ReleaseAST | PutExpression | none
	SelfPut int    `json:"self_put"`
	NSlots  int    `json:"nslots"`
}

type ownTable struct {
	Types    []ownTypeRow   `json:"types"`
	Rows     []ownRow       `json:"rows"`
	Pools    []string       `json:"pools"`
	Budget   map[string]int `json:"budget"`
	PutTyped []ownRow       `json:"put_typed"` // same probe through the typed Put<X> functions
}

func routeOf(t reflect.Type) string {
	pt := reflect.PointerTo(t)
	switch {
	case t == reflect.TypeOf(ast.AST{}):
		return "ReleaseAST"
	case pt.Implements(stmtIface):
		return "ReleaseAST"
	case pt.Implements(exprIface):
		return "PutExpression"
	}
	return "none"
}

func releaseVia(route string, x reflect.Value) {
	switch route {
	case "ReleaseAST":
		if a, ok := x.Interface().(*ast.AST); ok {
			ast.ReleaseAST(a)
		} else {
			ast.ReleaseAST(&ast.AST{Statements: []ast.Statement{x.Interface().(ast.Statement)}})
		}
	case "PutExpression":
		ast.PutExpression(x.Interface().(ast.Expression))
	}
}

// sentinelFor builds a recognisable node object assignable to the slot, preferring pooled types.
func sentinelFor(st reflect.Type) (reflect.Value, bool) {
	if st.Kind() == reflect.Ptr {
		nv := reflect.New(st.Elem())
		markValue(nv.Elem(), "own-sentinel")
		return nv, true
	}
	for _, c := range ifaceCandidates("own-sentinel") {
		if c.Type().AssignableTo(st) {
			return c, true
		}
	}
	for _, nt := range nodeTypes {
		if reflect.PointerTo(nt).AssignableTo(st) {
			nv := reflect.New(nt)
			markValue(nv.Elem(), "own-sentinel")
			return nv, true
		}
	}
	return reflect.Value{}, false
}

// plantAt stores val at the slot (first element of every slice on the way); returns the slot value.
func plantAt(root reflect.Value, steps []string, val reflect.Value) (reflect.Value, bool) {
	cur := root
	for _, s := range steps {
		switch s {
		case "[*]":
			if cur.Kind() == reflect.Array {
				if cur.Len() == 0 {
					return cur, false
				}
				cur = cur.Index(0)
			} else {
				if cur.Len() < 1 {
					cur.Set(reflect.MakeSlice(cur.Type(), 1, 1))
				}
				cur = cur.Index(0)
			}
		default:
			for cur.Kind() == reflect.Ptr {
				if cur.IsNil() {
					cur.Set(reflect.New(cur.Type().Elem()))
				}
				cur = cur.Elem()
			}
			cur = cur.FieldByName(s)
		}
	}
	if !val.Type().AssignableTo(cur.Type()) {
		return cur, false
	}
	cur.Set(val)
	return cur, true
}

func countObj(objs []pooledObj, o interface{}) int {
	n := 0
	for _, po := range objs {
		if po.Obj == o {
			n++
		}
	}
	return n
}

func probeOwn() ownTable {
	ownInit()
	old := runtime.GOMAXPROCS(1)
	defer runtime.GOMAXPROCS(old)
	var tb ownTable
	tb.Pools = poolNames()
	pooled := map[string]bool{}
	probe := func(t reflect.Type, route string, typedPut func(interface{})) (ownTypeRow, []ownRow) {
		slots := ownSlots(t)
		tr := ownTypeRow{Type: t.Name(), Tid: ownTypeID[t.Name()], Route: route, NSlots: len(slots)}
		do := func(x reflect.Value) {
			if typedPut != nil {
				typedPut(x.Interface())
			} else {
				releaseVia(route, x)
			}
		}
		{ // the object alone
			drainPools()
			x := reflect.New(t)
			do(x)
			got := drainKnown(func(o interface{}) bool { return o == x.Interface() }, 8)
			tr.SelfPut = countObj(got, x.Interface())
		}
		var rows []ownRow
		for si, sl := range slots {
			r := ownRow{Type: t.Name(), Tid: tr.Tid, Slot: si, Path: sl.Path, Route: route}
			sv, ok := sentinelFor(sl.Type)
			if ok {
				drainPools()
				x := reflect.New(t)
				_, ok = plantAt(x.Elem(), sl.Steps, sv)
				if ok {
					r.Planted = true
					r.Sentinel = sv.Type().Elem().Name()
					before := dump(sv.Interface())
					do(x)
					got := drainKnown(func(o interface{}) bool { return o == x.Interface() || o == sv.Interface() }, 8)
					r.SelfPut = countObj(got, x.Interface())
					r.ChildPut = countObj(got, sv.Interface())
					if r.SelfPut > 0 {
						for _, k := range ownKids(x, nil) {
							if k.Ptr == sv.Interface() {
								r.Kept = true
							}
						}
					}
					if r.ChildPut == 0 && dump(sv.Interface()) != before {
						r.ChildDiff = true
					}
					// a child of a non-pooled type: does the release go on through it?
					if r.ChildPut == 0 && !pooled[sv.Type().Elem().Name()] && len(ownSlots(sv.Type().Elem())) > 0 {
						drainPools()
						x2 := reflect.New(t)
						sv2, _ := sentinelFor(sl.Type)
						if _, ok2 := plantAt(x2.Elem(), sl.Steps, sv2); ok2 {
							var deep []deepSentinel
							plantDeep(sv2, pooled, 3, [][2]int{{r.Tid, si}}, &deep)
							isDeep := map[interface{}]bool{}
							for _, d := range deep {
								isDeep[d.ptr] = true
							}
							do(x2)
							got := drainKnown(func(o interface{}) bool { return isDeep[o] }, 8+len(deep))
							seenPair := map[[2]int]bool{}
							for _, d := range deep {
								if countObj(got, d.ptr) > 0 {
									for _, pr := range d.chain {
										if !seenPair[pr] {
											seenPair[pr] = true
											r.Through = append(r.Through, pr)
										}
									}
								}
							}
						}
					}
				}
			}
			rows = append(rows, r)
		}
		return tr, rows
	}
	// which types are put into a pool at all (by the tree route or by a typed Put)
	for _, t := range nodeTypes {
		if route := routeOf(t); route != "none" {
			drainPools()
			x := reflect.New(t)
			releaseVia(route, x)
			if len(drainKnown(func(o interface{}) bool { return o == x.Interface() }, 8)) > 0 {
				pooled[t.Name()] = true
			}
		}
	}
	for _, pr := range poolRegs {
		pooled[pr.Name] = true
	}
	for _, t := range nodeTypes {
		route := routeOf(t)
		if route == "none" {
			tb.Types = append(tb.Types, ownTypeRow{Type: t.Name(), Tid: ownTypeID[t.Name()], Route: route, NSlots: len(ownSlots(t))})
			for si, sl := range ownSlots(t) {
				tb.Rows = append(tb.Rows, ownRow{Type: t.Name(), Tid: ownTypeID[t.Name()], Slot: si, Path: sl.Path, Route: route})
			}
			continue
		}
		tr, rows := probe(t, route, nil)
		tb.Types = append(tb.Types, tr)
		tb.Rows = append(tb.Rows, rows...)
	}
	// the typed Put<X> functions must descend into the same slots as the route used for whole trees
	for _, pr := range poolRegs {
		for _, t := range nodeTypes {
			if t.Name() == pr.Name {
				_, rows := probe(t, "Put"+pr.Name, pr.Put)
				tb.PutTyped = append(tb.PutTyped, rows...)
			}
		}
	}
	// work-queue budget of PutExpression: a call with n children
	tb.Budget = map[string]int{}
	{
		n := ast.MaxWorkQueueSize + 500
		drainPools()
		fc := &ast.FunctionCall{Name: "wide"}
		ids := map[interface{}]int{}
		for i := 0; i < n; i++ {
			id := &ast.Identifier{Name: "a"}
			ids[id] = i
			fc.Arguments = append(fc.Arguments, id)
		}
		ast.PutExpression(fc)
		got := drainKnown(func(o interface{}) bool { _, ok := ids[o]; return ok || o == interface{}(fc) }, n+10)
		lo, hi, cnt := n, -1, 0
		for _, po := range got {
			if i, ok := ids[po.Obj]; ok {
				cnt++
				if i < lo {
					lo = i
				}
				if i > hi {
					hi = i
				}
			}
		}
		tb.Budget["children"] = n
		tb.Budget["processed"] = cnt + countObj(got, interface{}(fc))
		tb.Budget["lowest_child_put"] = lo
		tb.Budget["highest_child_put"] = hi
		tb.Budget["const"] = ast.MaxWorkQueueSize
	}
	return tb
}

// ---------------------------------------------------------------------------------------------
// sharing inside parsed trees

type shareRow struct {
	Type string `json:"type"`
	Tid  int    `json:"tid"`
	Slot int    `json:"slot"`
	Path string `json:"path"`
	SQL  string `json:"sql"`
}

// one shared object: the slots it is stored in (sorted, with multiplicity)
type shareGroup struct {
	Slots []shareRow `json:"slots"`
	SQL   string     `json:"sql"`
	Key   string     `json:"key"`
}

type shareResult struct {
	Trees   int          `json:"trees"`
	Objects int          `json:"objects"`
	Shared  int          `json:"shared_objects"`
	Rows    []shareRow   `json:"rows"`
	Groups  []shareGroup `json:"groups"`
	ValInIf int          `json:"value_nodes_in_interfaces"`
}

func sharedSlots(root interface{}, valInIface *int) (rows []shareRow, nobj, nshared int) {
	rows, _, nobj, nshared = sharedSlotGroups(root, valInIface)
	return
}

func sharedSlotGroups(root interface{}, valInIface *int) (rows []shareRow, groups []shareGroup, nobj, nshared int) {
	type inc struct {
		t    reflect.Type
		slot int
		path string
	}
	in := map[interface{}][]inc{}
	objs := ownObjects(root)
	for _, o := range objs {
		pv := reflect.ValueOf(o)
		for _, k := range ownKids(pv, valInIface) {
			in[k.Ptr] = append(in[k.Ptr], inc{pv.Type().Elem(), k.Slot, k.Path})
		}
	}
	for _, o := range objs {
		if len(in[o]) >= 2 {
			nshared++
			var g shareGroup
			for _, e := range in[o] {
				r := shareRow{Type: e.t.Name(), Tid: ownTypeID[e.t.Name()], Slot: e.slot, Path: e.path}
				rows = append(rows, r)
				g.Slots = append(g.Slots, r)
			}
			sort.Slice(g.Slots, func(i, j int) bool {
				if g.Slots[i].Tid != g.Slots[j].Tid {
					return g.Slots[i].Tid < g.Slots[j].Tid
				}
				return g.Slots[i].Slot < g.Slots[j].Slot
			})
			for _, r := range g.Slots {
				g.Key += r.Type + "." + r.Path + ";"
			}
			groups = append(groups, g)
		}
	}
	return rows, groups, len(objs), nshared
}

func runOwnShare(sqls []string) shareResult {
	ownInit()
	res := shareResult{}
	seen := map[[2]int]bool{}
	seenG := map[string]bool{}
	for _, sql := range sqls {
		tr, err := gosqlx.Parse(sql)
		if err != nil || tr == nil {
			continue
		}
		res.Trees++
		rows, groups, n, ns := sharedSlotGroups(tr, &res.ValInIf)
		for _, g := range groups {
			if !seenG[g.Key] {
				seenG[g.Key] = true
				g.SQL = sql
				if len(g.SQL) > 160 {
					g.SQL = g.SQL[:160] + "..."
				}
				res.Groups = append(res.Groups, g)
			}
		}
		res.Objects += n
		res.Shared += ns
		for _, r := range rows {
			k := [2]int{r.Tid, r.Slot}
			if !seen[k] {
				seen[k] = true
				r.SQL = sql
				if len(r.SQL) > 160 {
					r.SQL = r.SQL[:160] + "..."
				}
				res.Rows = append(res.Rows, r)
			}
		}
	}
	sort.Slice(res.Groups, func(i, j int) bool { return res.Groups[i].Key < res.Groups[j].Key })
	sort.Slice(res.Rows, func(i, j int) bool {
		if res.Rows[i].Tid != res.Rows[j].Tid {
			return res.Rows[i].Tid < res.Rows[j].Tid
		}
		return res.Rows[i].Slot < res.Rows[j].Slot
	})
	return res
}

func init() {
	subcmds["owntable"] = func(args []string) int {
		emitJSON(probeOwn())
		return 0
	}
	subcmds["ownshare"] = func(args []string) int {
		emitJSON(runOwnShare(readSQLLines()))
		return 0
	}
}

type taggedSQL struct {
	SQL     string `json:"sql"`
	Special bool   `json:"special"`
}

func readSQLLinesTagged() []taggedSQL {
	var out []taggedSQL
	sc := bufio.NewScanner(os.Stdin)
	sc.Buffer(make([]byte, 1<<20), 64<<20)
	for sc.Scan() {
		var in taggedSQL
		if json.Unmarshal(sc.Bytes(), &in) == nil && in.SQL != "" {
			out = append(out, in)
		}
	}
	return out
}
