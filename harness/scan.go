package main

// scan.go — C16: run the real injection scanner on parsed (and grafted) trees, four severity thresholds,
// fresh and long-lived Scanner instances, tree snapshot before/after; plus ScanSQL on the text.
// stdin: JSON lines (qinput); stdout: one JSON line per input.

import (
	"bufio"
	"encoding/json"
	"os"

	"github.com/ajitpratap0/GoSQLX/pkg/sql/ast"
	"github.com/ajitpratap0/GoSQLX/pkg/sql/security"
)

type scanFinding struct {
	Pattern  string `json:"p"`
	Severity string `json:"s"`
}

type scanRun struct {
	Findings []scanFinding `json:"f"`
	Counts   [5]int        `json:"c"` // total, critical, high, medium, low
}

type scanResult struct {
	ID        int       `json:"id"`
	Accepted  bool      `json:"accepted"`
	Err       string    `json:"err,omitempty"`
	Panic     string    `json:"panic,omitempty"`
	Tree      []*qnode  `json:"tree,omitempty"`
	Nodes     int       `json:"nodes"`
	Runs      []scanRun `json:"runs"`      // per threshold LOW, MEDIUM, HIGH, CRITICAL (fresh scanner)
	UsedSame  bool      `json:"used_same"` // long-lived scanners gave the same results, before and after other scans
	TreeSame  bool      `json:"tree_same"` // canonical dump identical before / after all scans
	SQLRuns   []scanRun `json:"sql_runs"`  // ScanSQL on the text, per threshold
	MaxNs     int64     `json:"max_ns"`
	HelperBad []string  `json:"helper_bad,omitempty"` // HasCritical / HasHighOrAbove / IsClean disagree with the list
}

var scanLevels = []security.Severity{security.SeverityLow, security.SeverityMedium, security.SeverityHigh, security.SeverityCritical}

func toRun(r *security.ScanResult) scanRun {
	out := scanRun{Findings: []scanFinding{}}
	if r == nil {
		return out
	}
	for _, f := range r.Findings {
		out.Findings = append(out.Findings, scanFinding{string(f.Pattern), string(f.Severity)})
	}
	out.Counts = [5]int{r.TotalCount, r.CriticalCount, r.HighCount, r.MediumCount, r.LowCount}
	return out
}

func sameRun(a, b scanRun) bool {
	if a.Counts != b.Counts || len(a.Findings) != len(b.Findings) {
		return false
	}
	for i := range a.Findings {
		if a.Findings[i] != b.Findings[i] {
			return false
		}
	}
	return true
}

// long-lived scanners, shared by every input of one harness run
var usedScanners []*security.Scanner

func helperCheck(r *security.ScanResult, res *scanResult) {
	crit, high := 0, 0
	for _, f := range r.Findings {
		if f.Severity == security.SeverityCritical {
			crit++
		}
		if f.Severity == security.SeverityHigh {
			high++
		}
	}
	if r.HasCritical() != (crit > 0) {
		res.HelperBad = append(res.HelperBad, "HasCritical")
	}
	if r.HasHighOrAbove() != (crit+high > 0) {
		res.HelperBad = append(res.HelperBad, "HasHighOrAbove")
	}
	if r.IsClean() != (len(r.Findings) == 0) {
		res.HelperBad = append(res.HelperBad, "IsClean")
	}
}

func runScan(in *qinput, prev *ast.AST) (scanResult, *ast.AST) {
	res := scanResult{ID: in.ID}
	tree, perr := qparse(in)
	if tree == nil {
		res.Err = perr
		return res, prev
	}
	res.Accepted = true
	if !in.NoDump {
		res.Tree, res.Nodes = qdump(tree)
	}
	before := dump(tree)
	res.UsedSame = true
	res.Panic = guarded(func() {
		if usedScanners == nil {
			for _, lv := range scanLevels {
				s, _ := security.NewScannerWithSeverity(lv)
				usedScanners = append(usedScanners, s)
			}
		}
		for i, lv := range scanLevels {
			fresh, err := security.NewScannerWithSeverity(lv)
			if err != nil {
				panic(err)
			}
			r := fresh.Scan(tree)
			helperCheck(r, &res)
			run := toRun(r)
			res.Runs = append(res.Runs, run)
			// the long-lived scanner: this tree, then the previous input's tree, then this tree again
			held := usedScanners[i].Scan(tree) // a result the caller keeps while the scanner goes on scanning
			u1 := toRun(held)
			if prev != nil {
				usedScanners[i].Scan(prev)
			}
			u2 := toRun(usedScanners[i].Scan(tree))
			if !sameRun(run, u1) || !sameRun(run, u2) {
				res.UsedSame = false
			}
			sqlRun := toRun(fresh.ScanSQL(in.SQL))
			res.SQLRuns = append(res.SQLRuns, sqlRun)
			heldSQL := usedScanners[i].ScanSQL(in.SQL)
			if !sameRun(sqlRun, toRun(heldSQL)) {
				res.UsedSame = false
			}
			// results handed out earlier belong to the caller: later scans (of other inputs) must not change them
			usedScanners[i].ScanSQL("SELECT a FROM t WHERE id = 1 OR 1 = 1 -- x")
			usedScanners[i].Scan(tree)
			if !sameRun(u1, toRun(held)) || !sameRun(sqlRun, toRun(heldSQL)) {
				res.UsedSame = false
				res.HelperBad = append(res.HelperBad, "held-result-changed-by-a-later-scan")
			}
		}
	})
	res.TreeSame = dump(tree) == before
	return res, tree
}

func init() {
	// scansql: ScanSQL on raw text (no parse), lowest threshold
	subcmds["scansql"] = func(args []string) int {
		sc := bufio.NewScanner(os.Stdin)
		sc.Buffer(make([]byte, 1<<20), 64<<20)
		for sc.Scan() {
			var in qinput
			if err := json.Unmarshal(sc.Bytes(), &in); err != nil {
				continue
			}
			if len(args) > 0 && args[0] == "threshold-first" {
				// the very first scanner of this process is created with an explicit threshold: whatever the package
				// initialises lazily must be ready for it as well
				s, err := security.NewScannerWithSeverity(security.SeverityLow)
				if err != nil {
					panic(err)
				}
				emitJSON(toRun(s.ScanSQL(in.SQL)))
				continue
			}
			emitJSON(toRun(security.NewScanner().ScanSQL(in.SQL)))
		}
		return 0
	}
	subcmds["scan"] = func(args []string) int {
		sc := bufio.NewScanner(os.Stdin)
		sc.Buffer(make([]byte, 1<<20), 256<<20)
		var prev *ast.AST
		for sc.Scan() {
			var in qinput
			if err := json.Unmarshal(sc.Bytes(), &in); err != nil {
				continue
			}
			var r scanResult
			r, prev = runScan(&in, prev)
			emitJSON(r)
		}
		return 0
	}
}
