package main

// conc: concurrent-use exploration for C10.  One JSON request on stdin, one JSON answer on stdout.
//
//	mode "seq"    : sequences of Record* calls executed sequentially, GetStats projection per case (translator /
//	                model correspondence)
//	mode "rounds" : barrier-released rounds; in each round n goroutines make ONE recording each at the same
//	                instant, then the totals are compared with the true values after quiescence
//	mode "mix"    : n goroutines run seeded mixes of tokenize / parse / format / extract / scan / lint /
//	                suggest / span / metrics-read over a shared workload; every result is compared with the
//	                sequential answer (table computed first); totals compared after quiescence
//
// Built with -race by the check for mode "mix" (race reports go to stderr, exit status 66).

import (
	"context"
	"encoding/json"
	"errors"
	"fmt"
	"io"
	"os"
	"runtime"
	"sort"
	"strings"
	"sync"
	"sync/atomic"
	"time"

	"github.com/ajitpratap0/GoSQLX/pkg/config"
	gerrors "github.com/ajitpratap0/GoSQLX/pkg/errors"
	"github.com/ajitpratap0/GoSQLX/pkg/gosqlx"
	"github.com/ajitpratap0/GoSQLX/pkg/linter"
	"github.com/ajitpratap0/GoSQLX/pkg/linter/rules/keywords"
	"github.com/ajitpratap0/GoSQLX/pkg/linter/rules/whitespace"
	"github.com/ajitpratap0/GoSQLX/pkg/metrics"
	"github.com/ajitpratap0/GoSQLX/pkg/models"
	"github.com/ajitpratap0/GoSQLX/pkg/sql/ast"
	"github.com/ajitpratap0/GoSQLX/pkg/sql/monitor"
	"github.com/ajitpratap0/GoSQLX/pkg/sql/security"
	"github.com/ajitpratap0/GoSQLX/pkg/sql/tokenizer"
)

type concReq struct {
	Mode    string      `json:"mode"`
	N       int         `json:"n"`
	Rounds  int         `json:"rounds"`
	Seed    uint64      `json:"seed"`
	OpsPerG int         `json:"ops_per_g"`
	Inputs  []string    `json:"inputs"`
	Values  []int       `json:"values"` // rounds: fixed sizes (len = n) instead of seeded ones
	Cases   [][]seqCall `json:"cases"`
	Ops     []string    `json:"ops"`
}

type seqCall struct {
	F    string  `json:"f"`
	Args []int64 `json:"args"`
}

var errSentinel = errors.New("verif error")

// progress: units of work completed so far (rounds, operations, sequential cases).  Printed to stderr once a second
// ("PROGRESS n") so that the watchdog of the check can tell a slow machine (the number grows) from a hang (it does not).
var progress int64

func startProgress() {
	go func() {
		for range time.Tick(time.Second) {
			fmt.Fprintf(os.Stderr, "PROGRESS %d\n", atomic.LoadInt64(&progress))
		}
	}()
}

func errOf(v int64) error {
	if v == 0 {
		return nil
	}
	return fmt.Errorf("verif error %d", v%3)
}

func arg(a []int64, i int) int64 {
	if i < len(a) {
		return a[i]
	}
	return 0
}

// callRecord dispatches one Record* call by name ("metrics.RecordTokenization", "monitor.RecordPoolHit" ...)
func callRecord(c seqCall) bool {
	a := c.Args
	switch c.F {
	case "metrics.RecordTokenization":
		metrics.RecordTokenization(time.Duration(arg(a, 0)), int(arg(a, 1)), errOf(arg(a, 2)))
	case "metrics.RecordParse":
		metrics.RecordParse(time.Duration(arg(a, 0)), int(arg(a, 1)), errOf(arg(a, 2)))
	case "metrics.RecordPoolGet":
		metrics.RecordPoolGet(arg(a, 0) != 0)
	case "metrics.RecordPoolPut":
		metrics.RecordPoolPut()
	case "metrics.RecordASTPoolGet":
		metrics.RecordASTPoolGet()
	case "metrics.RecordASTPoolPut":
		metrics.RecordASTPoolPut()
	case "metrics.RecordStatementPoolGet":
		metrics.RecordStatementPoolGet()
	case "metrics.RecordStatementPoolPut":
		metrics.RecordStatementPoolPut()
	case "metrics.RecordExpressionPoolGet":
		metrics.RecordExpressionPoolGet()
	case "metrics.RecordExpressionPoolPut":
		metrics.RecordExpressionPoolPut()
	case "monitor.RecordTokenizerCall":
		monitor.RecordTokenizerCall(time.Duration(arg(a, 0)), int(arg(a, 1)), errOf(arg(a, 2)))
	case "monitor.RecordParserCall":
		monitor.RecordParserCall(time.Duration(arg(a, 0)), errOf(arg(a, 1)))
	case "monitor.RecordPoolHit":
		monitor.RecordPoolHit()
	case "monitor.RecordPoolMiss":
		monitor.RecordPoolMiss()
	default:
		return false
	}
	return true
}

// statsProjection: the fields of the two metrics structs that the public snapshots expose exactly
func statsProjection() map[string]int64 {
	s := metrics.GetStats()
	var ebt int64
	for _, v := range s.ErrorsByType {
		ebt += v
	}
	m := monitor.GetMetrics()
	return map[string]int64{
		"metrics.TokenizeOperations": s.TokenizeOperations, "metrics.TokenizeErrors": s.TokenizeErrors,
		"metrics.ParseOperations": s.ParseOperations, "metrics.ParseErrors": s.ParseErrors,
		"metrics.StatementsCreated": s.StatementsCreated,
		"metrics.PoolGets":          s.PoolGets, "metrics.PoolPuts": s.PoolPuts,
		"metrics.ASTPoolGets": s.ASTPoolGets, "metrics.ASTPoolPuts": s.ASTPoolPuts,
		"metrics.StmtPoolGets": s.StmtPoolGets, "metrics.StmtPoolPuts": s.StmtPoolPuts,
		"metrics.ExprPoolGets": s.ExprPoolGets, "metrics.ExprPoolPuts": s.ExprPoolPuts,
		"metrics.MinQuerySize": s.MinQuerySize, "metrics.MaxQuerySize": s.MaxQuerySize,
		"metrics.TotalBytesProcessed": s.TotalBytesProcessed, "metrics.ErrorsByType": ebt,
		"monitor.TokenizerCalls": m.TokenizerCalls, "monitor.TokensProcessed": m.TokensProcessed,
		"monitor.TokenizerErrors": m.TokenizerErrors, "monitor.ParserCalls": m.ParserCalls,
		"monitor.ParserErrors": m.ParserErrors, "monitor.StatementsProcessed": m.StatementsProcessed,
		"monitor.PoolHits": m.PoolHits, "monitor.PoolMisses": m.PoolMisses,
		"monitor.TokenizerDuration": int64(m.TokenizerDuration), "monitor.ParserDuration": int64(m.ParserDuration),
	}
}

func resetAll() {
	metrics.Enable()
	metrics.Reset()
	monitor.Enable()
	monitor.Reset()
}

func concSeq(req concReq) int {
	type res struct {
		Stats   map[string]int64 `json:"stats"`
		Unknown []string         `json:"unknown,omitempty"`
	}
	var out []res
	for _, cs := range req.Cases {
		atomic.AddInt64(&progress, 1)
		resetAll()
		var r res
		for _, c := range cs {
			if !callRecord(c) {
				r.Unknown = append(r.Unknown, c.F)
			}
		}
		r.Stats = statsProjection()
		out = append(out, r)
	}
	emitJSON(map[string]interface{}{"results": out})
	return 0
}

// ---------------------------------------------------------------------------------------------
// rounds

type roundFail struct {
	Round  int              `json:"round"`
	Sizes  []int            `json:"sizes"`
	Errs   []int            `json:"errs"`
	Want   map[string]int64 `json:"want"`
	Got    map[string]int64 `json:"got"`
	Fields []string         `json:"fields"`
}

func concRounds(req concReq) int {
	n, rounds := req.N, req.Rounds
	if n < 1 {
		n = 2
	}
	resetAll()
	spinYield := n > runtime.GOMAXPROCS(0)/2 // pinned busy-waiting only while half of the cores stay free
	var round, done int64
	sizes := make([]int64, n) // written by the coordinator before the release (atomic round store publishes them)
	errsV := make([]int64, n)
	var wg sync.WaitGroup
	for i := 0; i < n; i++ {
		wg.Add(1)
		go func(i int) {
			defer wg.Done()
			if !spinYield {
				runtime.LockOSThread()
			}
			for r := int64(1); r <= int64(rounds); r++ {
				for atomic.LoadInt64(&round) != r {
					if spinYield {
						runtime.Gosched()
					}
				}
				sz, e := atomic.LoadInt64(&sizes[i]), atomic.LoadInt64(&errsV[i])
				metrics.RecordTokenization(time.Duration(sz), int(sz), errOf(e))
				monitor.RecordTokenizerCall(time.Duration(sz), int(sz), errOf(e))
				metrics.RecordParse(time.Duration(sz), int(sz%7), errOf(e))
				monitor.RecordParserCall(time.Duration(sz), errOf(e))
				metrics.RecordPoolGet(e != 0)
				metrics.RecordPoolPut()
				atomic.AddInt64(&done, 1)
			}
		}(i)
	}
	rg := &rng{s: req.Seed*7919 + 17}
	failCount := map[string]int{}
	var first []roundFail
	failedRounds := 0
	t0 := time.Now()
	for r := int64(1); r <= int64(rounds); r++ {
		atomic.AddInt64(&progress, 1)
		metrics.Reset()
		monitor.Reset()
		var sum, nerr, stm int64
		mn, mx := int64(-1), int64(0)
		for i := 0; i < n; i++ {
			var sz int64
			if len(req.Values) == n {
				sz = int64(req.Values[i])
			} else {
				sz = int64(1 + rg.intn(100000))
			}
			e := int64(0)
			if len(req.Values) != n && rg.intn(4) == 0 {
				e = int64(1 + rg.intn(3))
			}
			atomic.StoreInt64(&sizes[i], sz)
			atomic.StoreInt64(&errsV[i], e)
			sum += sz
			stm += sz % 7
			if e != 0 {
				nerr++
			}
			if mn == -1 || sz < mn {
				mn = sz
			}
			if sz > mx {
				mx = sz
			}
		}
		atomic.StoreInt64(&done, 0)
		atomic.StoreInt64(&round, r)
		for atomic.LoadInt64(&done) != int64(n) {
			if spinYield {
				runtime.Gosched()
			}
		}
		got := statsProjection()
		want := map[string]int64{
			"metrics.TokenizeOperations": int64(n), "metrics.TokenizeErrors": nerr, "metrics.TotalBytesProcessed": sum,
			"metrics.MinQuerySize": mn, "metrics.MaxQuerySize": mx, "metrics.ErrorsByType": 2 * nerr,
			"metrics.ParseOperations": int64(n), "metrics.ParseErrors": nerr, "metrics.StatementsCreated": stm,
			"metrics.PoolGets": int64(n), "metrics.PoolPuts": int64(n),
			"monitor.TokenizerCalls": int64(n), "monitor.TokensProcessed": sum, "monitor.TokenizerErrors": nerr,
			"monitor.TokenizerDuration": sum, "monitor.ParserCalls": int64(n), "monitor.ParserErrors": nerr,
			"monitor.StatementsProcessed": int64(n) - nerr, "monitor.ParserDuration": sum,
		}
		var bad []string
		for k, w := range want {
			if got[k] != w {
				bad = append(bad, k)
				failCount[k]++
			}
		}
		if len(bad) > 0 {
			failedRounds++
			if len(first) < 3 {
				sort.Strings(bad)
				rf := roundFail{Round: int(r), Want: want, Got: map[string]int64{}, Fields: bad}
				for k := range want {
					rf.Got[k] = got[k]
				}
				for i := 0; i < n; i++ {
					rf.Sizes = append(rf.Sizes, int(sizes[i]))
					rf.Errs = append(rf.Errs, int(errsV[i]))
				}
				first = append(first, rf)
			}
		}
	}
	wg.Wait()
	emitJSON(map[string]interface{}{"n": n, "rounds": rounds, "failed_rounds": failedRounds, "fail_count": failCount,
		"first": first, "ms": time.Since(t0).Milliseconds(), "gomaxprocs": runtime.GOMAXPROCS(0)})
	return 0
}

// ---------------------------------------------------------------------------------------------
// mix

var mixOps = []string{"tokenize", "parse", "parse_ctx", "parse_hold", "recovery", "format", "extract", "scan", "lint", "suggest", "span", "span_zero", "metrics", "config"}

// per-goroutine memory of the "metrics" operation (element g is only touched by goroutine g)
var lastSeenOps, lastSeenBytes []int64

// config files for the "config" operation (written once per process, removed at the end of the mix)
var cfgFiles []string

func makeCfgFiles() {
	for i := 0; i < 3; i++ {
		p := fmt.Sprintf("%s/vh_c10_%d_%d.json", os.TempDir(), os.Getpid(), i)
		if os.WriteFile(p, []byte("{}"), 0o600) == nil {
			cfgFiles = append(cfgFiles, p)
		}
	}
}

func removeCfgFiles() {
	for _, p := range cfgFiles {
		os.Remove(p)
	}
}

// every call uses its own linter instance (the property gives each goroutine its own instances)
func newLinter() *linter.Linter {
	return linter.New(
		keywords.NewKeywordCaseRule(keywords.CaseUpper),
		whitespace.NewTrailingWhitespaceRule(),
		whitespace.NewLongLinesRule(80),
		whitespace.NewMixedIndentationRule(),
		whitespace.NewRedundantWhitespaceRule(),
	)
}

// runOp executes one public operation and returns its canonical, comparable result
func runOp(op string, sql string, gid int) (res string) {
	defer atomic.AddInt64(&progress, 1)
	defer func() {
		if r := recover(); r != nil {
			res = fmt.Sprintf("PANIC %v", r)
		}
	}()
	switch op {
	case "tokenize":
		tkz := tokenizer.GetTokenizer()
		defer tokenizer.PutTokenizer(tkz)
		toks, err := tkz.Tokenize([]byte(sql))
		var b strings.Builder
		for _, t := range toks {
			fmt.Fprintf(&b, "%d:%s@%d.%d|", t.Token.Type, t.Token.Value, t.Start.Line, t.Start.Column)
		}
		return hashOf(b.String()) + " " + infoOf(err).Code
	case "parse":
		a, err := gosqlx.Parse(sql)
		if err != nil {
			i := infoOf(err)
			return "ERR " + i.Code
		}
		h := strings.Join(astHashes(a), ",")
		ast.ReleaseAST(a)
		return h
	case "parse_ctx":
		a, err := gosqlx.ParseWithContext(context.Background(), sql)
		if err != nil {
			return "ERR " + infoOf(err).Code
		}
		h := strings.Join(astHashes(a), ",")
		ast.ReleaseAST(a)
		return h
	case "parse_hold":
		// two trees held at the same time must be two objects and must not change under each other
		a, err := gosqlx.ParseWithContext(context.Background(), sql)
		if err != nil {
			return "ERR " + infoOf(err).Code
		}
		h1 := strings.Join(astHashes(a), ",")
		b, err2 := gosqlx.Parse("SELECT held_probe FROM held_t WHERE x = 1")
		h2 := strings.Join(astHashes(a), ",")
		same := a == b
		if err2 == nil {
			ast.ReleaseAST(b)
		}
		ast.ReleaseAST(a)
		if same {
			return "SHARED-AST"
		}
		if h1 != h2 {
			return "HELD-TREE-CHANGED"
		}
		return h1
	case "recovery":
		st, errs := gosqlx.ParseWithRecovery(sql)
		return strings.Join(stmtHashes(st), ",") + fmt.Sprintf(" e%d", len(errs))
	case "format":
		out, err := gosqlx.Format(sql, gosqlx.DefaultFormatOptions())
		if err != nil {
			return "ERR " + infoOf(err).Code
		}
		return hashOf(out)
	case "extract":
		a, err := gosqlx.Parse(sql)
		if err != nil {
			return "ERR " + infoOf(err).Code
		}
		tb, cl, fn := gosqlx.ExtractTables(a), gosqlx.ExtractColumns(a), gosqlx.ExtractFunctions(a)
		sort.Strings(tb)
		sort.Strings(cl)
		sort.Strings(fn)
		ast.ReleaseAST(a)
		return strings.Join(tb, ",") + "/" + strings.Join(cl, ",") + "/" + strings.Join(fn, ",")
	case "scan":
		sc := security.NewScanner()
		var parts []string
		for _, f := range sc.ScanSQL(sql).Findings {
			parts = append(parts, fmt.Sprintf("%v/%v", f.Pattern, f.Severity))
		}
		if a, err := gosqlx.Parse(sql); err == nil {
			for _, f := range sc.Scan(a).Findings {
				parts = append(parts, fmt.Sprintf("a:%v/%v", f.Pattern, f.Severity))
			}
			ast.ReleaseAST(a)
		}
		sort.Strings(parts)
		return strings.Join(parts, ",")
	case "lint":
		r := newLinter().LintString(sql, "x.sql")
		var parts []string
		for _, v := range r.Violations {
			parts = append(parts, fmt.Sprintf("%s@%d.%d", v.Rule, v.Location.Line, v.Location.Column))
		}
		sort.Strings(parts)
		return strings.Join(parts, ",")
	case "suggest":
		// words of the input, mangled: exercises the shared suggestion cache (hits, misses, size, statistics)
		var parts []string
		for i, f := range strings.Fields(sql) {
			if i >= 6 {
				break
			}
			if len(f) >= 3 {
				parts = append(parts, gerrors.SuggestKeyword(f[:len(f)-1]))
			}
		}
		parts = append(parts, gerrors.SuggestKeyword("SELCT"))
		if gerrors.SuggestionCacheSize() < 0 || gerrors.GetSuggestionCacheStats().MaxSize <= 0 {
			return "bad cache size"
		}
		return strings.Join(parts, ",")
	case "config":
		if len(cfgFiles) == 0 {
			return "no config file"
		}
		p := cfgFiles[len(sql)%len(cfgFiles)]
		cfg, err := config.LoadFromFileCached(p)
		if err != nil {
			return "ERR " + err.Error()
		}
		if len(sql)%5 == 0 {
			config.InvalidateConfigCache(p)
		}
		if config.ConfigCacheSize() < 0 {
			return "bad cache size"
		}
		cfg.Source = ""
		b, _ := json.Marshal(cfg)
		return hashOf(string(b))
	case "span":
		node := &ast.SelectStatement{}
		sp := models.Span{Start: models.Location{Line: gid + 1, Column: len(sql)}, End: models.Location{Line: gid + 2, Column: 1}}
		ast.SetSpan(node, sp)
		if ast.GetSpan(node) != sp {
			return "span lost"
		}
		return "span ok"
	case "span_zero":
		// the zero values of the arguments: the empty span (a path of its own in an implementation that treats
		// "no span" specially); afterwards the node has the empty span and another node can still be set and read
		node, other := &ast.SelectStatement{}, &ast.SelectStatement{}
		ast.SetSpan(node, models.Span{})
		sp := models.Span{Start: models.Location{Line: gid + 1, Column: len(sql) + 1}, End: models.Location{Line: gid + 3, Column: 1}}
		ast.SetSpan(other, sp)
		if ast.GetSpan(node) != (models.Span{}) || ast.GetSpan(other) != sp {
			return "span lost"
		}
		return "span ok"
	case "metrics":
		// GetStats is not an atomic snapshot of all counters (and the property does not ask for one); what a
		// reader may rely on is that a counter it reads twice never goes backwards while nothing resets it
		s := metrics.GetStats()
		if gid < len(lastSeenOps) {
			if s.TokenizeOperations < lastSeenOps[gid] || s.TotalBytesProcessed < lastSeenBytes[gid] {
				return fmt.Sprintf("counter went backwards: ops %d -> %d", lastSeenOps[gid], s.TokenizeOperations)
			}
			lastSeenOps[gid], lastSeenBytes[gid] = s.TokenizeOperations, s.TotalBytesProcessed
		}
		return "ok"
	}
	return "unknown op"
}

type mixMismatch struct {
	G     int    `json:"g"`
	Op    string `json:"op"`
	Input int    `json:"input"`
	SQL   string `json:"sql"`
	Want  string `json:"want"`
	Got   string `json:"got"`
}

func concMix(req concReq) int {
	ops := req.Ops
	if len(ops) == 0 {
		ops = mixOps
	}
	n, k := req.N, req.OpsPerG
	inputs := req.Inputs
	makeCfgFiles()
	defer removeCfgFiles()
	// sequential table (twice: an operation that is not deterministic alone is excluded and reported)
	type delta struct{ ops, errs, bytes, mn, mx, pg, pp, ebt int64 }
	table := map[string][]string{}
	deltas := map[string][]delta{}
	var nondet []string
	skip := map[string]bool{}
	for _, op := range ops {
		table[op] = make([]string, len(inputs))
		deltas[op] = make([]delta, len(inputs))
		for i, in := range inputs {
			resetAll()
			r1 := runOp(op, in, 0)
			s := metrics.GetStats()
			var e0 int64
			for _, v := range s.ErrorsByType {
				e0 += v
			}
			deltas[op][i] = delta{s.TokenizeOperations, s.TokenizeErrors, s.TotalBytesProcessed, s.MinQuerySize, s.MaxQuerySize, s.PoolGets, s.PoolPuts, e0}
			r2 := runOp(op, in, 0)
			table[op][i] = r1
			if r1 != r2 {
				skip[fmt.Sprintf("%s/%d", op, i)] = true
				if len(nondet) < 5 {
					nondet = append(nondet, fmt.Sprintf("%s on input %d: %q vs %q", op, i, r1, r2))
				}
			}
		}
	}
	resetAll()
	lastSeenOps, lastSeenBytes = make([]int64, n), make([]int64, n)
	gerrors.ClearSuggestionCache() // the concurrent phase starts with cold caches, like the sequential one did
	config.ClearConfigCache()
	var mu sync.Mutex
	var mism []mixMismatch
	nmis := 0
	var total int64
	var wantOps, wantErrs, wantBytes, wantPG, wantPP, wantEBT int64
	wantMin, wantMax := int64(-1), int64(0)
	var wg sync.WaitGroup
	start := make(chan struct{})
	perOp := make([]map[string]int, n)
	for g := 0; g < n; g++ {
		wg.Add(1)
		perOp[g] = map[string]int{}
		go func(g int) {
			defer wg.Done()
			rg := &rng{s: req.Seed*1000003 + uint64(g)*7919 + 1}
			var lo, le, lb, lpg, lpp, lebt int64
			lmin, lmax := int64(-1), int64(0)
			<-start
			for j := 0; j < k; j++ {
				op := ops[rg.intn(len(ops))]
				i := rg.intn(len(inputs))
				got := runOp(op, inputs[i], g)
				perOp[g][op]++
				d := deltas[op][i]
				lo += d.ops
				le += d.errs
				lb += d.bytes
				lpg += d.pg
				lpp += d.pp
				lebt += d.ebt
				if d.ops > 0 {
					if lmin == -1 || d.mn < lmin {
						lmin = d.mn
					}
					if d.mx > lmax {
						lmax = d.mx
					}
				}
				if !skip[fmt.Sprintf("%s/%d", op, i)] && got != table[op][i] {
					mu.Lock()
					nmis++
					if len(mism) < 10 {
						mism = append(mism, mixMismatch{G: g, Op: op, Input: i, SQL: inputs[i], Want: table[op][i], Got: got})
					}
					mu.Unlock()
				}
			}
			mu.Lock()
			total += int64(k)
			wantOps += lo
			wantErrs += le
			wantBytes += lb
			wantPG += lpg
			wantPP += lpp
			wantEBT += lebt
			if lmin != -1 && (wantMin == -1 || lmin < wantMin) {
				wantMin = lmin
			}
			if lmax > wantMax {
				wantMax = lmax
			}
			mu.Unlock()
		}(g)
	}
	t0 := time.Now()
	close(start)
	wg.Wait()
	s := metrics.GetStats()
	var ebt int64
	for _, v := range s.ErrorsByType {
		ebt += v
	}
	got := map[string]int64{"tokenizeOperations": s.TokenizeOperations, "tokenizeErrors": s.TokenizeErrors,
		"totalQueryBytes": s.TotalBytesProcessed, "minQuerySize": s.MinQuerySize, "maxQuerySize": s.MaxQuerySize,
		"errorsByType": ebt, "poolGets": s.PoolGets, "poolPuts": s.PoolPuts}
	want := map[string]int64{"tokenizeOperations": wantOps, "tokenizeErrors": wantErrs, "totalQueryBytes": wantBytes,
		"minQuerySize": wantMin, "maxQuerySize": wantMax, "errorsByType": wantEBT, "poolGets": wantPG, "poolPuts": wantPP}
	var badTotals []string
	for kf, w := range want {
		if got[kf] != w {
			badTotals = append(badTotals, kf)
		}
	}
	sort.Strings(badTotals)
	opCount := map[string]int{}
	for _, m := range perOp {
		for o, c := range m {
			opCount[o] += c
		}
	}
	emitJSON(map[string]interface{}{"n": n, "calls": total, "mismatches": nmis, "first": mism, "nondeterministic_alone": nondet,
		"totals_want": want, "totals_got": got, "bad_totals": badTotals, "op_count": opCount,
		"ms": time.Since(t0).Milliseconds(), "gomaxprocs": runtime.GOMAXPROCS(0), "numcpu": runtime.NumCPU()})
	return 0
}

func init() {
	subcmds["conc"] = func(args []string) int {
		data, err := io.ReadAll(os.Stdin)
		if err != nil {
			return 2
		}
		var req concReq
		if err := json.Unmarshal(data, &req); err != nil {
			fmt.Fprintln(os.Stderr, "bad request:", err)
			return 2
		}
		startProgress()
		switch req.Mode {
		case "seq":
			return concSeq(req)
		case "rounds":
			return concRounds(req)
		case "mix":
			return concMix(req)
		case "cpus":
			emitJSON(map[string]int{"numcpu": runtime.NumCPU(), "gomaxprocs": runtime.GOMAXPROCS(0)})
			return 0
		}
		fmt.Fprintln(os.Stderr, "unknown mode")
		return 2
	}
}
