package main

import (
	"bufio"
	"encoding/json"
	"fmt"
	"os"
	"reflect"

	"github.com/ajitpratap0/GoSQLX/pkg/gosqlx"
	"github.com/ajitpratap0/GoSQLX/pkg/sql/ast"
)

// type and field ids: index in nodeTypes / index in dnd(type) — the same numbering the probe tables use
var typeID = map[string]int{}
var fieldID = map[string]int{} // "Type.path" -> index within type

func initIDs() {
	if len(typeID) > 0 {
		return
	}
	for i, t := range nodeTypes {
		typeID[t.Name()] = i
		for j, p := range dnd(t) {
			fieldID[t.Name()+"."+p.String()] = j
		}
	}
}

type walkNode struct {
	ID     int    `json:"id"`
	Ty     int    `json:"ty"`
	Parent int    `json:"parent"`
	Field  int    `json:"field"`
	Name   string `json:"name"` // Type@ParentType.path (diagnostics)
	Cls    int    `json:"cls"`  // smallest id of a node Inspect cannot tell from this one (value nodes: same type, equal value)
}

type walkResult struct {
	SQL      string     `json:"sql"`
	Accepted bool       `json:"accepted"`
	Nodes    []walkNode `json:"nodes,omitempty"`
	Visited  []int      `json:"visited,omitempty"` // ids in visiting order
	Missed   []string   `json:"missed,omitempty"`  // ParentType.path of nodes never visited
	Foreign  []string   `json:"foreign,omitempty"` // visited nodes that are not part of the tree
	TypedNil int        `json:"typed_nil"`
	Panic    string     `json:"panic,omitempty"`
	Unknown  []string   `json:"unknown_edges,omitempty"` // edges with no id in the tables
	Twice    int        `json:"visited_twice"`
	Shared   int        `json:"shared"` // node pointers reachable through more than one path (DAG)
	Pruned   [][]int    `json:"pruned,omitempty"` // Pruned[k]: ids visited when the callback refuses types with id%3==k
}

// inspectTree runs the real ast.Inspect on root and relates what it visits to what is reflect-reachable.
func inspectTree(root ast.Node, res *walkResult) {
	initIDs()
	rs := reachable(root)
	res.Shared = lastReachShared
	ptrIdx := map[interface{}]int{}
	for i, r := range rs {
		if r.Kind == "ptr" {
			ptrIdx[r.Ptr] = i
		}
	}
	// one run of the real ast.Inspect; keep decides, per node type id, whether the callback returns true
	run := func(keep func(ty int) bool, visited *[]int, countAll bool) []int {
		matched := make([]int, len(rs))
		defer func() {
			if r := recover(); r != nil {
				res.Panic = fmt.Sprint(r)
			}
		}()
		ast.Inspect(root, func(n ast.Node) bool {
			if n == nil {
				return false
			}
			if isTypedNil(n) {
				if countAll {
					res.TypedNil++
				}
				return false
			}
			v := reflect.ValueOf(n)
			if v.Kind() == reflect.Ptr {
				v = v.Elem()
			}
			k := keep(typeID[v.Type().Name()])
			if i, ok := ptrIdx[n]; ok {
				matched[i]++
				*visited = append(*visited, i)
				return k
			}
			for i, r := range rs {
				if r.Kind == "val" && matched[i] == 0 && r.Type == v.Type().Name() && reflect.DeepEqual(r.Val, v.Interface()) {
					matched[i]++
					*visited = append(*visited, i)
					return k
				}
			}
			// a second visit of an already matched value node?
			for i, r := range rs {
				if r.Kind == "val" && r.Type == v.Type().Name() && reflect.DeepEqual(r.Val, v.Interface()) {
					matched[i]++
					*visited = append(*visited, i)
					return k
				}
			}
			if countAll {
				res.Foreign = append(res.Foreign, v.Type().Name())
			}
			return k
		})
		return matched
	}
	matched := run(func(int) bool { return true }, &res.Visited, true)
	if matched == nil {
		matched = make([]int, len(rs))
	}
	// pruning runs: the callback returns false on every node whose type id is congruent to k modulo 3
	// (one run per k); what is visited then is compared with the model's inspect under the same predicate
	res.Pruned = make([][]int, 3)
	for k := 0; k < 3; k++ {
		k := k
		vis := []int{}
		run(func(ty int) bool { return ty%3 != k }, &vis, false)
		res.Pruned[k] = vis
	}
	for i, r := range rs {
		ty, ok := typeID[r.Type]
		if !ok {
			res.Unknown = append(res.Unknown, "type "+r.Type)
		}
		field := -1
		if r.Parent >= 0 {
			pt := rs[r.Parent].Type
			key := pt + r.Path[len(pt):]
			f, ok := fieldID[key]
			if !ok {
				res.Unknown = append(res.Unknown, "edge "+key)
			}
			field = f
		}
		cls := i
		if r.Kind == "val" {
			for j := 0; j < i; j++ {
				if rs[j].Kind == "val" && rs[j].Type == r.Type && reflect.DeepEqual(rs[j].Val, r.Val) {
					cls = j
					break
				}
			}
		}
		res.Nodes = append(res.Nodes, walkNode{ID: i, Ty: ty, Parent: r.Parent, Field: field, Name: r.Type + "@" + r.Path, Cls: cls})
		if matched[i] == 0 {
			res.Missed = append(res.Missed, r.Path+" ("+r.Type+")")
		}
		if matched[i] > 1 {
			res.Twice++
		}
	}
}

func init() {
	// walk: stdin = JSON lines {"sql": ...}; each accepted input's AST is inspected
	subcmds["walk"] = func(args []string) int {
		sc := bufio.NewScanner(os.Stdin)
		sc.Buffer(make([]byte, 1<<20), 64<<20)
		for sc.Scan() {
			var in struct {
				SQL string `json:"sql"`
			}
			if err := json.Unmarshal(sc.Bytes(), &in); err != nil {
				continue
			}
			res := walkResult{SQL: in.SQL}
			tree, err := gosqlx.Parse(in.SQL)
			if err == nil && tree != nil {
				res.Accepted = true
				inspectTree(tree, &res)
			}
			emitJSON(res)
		}
		return 0
	}
	// walkprobe: args = Type path ; builds the single-sentinel tree reflectively and inspects it (replay of a
	// table gap on the implementation)
	subcmds["walkprobe"] = func(args []string) int {
		if len(args) < 2 {
			return 2
		}
		for _, t := range nodeTypes {
			if t.Name() != args[0] {
				continue
			}
			for _, p := range dnd(t) {
				if p.String() != args[1] {
					continue
				}
				inst := reflect.New(t)
				pl := plant(inst.Elem(), p, "SENTINEL", 0)
				if p.hasSlice() && pl.OK {
					plant(inst.Elem(), p, "SENTINEL_b", 1)
				}
				res := walkResult{SQL: "(reflective tree: " + args[0] + " with a node at " + args[1] + ")", Accepted: pl.OK}
				if pl.OK {
					inspectTree(inst.Interface().(ast.Node), &res)
				}
				emitJSON(res)
				if len(res.Missed) > 0 || len(res.Foreign) > 0 || res.Panic != "" {
					return 1
				}
				return 0
			}
		}
		fmt.Fprintln(os.Stderr, "no such type/path")
		return 2
	}
}
