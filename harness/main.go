// vh: the correspondence / oracle harness.  Built against /repo's working tree with -tags verif.
package main

import (
	"encoding/json"
	"fmt"
	"os"
)

type subcmd func(args []string) int

var subcmds = map[string]subcmd{}

func main() {
	if len(os.Args) < 2 {
		fmt.Fprintln(os.Stderr, "usage: vh <subcommand> [args]")
		os.Exit(2)
	}
	f, ok := subcmds[os.Args[1]]
	if !ok {
		fmt.Fprintln(os.Stderr, "unknown subcommand", os.Args[1])
		os.Exit(2)
	}
	os.Exit(f(os.Args[2:]))
}

func emitJSON(v interface{}) {
	enc := json.NewEncoder(os.Stdout)
	enc.SetEscapeHTML(false)
	if err := enc.Encode(v); err != nil {
		panic(err)
	}
}

func readStatic(path string) map[string]interface{} {
	b, err := os.ReadFile(path)
	if err != nil {
		panic(err)
	}
	var m map[string]interface{}
	if err := json.Unmarshal(b, &m); err != nil {
		panic(err)
	}
	return m
}

func init() {
	subcmds["tables"] = func(args []string) int {
		// args: static.json
		var cases []string
		if len(args) > 0 {
			st := readStatic(args[0])
			if l, ok := st["put_expression_cases"].([]interface{}); ok {
				for _, x := range l {
					cases = append(cases, x.(string))
				}
			}
		}
		out := map[string]interface{}{
			"children": probeChildren(),
			"pools":    probePools(cases),
		}
		emitJSON(out)
		return 0
	}
}
