package main

// cost: one call of one entry point on one member of an input family (C20).  Run under a harness binary built
// with -cover -covermode=count: the statement-execution counters written at exit are the measure of work.
//   vh cost <entry> <family> <k>        (k = number of repeated elements; prints JSON with the input size)

import (
	"bufio"
	"context"
	"encoding/json"
	"fmt"
	"os"
	"runtime"
	"strconv"
	"strings"
	"syscall"

	"github.com/ajitpratap0/GoSQLX/pkg/formatter"
	"github.com/ajitpratap0/GoSQLX/pkg/gosqlx"
	"github.com/ajitpratap0/GoSQLX/pkg/sql/security"
	"github.com/ajitpratap0/GoSQLX/pkg/sql/tokenizer"
)

func rep(s string, k int) string { return strings.Repeat(s, k) }

// costFamily builds member k of a family: shapes named by the property (one very long line, very many lines,
// very many comments, long operator chains, wide lists, many statements) and a few more.
func costFamily(name string, k int) string {
	switch name {
	case "long_line":
		return "SELECT " + rep("a, ", k) + "b FROM t"
	case "many_lines":
		return "SELECT\n" + rep("  a,\n", k) + "  b\nFROM t"
	case "line_comments":
		return rep("-- a comment line\n", k) + "SELECT 1"
	case "block_comments":
		return "SELECT 1 " + rep("/* c */ ", k) + "FROM t"
	case "plus_chain":
		return "SELECT " + rep("a + ", k) + "b FROM t"
	case "and_chain":
		return "SELECT a FROM t WHERE " + rep("a = 1 AND\n", k) + "b = 2"
	case "concat_chain":
		return "SELECT " + rep("'s' || ", k) + "'e' FROM t"
	case "in_list":
		return "SELECT a FROM t WHERE a IN (" + rep("1,\n", k) + "2)"
	case "values_rows":
		return "INSERT INTO t (a, b) VALUES " + rep("(1, 'x'),\n", k) + "(2, 'y')"
	case "many_statements":
		return rep("SELECT a FROM t WHERE b = 1;\n", k)
	case "long_string":
		return "SELECT '" + rep("xy", k) + "' FROM t"
	case "long_identifier":
		return "SELECT " + rep("ab", k) + " FROM t"
	case "qualified_names":
		return "SELECT " + rep("s.t.c,\n", k) + "x FROM s.t"
	case "join_chain":
		return "SELECT * FROM t0 " + rep("JOIN t1 ON t0.a = t1.a\n", k)
	case "union_long": // one query expression of very many set operations (the tree is nested to the left)
		return "SELECT a FROM t" + rep("\nUNION ALL SELECT a FROM t", k)
	case "long_qualified_name": // one name of very many dotted parts
		return "SELECT " + rep("a.", k) + "b FROM t"
	case "union_dangling": // one long statement with very many statement keywords whose error is at its very end
		return "SELECT a FROM t" + rep("\nUNION ALL SELECT a FROM t", k) + "\nUNION ALL"
	case "broken_statements": // very many malformed statements
		return rep("SELECT a FROM WHERE b = 1;\n", k)
	case "stmts_last_broken": // very many well-formed statements and a malformed last one
		return rep("SELECT a FROM t WHERE b = 1;\n", k) + "SELECT FROM"
	case "keyword_soup": // statement keywords only: every token starts a statement that fails
		return rep("SELECT INSERT UPDATE DELETE ", k)
	case "nested_minus": // right-nested operands that need parentheses: a - (a - (a - ...))
		return "SELECT " + rep("a - (", k) + "a" + rep(")", k) + " FROM t"
	case "nested_not_paren":
		return "SELECT a FROM t WHERE " + rep("NOT (b = 1 AND ", k) + "c = 2" + rep(")", k)
	case "nested_case":
		return "SELECT " + rep("CASE WHEN a = 1 THEN ", k) + "0" + rep(" ELSE 1 END", k) + " FROM t"
	case "nested_func":
		return "SELECT " + rep("COALESCE(a, ", k) + "0" + rep(")", k) + " FROM t"
	case "nested_subquery":
		return "SELECT a FROM t WHERE a IN (" + rep("SELECT b FROM u WHERE b IN (", k) + "SELECT 1" + rep(")", k) + ")"
	case "union_chain":
		return "SELECT a FROM t" + rep("\nUNION ALL SELECT a FROM t", k)
	case "case_whens":
		return "SELECT CASE " + rep("WHEN a = 1 THEN 2\n", k) + "END FROM t"
	case "func_args":
		return "SELECT f(" + rep("a,\n", k) + "b) FROM t"
	case "whitespace":
		return "SELECT a" + rep("   \t ", k) + "FROM t"
	case "string_literals":
		return "SELECT " + rep("'it''s a str', ", k) + "'e' FROM t"
	case "quoted_idents":
		return "SELECT " + rep("\"Col Name\", ", k) + "\"e\" FROM t"
	case "backtick_idents":
		return "SELECT " + rep("`col`, ", k) + "`e` FROM t"
	case "numbers":
		return "SELECT " + rep("12345.678e10, ", k) + "1 FROM t"
	case "placeholders":
		return "SELECT a FROM t WHERE " + rep("a = $1 AND b = $2 AND\n", k) + "c = $3"
	case "dollar_quoted":
		return "SELECT " + rep("$$body$$, $t$x$t$, ", k) + "1 FROM t"
	case "dollar_tags_unclosed":
		var sb strings.Builder
		sb.WriteString("SELECT ")
		for i := 0; i < k; i++ {
			sb.WriteString("$p")
			sb.WriteString(strconv.Itoa(i))
			sb.WriteString("$, ")
		}
		sb.WriteString("1 FROM t")
		return sb.String()
	case "casts":
		return "SELECT a" + rep("::int::text", k) + " FROM t"
	case "json_ops":
		return "SELECT a" + rep("->'k'->>'j'", k) + " FROM t"
	case "subscripts":
		return "SELECT a" + rep("[1]", k) + " FROM t"
	case "semicolons":
		return "SELECT 1" + rep(";", k)
	case "dots":
		return "SELECT " + rep("t.c, t.d, ", k) + "t.x FROM t"
	case "or_like":
		return "SELECT a FROM t WHERE " + rep("a LIKE 'x%' OR b NOT IN (1, 2) OR\n", k) + "c IS NOT NULL"
	case "order_by_list":
		return "SELECT a FROM t ORDER BY " + rep("a DESC NULLS LAST,\n", k) + "b"
	case "crlf_lines":
		return "SELECT\r\n" + rep("  a,\r\n", k) + "  b\r\nFROM t"
	case "unicode_idents":
		return "SELECT " + rep("caf\u00e9, \u540d\u524d, ", k) + "x FROM t"
	}
	return ""
}

func init() {
	subcmds["cost"] = func(args []string) int {
		if len(args) < 3 {
			return 2
		}
		k, _ := strconv.Atoi(args[2])
		sql := costFamily(args[1], k)
		if sql == "" {
			fmt.Fprintln(os.Stderr, "unknown family")
			return 2
		}
		status := "ok"
		note := ""
		var m0, m1 runtime.MemStats
		var r0, r1 syscall.Rusage
		runtime.GC()
		runtime.ReadMemStats(&m0)
		syscall.Getrusage(syscall.RUSAGE_SELF, &r0)
		switch args[0] {
		case "tokenize":
			tk, _ := tokenizer.New()
			toks, err := tk.Tokenize([]byte(sql))
			if err != nil {
				status = "error:" + infoOf(err).Code
			}
			note = strconv.Itoa(len(toks))
		case "tokenize_ctx":
			tk, _ := tokenizer.New()
			toks, err := tk.TokenizeContext(context.Background(), []byte(sql))
			if err != nil {
				status = "error:" + infoOf(err).Code
			}
			note = strconv.Itoa(len(toks))
		case "parse_ctx":
			a, err := gosqlx.ParseWithContext(context.Background(), sql)
			if err != nil {
				status = "error:" + infoOf(err).Code
			} else {
				note = strconv.Itoa(len(a.Statements))
			}
		case "recovery":
			st, errs := gosqlx.ParseWithRecovery(sql)
			note = strconv.Itoa(len(st)) + "/" + strconv.Itoa(len(errs))
		case "validate":
			if err := gosqlx.Validate(sql); err != nil {
				status = "error:" + infoOf(err).Code
			}
		case "lint":
			r := allLinter().LintString(sql, "q.sql")
			note = strconv.Itoa(len(r.Violations))
		case "parse":
			a, err := gosqlx.Parse(sql)
			if err != nil {
				status = "error:" + infoOf(err).Code
			} else {
				note = strconv.Itoa(len(a.Statements))
			}
		case "sql":
			a, err := gosqlx.Parse(sql)
			if err != nil {
				status = "error:" + infoOf(err).Code
			} else {
				note = strconv.Itoa(len(a.SQL()))
			}
		case "format":
			out, err := gosqlx.Format(sql, gosqlx.DefaultFormatOptions())
			if err != nil {
				status = "error:" + infoOf(err).Code
			}
			note = strconv.Itoa(len(out))
		case "formatter":
			out, err := formatter.FormatString(sql)
			if err != nil {
				status = "error:" + infoOf(err).Code
			}
			note = strconv.Itoa(len(out))
		case "scan":
			a, err := gosqlx.Parse(sql)
			if err != nil {
				status = "error:" + infoOf(err).Code
			} else {
				r := security.NewScanner().Scan(a)
				note = strconv.Itoa(len(r.Findings))
			}
		case "scansql":
			r := security.NewScanner().ScanSQL(sql)
			note = strconv.Itoa(len(r.Findings))
		case "extract":
			a, err := gosqlx.Parse(sql)
			if err != nil {
				status = "error:" + infoOf(err).Code
			} else {
				note = strconv.Itoa(len(gosqlx.ExtractTables(a)) + len(gosqlx.ExtractColumns(a)) + len(gosqlx.ExtractFunctions(a)))
			}
		default:
			return 2
		}
		syscall.Getrusage(syscall.RUSAGE_SELF, &r1)
		runtime.ReadMemStats(&m1)
		cpu := (r1.Utime.Sec-r0.Utime.Sec)*1000000 + (r1.Utime.Usec - r0.Utime.Usec) + (r1.Stime.Sec-r0.Stime.Sec)*1000000 + (r1.Stime.Usec - r0.Stime.Usec)
		emitJSON(map[string]interface{}{"entry": args[0], "family": args[1], "k": k, "bytes": len(sql), "status": status, "note": note,
			"alloc_bytes": m1.TotalAlloc - m0.TotalAlloc, "mallocs": m1.Mallocs - m0.Mallocs, "cpu_us": cpu})
		return 0
	}
}

// locq: stdin JSON lines {"sql":..., "queries":[offsets...]}: tokenize, then ask the real position conversion for the
// offsets in the given order (the resume point is exercised forwards and backwards); prints the line table, the tab
// offsets and the answers (tie of Model/Cost.v to the code).
func init() {
	subcmds["locq"] = func(args []string) int {
		sc := bufio.NewScanner(os.Stdin)
		sc.Buffer(make([]byte, 1<<20), 64<<20)
		tk, _ := tokenizer.New()
		for sc.Scan() {
			var in struct {
				SQL     string `json:"sql"`
				Queries []int  `json:"queries"`
			}
			if json.Unmarshal(sc.Bytes(), &in) != nil {
				continue
			}
			tk.Tokenize([]byte(in.SQL)) // a lexical error still leaves input and line table in place
			var ans [][2]int
			for _, q := range in.Queries {
				l := tk.VerifLoc(q)
				ans = append(ans, [2]int{l.Line, l.Column})
			}
			var tabs []int
			for i := 0; i < len(in.SQL); i++ {
				if in.SQL[i] == '\t' {
					tabs = append(tabs, i)
				}
			}
			emitJSON(map[string]interface{}{"len": tk.VerifInputLen(), "starts": tk.VerifLineStarts(), "tabs": tabs, "answers": ans})
		}
		return 0
	}
}
