package main

// C03 harness: the real expression / statement parser on generated inputs.
//
//	c03expr : stdin JSON lines {"id","sql"}; the text is tokenised with the real tokenizer, converted with the
//	          real token converter, and parseExpression is run once at token 0 (hook VerifParseExpressionAt).
//	          Output per line: converted tokens as (constructor name of the Gallina token type, literal), accept /
//	          reject, error code, cursor position and depth counter afterwards, the tree as generic JSON.
//	c03stmt : stdin JSON lines {"id","sql"}; gosqlx.Parse; output: accept/reject, error code, statements as
//	          generic JSON trees.  "tokens":true adds the converted tokens; "dialect" selects a parser dialect.
//
// The generic JSON tree of a value: struct -> {"_":"TypeName", <exported non-zero fields>}; nil pointers /
// interfaces, empty slices, empty strings, false and 0 are omitted (the zero value is "nothing written");
// pointers to scalars are dereferenced ({"*":v} so that a pointer to a zero value stays visible).

import (
	"bufio"
	"encoding/json"
	"fmt"
	"os"
	"reflect"

	"github.com/ajitpratap0/GoSQLX/pkg/models"
	"github.com/ajitpratap0/GoSQLX/pkg/sql/ast"
	"github.com/ajitpratap0/GoSQLX/pkg/sql/parser"
	"github.com/ajitpratap0/GoSQLX/pkg/sql/token"
	"github.com/ajitpratap0/GoSQLX/pkg/sql/tokenizer"
)

// tyName: models.TokenType -> constructor of Spec/RefGrammar.v `tty`.  Everything else is `TyOther n`.
var tyName = map[models.TokenType]string{
	models.TokenTypeEOF:                "TyEOF",
	models.TokenTypeIdentifier:         "TyIdent",
	models.TokenTypeDoubleQuotedString: "TyDQuoted",
	models.TokenTypeNumber:             "TyNumber",
	models.TokenTypeString:             "TyString",
	models.TokenTypeSingleQuotedString: "TySQuoted",
	models.TokenTypeDollarQuotedString: "TyDollarQuoted",
	models.TokenTypePlaceholder:        "TyPlaceholder",
	models.TokenTypeTrue:               "TyTrue",
	models.TokenTypeFalse:              "TyFalse",
	models.TokenTypeNull:               "TyNull",
	models.TokenTypeLParen:             "TyLParen",
	models.TokenTypeRParen:             "TyRParen",
	models.TokenTypeComma:              "TyComma",
	models.TokenTypePeriod:             "TyPeriod",
	models.TokenTypeSemicolon:          "TySemicolon",
	models.TokenTypeLBracket:           "TyLBracket",
	models.TokenTypeRBracket:           "TyRBracket",
	models.TokenTypeColon:              "TyColon",
	models.TokenTypeDoubleColon:        "TyDoubleColon",
	models.TokenTypeEq:                 "TyEq",
	models.TokenTypeNeq:                "TyNeq",
	models.TokenTypeLt:                 "TyLt",
	models.TokenTypeGt:                 "TyGt",
	models.TokenTypeLtEq:               "TyLtEq",
	models.TokenTypeGtEq:               "TyGtEq",
	models.TokenTypeTilde:              "TyTilde",
	models.TokenTypeTildeAsterisk:      "TyTildeAsterisk",
	models.TokenTypeExclamationMarkTilde:         "TyNotTilde",
	models.TokenTypeExclamationMarkTildeAsterisk: "TyNotTildeAsterisk",
	models.TokenTypePlus:               "TyPlus",
	models.TokenTypeMinus:              "TyMinus",
	models.TokenTypeAsterisk:           "TyAsterisk",
	models.TokenTypeMul:                "TyMul",
	models.TokenTypeDiv:                "TyDiv",
	models.TokenTypeMod:                "TyMod",
	models.TokenTypeStringConcat:       "TyStringConcat",
	models.TokenTypeArrow:              "TyJsonOp",
	models.TokenTypeLongArrow:          "TyJsonOp",
	models.TokenTypeHashArrow:          "TyJsonOp",
	models.TokenTypeHashLongArrow:      "TyJsonOp",
	models.TokenTypeAtArrow:            "TyJsonOp",
	models.TokenTypeArrowAt:            "TyJsonOp",
	models.TokenTypeHashMinus:          "TyJsonOp",
	models.TokenTypeQuestion:           "TyJsonOp",
	models.TokenTypeQuestionPipe:       "TyJsonOp",
	models.TokenTypeQuestionAnd:        "TyJsonOp",
	models.TokenTypeOr:                 "TyOr",
	models.TokenTypeAnd:                "TyAnd",
	models.TokenTypeNot:                "TyNot",
	models.TokenTypeBetween:            "TyBetween",
	models.TokenTypeLike:               "TyLike",
	models.TokenTypeILike:              "TyILike",
	models.TokenTypeIn:                 "TyIn",
	models.TokenTypeIs:                 "TyIs",
	models.TokenTypeCase:               "TyCase",
	models.TokenTypeWhen:               "TyWhen",
	models.TokenTypeThen:               "TyThen",
	models.TokenTypeElse:               "TyElse",
	models.TokenTypeEnd:                "TyEnd",
	models.TokenTypeCast:               "TyCast",
	models.TokenTypeAs:                 "TyAs",
	models.TokenTypeExists:             "TyExists",
	models.TokenTypeAny:                "TyAny",
	models.TokenTypeAll:                "TyAll",
	models.TokenTypeSelect:             "TySelect",
	models.TokenTypeWith:               "TyWith",
	models.TokenTypeDistinct:           "TyDistinct",
	models.TokenTypeOrder:              "TyOrder",
	models.TokenTypeBy:                 "TyBy",
	models.TokenTypeInterval:           "TyInterval",
	models.TokenTypeArray:              "TyArray",
	models.TokenTypeIf:                 "TyIf",
	models.TokenTypeReplace:            "TyReplace",
	models.TokenTypeFilter:             "TyFilter",
	models.TokenTypeOver:               "TyOver",
	models.TokenTypeWithin:             "TyWithin",
	models.TokenTypeGroup:              "TyGroup",
	models.TokenTypeWhere:              "TyWhere",
	models.TokenTypeAsc:                "TyAsc",
	models.TokenTypeDesc:               "TyDesc",
	models.TokenTypeNulls:              "TyNulls",
	models.TokenTypeFirst:              "TyFirst",
	models.TokenTypeLast:               "TyLast",
	models.TokenTypeInt:                "TyTypeKw",
	models.TokenTypeInteger:            "TyTypeKw",
	models.TokenTypeVarchar:            "TyTypeKw",
	models.TokenTypeText:               "TyTypeKw",
	models.TokenTypeBoolean:            "TyTypeKw",
	models.TokenTypeFloat:              "TyTypeKw",
	models.TokenTypeFrom:               "TyFrom",
	models.TokenTypeHaving:             "TyHaving",
	models.TokenTypeLimit:              "TyLimit",
	models.TokenTypeOffset:             "TyOffset",
	models.TokenTypeUnion:              "TyUnion",
	models.TokenTypeExcept:             "TyExcept",
	models.TokenTypeIntersect:          "TyIntersect",
	models.TokenTypeOn:                 "TyOn",
	models.TokenTypeUsing:              "TyUsing",
	models.TokenTypeJoin:               "TyJoin",
	models.TokenTypeInner:              "TyInner",
	models.TokenTypeLeft:               "TyLeft",
	models.TokenTypeRight:              "TyRight",
	models.TokenTypeFull:               "TyFull",
	models.TokenTypeCross:              "TyCross",
	models.TokenTypeNatural:            "TyNatural",
	models.TokenTypeOuter:              "TyOuter",
	models.TokenTypeKeyword:            "TyKeyword",
}

type c03tok struct {
	Ty  string `json:"ty"`
	N   int    `json:"n"`
	Lit string `json:"lit"`
}

func c03tokens(ts []token.Token) []c03tok {
	out := make([]c03tok, 0, len(ts))
	for _, t := range ts {
		n, ok := tyName[t.Type]
		if !ok {
			n = "TyOther"
		}
		out = append(out, c03tok{Ty: n, N: int(t.Type), Lit: t.Literal})
	}
	return out
}

// jtree: generic JSON tree of any AST value (see file comment)
func jtree(v reflect.Value, depth int) interface{} {
	if depth > 6000 || !v.IsValid() {
		return nil
	}
	switch v.Kind() {
	case reflect.Interface:
		if v.IsNil() {
			return nil
		}
		return jtree(v.Elem(), depth+1)
	case reflect.Ptr:
		if v.IsNil() {
			return nil
		}
		if v.Elem().Kind() == reflect.Struct {
			return jtree(v.Elem(), depth+1)
		}
		return map[string]interface{}{"*": jscalar(v.Elem(), depth)}
	case reflect.Struct:
		t := v.Type()
		m := map[string]interface{}{"_": t.Name()}
		for i := 0; i < t.NumField(); i++ {
			if !t.Field(i).IsExported() {
				continue
			}
			f := v.Field(i)
			if f.IsZero() {
				continue
			}
			if (f.Kind() == reflect.Slice || f.Kind() == reflect.Map) && f.Len() == 0 {
				continue
			}
			m[t.Field(i).Name] = jtree(f, depth+1)
		}
		return m
	case reflect.Slice, reflect.Array:
		out := make([]interface{}, 0, v.Len())
		for i := 0; i < v.Len(); i++ {
			out = append(out, jtree(v.Index(i), depth+1))
		}
		return out
	default:
		return jscalar(v, depth)
	}
}

func jscalar(v reflect.Value, depth int) interface{} {
	switch v.Kind() {
	case reflect.String:
		return v.String()
	case reflect.Bool:
		return v.Bool()
	case reflect.Int, reflect.Int8, reflect.Int16, reflect.Int32, reflect.Int64:
		return v.Int()
	case reflect.Uint, reflect.Uint8, reflect.Uint16, reflect.Uint32, reflect.Uint64:
		return v.Uint()
	case reflect.Float32, reflect.Float64:
		return v.Float()
	case reflect.Struct, reflect.Slice, reflect.Array, reflect.Ptr, reflect.Interface:
		return jtree(v, depth+1)
	}
	return fmt.Sprintf("<%s>", v.Kind())
}

type c03exprOut struct {
	ID       string      `json:"id"`
	TokErr   string      `json:"tok_err,omitempty"`
	Tokens   []c03tok    `json:"tokens,omitempty"`
	Accepted bool        `json:"accepted"`
	Code     string      `json:"code,omitempty"`
	Msg      string      `json:"msg,omitempty"`
	Pos      int         `json:"pos"`
	Depth    int         `json:"depth"`
	Tree     interface{} `json:"tree,omitempty"`
	Panic    string      `json:"panic,omitempty"`
}

type c03stmtOut struct {
	ID       string        `json:"id"`
	Accepted bool          `json:"accepted"`
	Code     string        `json:"code,omitempty"`
	Msg      string        `json:"msg,omitempty"`
	Tokens   []c03tok      `json:"tokens,omitempty"`
	Trees    []interface{} `json:"trees,omitempty"`
	Panic    string        `json:"panic,omitempty"`
}

func c03tokenize(sql string) ([]token.Token, error) {
	tk := tokenizer.GetTokenizer()
	defer tokenizer.PutTokenizer(tk)
	mt, err := tk.Tokenize([]byte(sql))
	if err != nil {
		return nil, err
	}
	return parser.VerifConvertModelTokens(mt)
}

func init() {
	subcmds["c03expr"] = func(args []string) int {
		sc := bufio.NewScanner(os.Stdin)
		sc.Buffer(make([]byte, 1<<20), 64<<20)
		w := bufio.NewWriter(os.Stdout)
		defer w.Flush()
		enc := json.NewEncoder(w)
		enc.SetEscapeHTML(false)
		for sc.Scan() {
			var in struct {
				ID    string `json:"id"`
				SQL   string `json:"sql"`
				Depth int    `json:"depth"`
			}
			if json.Unmarshal(sc.Bytes(), &in) != nil {
				continue
			}
			out := c03exprOut{ID: in.ID}
			toks, err := c03tokenize(in.SQL)
			if err != nil {
				out.TokErr = infoOf(err).Code
				if out.TokErr == "" {
					out.TokErr = "error"
				}
				_ = enc.Encode(out)
				continue
			}
			out.Tokens = c03tokens(toks)
			p := parser.NewParser()
			var e ast.Expression
			var perr error
			out.Panic = guarded(func() {
				e, out.Pos, out.Depth, perr = p.VerifParseExpressionAt(toks, 0, in.Depth)
			})
			out.Accepted = perr == nil && out.Panic == ""
			if perr != nil {
				ei := infoOf(perr)
				out.Code, out.Msg = ei.Code, ei.Msg
			}
			if out.Accepted {
				out.Tree = jtree(reflect.ValueOf(e), 0)
			}
			_ = enc.Encode(out)
		}
		return 0
	}
	subcmds["c03stmt"] = func(args []string) int {
		sc := bufio.NewScanner(os.Stdin)
		sc.Buffer(make([]byte, 1<<20), 64<<20)
		w := bufio.NewWriter(os.Stdout)
		defer w.Flush()
		enc := json.NewEncoder(w)
		enc.SetEscapeHTML(false)
		for sc.Scan() {
			var in struct {
				ID      string `json:"id"`
				SQL     string `json:"sql"`
				Tokens  bool   `json:"tokens"`
				Dialect string `json:"dialect"`
			}
			if json.Unmarshal(sc.Bytes(), &in) != nil {
				continue
			}
			out := c03stmtOut{ID: in.ID}
			var tree *ast.AST
			var perr error
			out.Panic = guarded(func() {
				toks, err := c03tokenize(in.SQL)
				if err != nil {
					perr = err
					return
				}
				if in.Tokens {
					out.Tokens = c03tokens(toks)
				}
				var p *parser.Parser
				if in.Dialect != "" {
					p = parser.NewParser(parser.WithDialect(in.Dialect))
				} else {
					p = parser.NewParser()
				}
				tree, perr = p.Parse(toks)
			})
			out.Accepted = perr == nil && out.Panic == ""
			if perr != nil {
				ei := infoOf(perr)
				out.Code, out.Msg = ei.Code, ei.Msg
			}
			if out.Accepted && tree != nil {
				for _, s := range tree.Statements {
					out.Trees = append(out.Trees, jtree(reflect.ValueOf(s), 0))
				}
			}
			_ = enc.Encode(out)
		}
		return 0
	}
}
