package main

import (
	"fmt"
	"reflect"
	"sort"
	"strings"

	"github.com/ajitpratap0/GoSQLX/pkg/sql/ast"
)

var nodeIface = reflect.TypeOf((*ast.Node)(nil)).Elem()

// leaf kinds of a node-holding access path
const (
	leafIface = "iface" // interface-typed slot (Node / Expression / Statement / ...)
	leafPtr   = "ptr"   // *S where *S implements Node
	leafVal   = "val"   // S stored by value where *S implements Node (Children() hands out a copy)
)

type accessPath struct {
	Steps []string // field names, "[*]" for slice/array element, "{*}" map value
	Leaf  string
	Type  reflect.Type // static type of the slot
}

func (p accessPath) String() string { return strings.Join(p.Steps, ".") }

func isNodeStruct(t reflect.Type) bool {
	return t.Kind() == reflect.Struct && reflect.PointerTo(t).Implements(nodeIface)
}

// dnd enumerates the access paths from struct type t to the nearest node-holding slots, not crossing
// another node.  seen guards against recursive non-node struct types.
func dnd(t reflect.Type) []accessPath {
	var out []accessPath
	var rec func(t reflect.Type, steps []string, seen map[reflect.Type]bool)
	rec = func(t reflect.Type, steps []string, seen map[reflect.Type]bool) {
		cp := func(s string) []string { return append(append([]string{}, steps...), s) }
		for i := 0; i < t.NumField(); i++ {
			f := t.Field(i)
			if !f.IsExported() {
				continue
			}
			var slot func(ft reflect.Type, st []string)
			slot = func(ft reflect.Type, st []string) {
				switch ft.Kind() {
				case reflect.Interface:
					if ft.Implements(nodeIface) {
						out = append(out, accessPath{Steps: st, Leaf: leafIface, Type: ft})
					}
				case reflect.Ptr:
					el := ft.Elem()
					if isNodeStruct(el) {
						out = append(out, accessPath{Steps: st, Leaf: leafPtr, Type: ft})
					} else if el.Kind() == reflect.Struct && !seen[el] {
						seen2 := copySeen(seen)
						seen2[el] = true
						rec(el, st, seen2)
					}
				case reflect.Struct:
					if isNodeStruct(ft) {
						out = append(out, accessPath{Steps: st, Leaf: leafVal, Type: ft})
					} else if !seen[ft] {
						seen2 := copySeen(seen)
						seen2[ft] = true
						rec(ft, st, seen2)
					}
				case reflect.Slice, reflect.Array:
					slot(ft.Elem(), append(append([]string{}, st...), "[*]"))
				case reflect.Map:
					slot(ft.Elem(), append(append([]string{}, st...), "{*}"))
				}
			}
			slot(f.Type, cp(f.Name))
		}
	}
	rec(t, nil, map[reflect.Type]bool{t: true})
	sort.Slice(out, func(i, j int) bool { return out[i].String() < out[j].String() })
	return out
}

func copySeen(m map[reflect.Type]bool) map[reflect.Type]bool {
	r := map[reflect.Type]bool{}
	for k, v := range m {
		r[k] = v
	}
	return r
}

// sentinel construction ------------------------------------------------------------------------

var sentinelCounter int

// candidates assignable to interface slots, tried in order
func ifaceCandidates(marker string) []reflect.Value {
	return []reflect.Value{
		reflect.ValueOf(&ast.Identifier{Name: marker}),
		reflect.ValueOf(&ast.SelectStatement{TableName: marker}),
		reflect.ValueOf(&ast.LiteralValue{Value: marker, Type: "STRING"}),
	}
}

// markValue sets the first settable string (or else integer/bool) field found in v (a struct value,
// addressable) to a marker, so that a by-value copy is recognisable by deep equality.
func markValue(v reflect.Value, marker string) bool {
	t := v.Type()
	for i := 0; i < t.NumField(); i++ {
		f := v.Field(i)
		if !t.Field(i).IsExported() {
			continue
		}
		if f.Kind() == reflect.String {
			f.SetString(marker)
			return true
		}
	}
	for i := 0; i < t.NumField(); i++ {
		f := v.Field(i)
		if !t.Field(i).IsExported() {
			continue
		}
		switch f.Kind() {
		case reflect.Int, reflect.Int64, reflect.Int32:
			sentinelCounter++
			f.SetInt(int64(1000 + sentinelCounter))
			return true
		case reflect.Struct:
			if markValue(f, marker) {
				return true
			}
		case reflect.Slice:
			if f.Type().Elem().Kind() == reflect.String {
				f.Set(reflect.ValueOf([]string{marker}))
				return true
			}
		}
	}
	for i := 0; i < t.NumField(); i++ {
		f := v.Field(i)
		if t.Field(i).IsExported() && f.Kind() == reflect.Interface && f.Type().Implements(nodeIface) {
			for _, c := range ifaceCandidates(marker + "_inner") {
				if c.Type().AssignableTo(f.Type()) {
					f.Set(c)
					return true
				}
			}
		}
	}
	for i := 0; i < t.NumField(); i++ {
		f := v.Field(i)
		if t.Field(i).IsExported() && f.Kind() == reflect.Bool {
			f.SetBool(true)
			return true
		}
	}
	return false
}

type planted struct {
	Path accessPath
	Kind string
	Ptr  interface{}   // for iface/ptr leaves: the pointer planted
	Val  reflect.Value // for val leaves: copy of the planted struct value
	OK   bool          // planting succeeded
	Why  string
}

// plant puts a sentinel at path p inside root (addressable struct value).  Slices on the path get two
// elements; idx selects which element of the innermost slice receives the sentinel, so that planting with
// idx 0 and idx 1 populates both (a Children() that mishandles multi-element slices is then visible).
// plantConcrete, when set, makes plant() put a node of exactly this type into interface-typed slots.
var plantConcrete reflect.Type

func plant(root reflect.Value, p accessPath, marker string, idx int) planted {
	res := planted{Path: p, Kind: p.Leaf}
	cur := root
	lastStar := -1
	for i, s := range p.Steps {
		if s == "[*]" {
			lastStar = i
		}
	}
	for i, s := range p.Steps {
		switch s {
		case "[*]":
			k := 0
			if i == lastStar {
				k = idx
			}
			if cur.Kind() == reflect.Array {
				if k >= cur.Len() {
					k = 0
				}
				cur = cur.Index(k)
			} else {
				if cur.Len() < 2 {
					sl := reflect.MakeSlice(cur.Type(), 2, 2)
					reflect.Copy(sl, cur)
					cur.Set(sl)
				}
				cur = cur.Index(k)
			}
		case "{*}":
			res.Why = "map slot"
			return res
		default:
			for cur.Kind() == reflect.Ptr {
				if cur.IsNil() {
					cur.Set(reflect.New(cur.Type().Elem()))
				}
				cur = cur.Elem()
			}
			cur = cur.FieldByName(s)
		}
	}
	switch p.Leaf {
	case leafIface:
		if plantConcrete != nil {
			// a chosen concrete node type in an interface-typed slot (Children() may treat dynamic types differently)
			pt := reflect.PointerTo(plantConcrete)
			if pt.AssignableTo(cur.Type()) {
				nv := reflect.New(plantConcrete)
				markValue(nv.Elem(), marker)
				cur.Set(nv)
				res.Ptr = nv.Interface()
				res.OK = true
				return res
			}
			res.Why = "concrete type not assignable"
			return res
		}
		for _, c := range ifaceCandidates(marker) {
			if c.Type().AssignableTo(cur.Type()) {
				cur.Set(c)
				res.Ptr = c.Interface()
				res.OK = true
				return res
			}
		}
		// search node types for an assignable one
		for _, nt := range nodeTypes {
			pt := reflect.PointerTo(nt)
			if pt.AssignableTo(cur.Type()) {
				nv := reflect.New(nt)
				markValue(nv.Elem(), marker)
				cur.Set(nv)
				res.Ptr = nv.Interface()
				res.OK = true
				return res
			}
		}
		res.Why = "no assignable sentinel"
	case leafPtr:
		nv := reflect.New(cur.Type().Elem())
		markValue(nv.Elem(), marker)
		cur.Set(nv)
		res.Ptr = nv.Interface()
		res.OK = true
	case leafVal:
		if !markValue(cur, marker) {
			res.Why = "cannot mark value"
			return res
		}
		cp := reflect.New(cur.Type()).Elem()
		cp.Set(cur)
		res.Val = cp
		res.OK = true
	}
	return res
}

// matchChild reports whether child (a Node returned by Children()) is the planted sentinel.
func (pl planted) matches(child ast.Node) bool {
	if child == nil {
		return false
	}
	cv := reflect.ValueOf(child)
	switch pl.Kind {
	case leafIface, leafPtr:
		return cv.Kind() == reflect.Ptr && !cv.IsNil() && child == pl.Ptr
	case leafVal:
		if cv.Kind() == reflect.Ptr {
			if cv.IsNil() {
				return false
			}
			cv = cv.Elem()
		}
		return cv.Type() == pl.Val.Type() && reflect.DeepEqual(cv.Interface(), pl.Val.Interface())
	}
	return false
}

func isTypedNil(n ast.Node) bool {
	if n == nil {
		return false
	}
	v := reflect.ValueOf(n)
	return v.Kind() == reflect.Ptr && v.IsNil()
}

func safeChildren(n ast.Node) (kids []ast.Node, panicked string) {
	defer func() {
		if r := recover(); r != nil {
			panicked = fmt.Sprint(r)
		}
	}()
	return n.Children(), ""
}

// ---------------------------------------------------------------------------------------------
// reflect-reachable nodes of a real tree

type reachNode struct {
	Kind   string // ptr | val
	Type   string
	Path   string // type-level path from parent: ParentType.fieldpath
	Ptr    interface{}
	Val    interface{} // copy of the struct for val nodes
	Parent int
}

// reachable lists every node reachable from n through exported fields (n itself first).
// lastReachShared: how often the last reachable() call met a node pointer it had already listed (the tree is a DAG:
// the parser shares a derived table between FROM and the left side of the first join)
var lastReachShared int

func reachable(n ast.Node) []reachNode {
	var out []reachNode
	lastReachShared = 0
	seenPtr := map[interface{}]bool{}
	var visitStruct func(sv reflect.Value, parent int, ptype string, steps string)
	var visitSlot func(v reflect.Value, parent int, ptype string, steps string)
	visitNodePtr := func(pv reflect.Value, parent int, ptype, steps string) {
		if pv.IsNil() {
			return
		}
		key := pv.Interface()
		if seenPtr[key] {
			lastReachShared++
			return
		}
		seenPtr[key] = true
		idx := len(out)
		out = append(out, reachNode{Kind: "ptr", Type: pv.Type().Elem().Name(), Path: ptype + "." + steps, Ptr: key, Parent: parent})
		visitStruct(pv.Elem(), idx, pv.Type().Elem().Name(), "")
	}
	visitSlot = func(v reflect.Value, parent int, ptype string, steps string) {
		switch v.Kind() {
		case reflect.Interface:
			if v.IsNil() {
				return
			}
			e := v.Elem()
			if v.Type().Implements(nodeIface) {
				if e.Kind() == reflect.Ptr && isNodeStruct(e.Type().Elem()) {
					visitNodePtr(e, parent, ptype, steps)
				} else if e.Kind() == reflect.Struct && isNodeStruct(e.Type()) {
					idx := len(out)
					out = append(out, reachNode{Kind: "val", Type: e.Type().Name(), Path: ptype + "." + steps, Val: e.Interface(), Parent: parent})
					visitStruct(e, idx, e.Type().Name(), "")
				}
			}
		case reflect.Ptr:
			if v.IsNil() {
				return
			}
			el := v.Type().Elem()
			if isNodeStruct(el) {
				visitNodePtr(v, parent, ptype, steps)
			} else if el.Kind() == reflect.Struct {
				visitStruct(v.Elem(), parent, ptype, steps)
			}
		case reflect.Struct:
			if isNodeStruct(v.Type()) {
				if v.IsZero() {
					return // a zero-valued by-value node is an unset slot, like a nil pointer
				}
				idx := len(out)
				out = append(out, reachNode{Kind: "val", Type: v.Type().Name(), Path: ptype + "." + steps, Val: v.Interface(), Parent: parent})
				visitStruct(v, idx, v.Type().Name(), "")
			} else {
				visitStruct(v, parent, ptype, steps)
			}
		case reflect.Slice, reflect.Array:
			for i := 0; i < v.Len(); i++ {
				visitSlot(v.Index(i), parent, ptype, steps+".[*]")
			}
		case reflect.Map:
			it := v.MapRange()
			for it.Next() {
				visitSlot(it.Value(), parent, ptype, steps+".{*}")
			}
		}
	}
	visitStruct = func(sv reflect.Value, parent int, ptype string, steps string) {
		t := sv.Type()
		for i := 0; i < t.NumField(); i++ {
			if !t.Field(i).IsExported() {
				continue
			}
			st := t.Field(i).Name
			if steps != "" {
				st = steps + "." + st
			}
			visitSlot(sv.Field(i), parent, ptype, st)
		}
	}
	rv := reflect.ValueOf(n)
	if rv.Kind() == reflect.Ptr && !rv.IsNil() && isNodeStruct(rv.Type().Elem()) {
		visitNodePtr(rv, -1, "", "root")
	}
	return out
}

func (p accessPath) hasSlice() bool {
	for _, s := range p.Steps {
		if s == "[*]" {
			return true
		}
	}
	return false
}
