package main

// ownalias.go — C09: slices, strings and result structs handed to callers.  For every kind of result a
// behavioural probe: take the result, snapshot it, then make the library (or the caller, for the input
// bytes) write everything it could write later — overwrite the input buffer, reuse the same instance on
// other inputs, Reset it, send it through its pool and use the next one, run the producing function
// again, release the tree the result was computed from, parse other text — and compare the held result
// with the snapshot.  In the other direction the held result is overwritten by the caller and the library
// is run again: its new output must be what a fresh run gives.  One row per (result, buffer).

import (
	"context"
	"reflect"
	"unsafe"

	"github.com/ajitpratap0/GoSQLX/pkg/gosqlx"
	"github.com/ajitpratap0/GoSQLX/pkg/models"
	"github.com/ajitpratap0/GoSQLX/pkg/sql/ast"
	"github.com/ajitpratap0/GoSQLX/pkg/sql/parser"
	"github.com/ajitpratap0/GoSQLX/pkg/sql/security"
	"github.com/ajitpratap0/GoSQLX/pkg/sql/tokenizer"
)

type aliasRow struct {
	Result  string `json:"result"`
	Buffer  string `json:"buffer"`
	Aliased bool   `json:"aliased"`
	Probes  int    `json:"probes"`
	Detail  string `json:"detail,omitempty"`
}

var aliasInputs = []string{
	"SELECT a, 'lit' -- c1\nFROM t /* c2 */ WHERE b = 1 -- tail",
	"/* head */ SELECT \"Q\", `bq`, x.y FROM s.tab AS x -- one\n-- two\nWHERE z IN (1, 2, 3) /* three */",
	"INSERT INTO t (a, b) VALUES (1, 'x') -- ins\n",
	"SELECT f(a), count(*) FROM t1 JOIN t2 ON t1.id = t2.id WHERE a = 1 OR 1 = 1 -- inj\n",
	"SELECT * FROM users WHERE name = 'x' UNION SELECT NULL, NULL FROM information_schema.tables /* u */",
}

var aliasOther = []string{
	"-- aaaaaaaaaaaaaaaaaaaaaaaaaaaa\n-- bbbbbbbbbbbbbbbbbbbbbbbbbbbb\n-- cccccccccccccccccccccccc\nSELECT zz, yy, xx, ww, vv, uu, tt, ss, rr, qq, pp, oo, nn, mm, ll, kk FROM other1 /* dddd */ /* eeee */ /* ffff */ WHERE q9 = 'other' -- gggg",
	"/* 1 */ /* 2 */ /* 3 */ /* 4 */ /* 5 */ /* 6 */ UPDATE other2 SET c1 = 1, c2 = 2, c3 = 3 WHERE k IN (9, 8, 7, 6, 5, 4, 3, 2, 1) -- 7\n-- 8\n",
}

func sliceData(v interface{}) uintptr {
	rv := reflect.ValueOf(v)
	if rv.Kind() != reflect.Slice || rv.Cap() == 0 {
		return 0
	}
	return uintptr(unsafe.Pointer(rv.Slice(0, rv.Cap()).Index(0).Addr().Pointer()))
}

func scribble(b []byte) {
	for i := range b {
		b[i] = 'X'
	}
}

func runOwnAlias() []*aliasRow {
	var rows []*aliasRow
	row := func(result, buffer string) *aliasRow {
		r := &aliasRow{Result: result, Buffer: buffer}
		rows = append(rows, r)
		return r
	}
	mark := func(r *aliasRow, bad bool, detail string) {
		r.Probes++
		if bad && !r.Aliased {
			r.Aliased = true
			r.Detail = detail
		}
	}
	churn := func() {
		for _, o := range aliasOther {
			tr, err := gosqlx.Parse(o)
			if err == nil {
				_ = gosqlx.ExtractTables(tr)
				_ = gosqlx.ExtractColumns(tr)
				ast.ReleaseAST(tr)
			}
			_, _ = gosqlx.Format(o, gosqlx.DefaultFormatOptions())
			_ = security.NewScanner().ScanSQL(o)
			tk := tokenizer.GetTokenizer()
			_, _ = tk.Tokenize([]byte(o))
			tokenizer.PutTokenizer(tk)
		}
	}

	// --- tokens and comments
	rTokIn := row("tokens", "input bytes")
	rComIn := row("comments", "input bytes")
	rTokReuse := row("tokens", "tokenizer instance reused on another input")
	rComReuse := row("comments", "tokenizer instance reused on another input")
	rTokReset := row("tokens", "tokenizer Reset")
	rComReset := row("comments", "tokenizer Reset")
	rTokPool := row("tokens", "tokenizer returned to its pool and handed out again")
	rComPool := row("comments", "tokenizer returned to its pool and handed out again")
	rTokParse := row("tokens", "parser reading the held tokens")
	rTokCtx := row("tokens (TokenizeContext)", "input bytes, reuse, pool")
	rComBack := row("comments", "backing array shared with the tokenizer's next Comments slice")
	rTokMut := row("tokens", "caller overwrites the held tokens, tokenizer runs again")
	for _, in := range aliasInputs {
		for _, useCtx := range []bool{false, true} {
			tk := tokenizer.GetTokenizer()
			buf := []byte(in)
			var toks []models.TokenWithSpan
			var err error
			if useCtx {
				toks, err = tk.TokenizeContext(context.Background(), buf)
			} else {
				toks, err = tk.Tokenize(buf)
			}
			if err != nil {
				tokenizer.PutTokenizer(tk)
				continue
			}
			coms := tk.Comments
			comData := sliceData(coms)
			snapT, snapC := dump(toks), dump(coms)
			tok, com := rTokIn, rComIn
			if useCtx {
				tok, com = rTokCtx, rTokCtx
			}
			scribble(buf)
			mark(tok, dump(toks) != snapT, "tokens changed when the caller overwrote the input buffer of "+in)
			mark(com, dump(coms) != snapC, "comments changed when the caller overwrote the input buffer of "+in)
			if !useCtx {
				tok, com = rTokReuse, rComReuse
			}
			for _, o := range aliasOther {
				_, _ = tk.Tokenize([]byte(o))
				if d := sliceData(tk.Comments); comData != 0 && d == comData {
					mark(rComBack, true, "the Comments slice of the next run uses the backing array of the slice read by the previous caller")
				} else {
					mark(rComBack, false, "")
				}
			}
			mark(tok, dump(toks) != snapT, "tokens changed when the same tokenizer tokenized other input after "+in)
			mark(com, dump(coms) != snapC, "comments changed when the same tokenizer tokenized other input after "+in)
			if !useCtx {
				tok, com = rTokReset, rComReset
			}
			_, _ = tk.Tokenize([]byte(in))
			coms2 := tk.Comments
			snapC2 := dump(coms2)
			tk.Reset()
			_, _ = tk.Tokenize([]byte(aliasOther[0]))
			mark(tok, dump(toks) != snapT, "tokens changed after Reset and another run")
			mark(com, dump(coms2) != snapC2 || dump(coms) != snapC, "comments changed after Reset and another run")
			if !useCtx {
				tok, com = rTokPool, rComPool
			}
			_, _ = tk.Tokenize([]byte(in))
			coms3 := tk.Comments
			snapC3 := dump(coms3)
			tokenizer.PutTokenizer(tk)
			churn()
			mark(tok, dump(toks) != snapT, "tokens changed after the tokenizer went through its pool")
			mark(com, dump(coms3) != snapC3 || dump(coms) != snapC, "comments changed after the tokenizer went through its pool")
			// the parser reads the held tokens
			p := parser.NewParser()
			tr, perr := p.ParseFromModelTokens(toks)
			if perr == nil && tr != nil {
				ast.ReleaseAST(tr)
			}
			_, _ = p.ParseWithRecoveryFromModelTokens(toks)
			p.Release()
			mark(rTokParse, dump(toks) != snapT, "the parser modified the token slice it was given: "+in)
			// caller overwrites its tokens; a new run must not see that
			for i := range toks {
				toks[i].Token.Value = "overwritten"
				if toks[i].Token.Word != nil {
					toks[i].Token.Word.Value = "overwritten"
				}
			}
			tk2 := tokenizer.GetTokenizer()
			again, err2 := tk2.Tokenize([]byte(in))
			mark(rTokMut, err2 != nil || dump(again) != snapT, "a later Tokenize of the same text differs after the caller overwrote earlier tokens")
			tokenizer.PutTokenizer(tk2)
		}
	}

	// --- trees: ParseMultiple / ParseWithRecovery results while the same tokenizer and parser go on
	rMulti := row("trees (ParseMultiple)", "shared tokenizer and parser reused for the next query")
	{
		var qs []string
		for _, q := range append(append([]string{}, aliasInputs...), aliasOther...) {
			if one, err := gosqlx.Parse(q); err == nil {
				ast.ReleaseAST(one)
				qs = append(qs, q)
			}
		}
		trees, err := gosqlx.ParseMultiple(qs)
		if err == nil {
			for i, q := range qs {
				one, err1 := gosqlx.Parse(q)
				mark(rMulti, err1 != nil || dump(one) != dump(trees[i]), "tree "+q+" of ParseMultiple differs from a separate Parse")
				if err1 == nil {
					ast.ReleaseAST(one)
				}
			}
			snaps := make([]string, len(trees))
			for i := range trees {
				snaps[i] = dump(trees[i])
			}
			churn()
			for i := range trees {
				mark(rMulti, dump(trees[i]) != snaps[i], "a tree of ParseMultiple changed during later parsing")
			}
		}
		// a batch that repeats a query text: every result is the caller's own tree (distinct objects), and releasing
		// one of them leaves the others intact
		if len(qs) > 0 {
			rep := []string{qs[0], qs[len(qs)-1], qs[0], qs[0]}
			dups, derr := gosqlx.ParseMultiple(rep)
			if derr == nil && len(dups) == len(rep) {
				for i := range dups {
					for j := i + 1; j < len(dups); j++ {
						mark(rMulti, dups[i] == dups[j], "ParseMultiple returned the same *ast.AST for two entries of the batch")
					}
				}
				keep := dump(dups[3])
				ast.ReleaseAST(dups[0])
				mark(rMulti, dump(dups[3]) != keep, "releasing one tree of a ParseMultiple batch changed another tree of the batch")
			}
		}
	}
	rRec := row("statements (ParseWithRecovery)", "later parsing and releases")
	for _, in := range aliasInputs {
		stmts, _ := gosqlx.ParseWithRecovery(in + "; SELECT FROM; SELECT 2")
		snap := dump(stmts)
		churn()
		mark(rRec, dump(stmts) != snap, "statements of ParseWithRecovery changed during later parsing")
	}
	rTreeCom := row("tree comments (AST.Comments)", "later parsing and releases")
	for _, in := range aliasInputs {
		tr, err := gosqlx.Parse(in)
		if err != nil {
			continue
		}
		snap := dump(tr.Comments)
		churn()
		mark(rTreeCom, dump(tr.Comments) != snap, "AST.Comments changed during later parsing")
	}

	// --- extraction results
	type ext struct {
		name string
		f    func(*ast.AST) interface{}
	}
	exts := []ext{
		{"ExtractTables", func(a *ast.AST) interface{} { return gosqlx.ExtractTables(a) }},
		{"ExtractTablesQualified", func(a *ast.AST) interface{} { return gosqlx.ExtractTablesQualified(a) }},
		{"ExtractColumns", func(a *ast.AST) interface{} { return gosqlx.ExtractColumns(a) }},
		{"ExtractColumnsQualified", func(a *ast.AST) interface{} { return gosqlx.ExtractColumnsQualified(a) }},
		{"ExtractFunctions", func(a *ast.AST) interface{} { return gosqlx.ExtractFunctions(a) }},
		{"ExtractMetadata", func(a *ast.AST) interface{} { return gosqlx.ExtractMetadata(a) }},
	}
	for _, e := range exts {
		rLater := row(e.name, "later extraction, release of the tree, later parsing")
		rBack := row(e.name, "caller overwrites the held list, extraction runs again")
		for _, in := range aliasInputs {
			tr, err := gosqlx.Parse(in)
			if err != nil {
				continue
			}
			res := e.f(tr)
			snap := dumpSorted(res)
			for _, e2 := range exts {
				_ = e2.f(tr)
			}
			mark(rLater, dumpSorted(res) != snap, e.name+" result changed when extraction ran again on the same tree")
			overwrite(reflect.ValueOf(res))
			res2 := e.f(tr)
			mark(rBack, dumpSorted(res2) != snap, e.name+" returns the caller's overwritten list on the next call")
			ast.ReleaseAST(tr)
			churn()
			mark(rLater, dumpSorted(res2) != snap, e.name+" result changed after the tree was released and other text was parsed")
		}
	}

	// --- scan results
	rScan := row("ScanResult.Findings", "same scanner scanning again, other scanners, release of the tree")
	rScanBack := row("ScanResult.Findings", "caller overwrites the held findings, scanner runs again")
	for _, in := range aliasInputs {
		sc := security.NewScanner()
		tr, err := gosqlx.Parse(in)
		if err != nil {
			continue
		}
		r1 := sc.Scan(tr)
		s1 := sc.ScanSQL(in)
		snap1, snapS := dump(r1), dump(s1)
		for _, o := range aliasOther {
			_ = sc.ScanSQL(o)
			if t2, e2 := gosqlx.Parse(o); e2 == nil {
				_ = sc.Scan(t2)
				ast.ReleaseAST(t2)
			}
		}
		_ = sc.Scan(tr)
		mark(rScan, dump(r1) != snap1 || dump(s1) != snapS, "a held ScanResult changed when the scanner ran again")
		for i := range r1.Findings {
			r1.Findings[i].Description = "overwritten"
			r1.Findings[i].Severity = "overwritten"
		}
		r1.Findings = append(r1.Findings[:0], security.Finding{Description: "overwritten"})
		r2 := sc.Scan(tr)
		mark(rScanBack, dump(r2) != snap1, "Scan returns the caller's overwritten findings on the next call")
		ast.ReleaseAST(tr)
		churn()
		mark(rScan, dump(r2) != snap1 || dump(s1) != snapS, "a held ScanResult changed after the tree was released")
	}
	return rows
}

// overwrite sets every string reachable in v (slices, structs, pointers) to "overwritten"
func overwrite(v reflect.Value) {
	switch v.Kind() {
	case reflect.Ptr, reflect.Interface:
		if !v.IsNil() {
			overwrite(v.Elem())
		}
	case reflect.Slice:
		for i := 0; i < v.Len(); i++ {
			overwrite(v.Index(i))
		}
	case reflect.Struct:
		for i := 0; i < v.NumField(); i++ {
			if v.Type().Field(i).IsExported() {
				overwrite(v.Field(i))
			}
		}
	case reflect.String:
		if v.CanSet() {
			v.SetString("overwritten")
		}
	}
}

// dumpSorted: canonical dump in which top-level (and first-level field) slices are compared as multisets
// (the extractors iterate over maps, so their order is not part of the result)
func dumpSorted(x interface{}) string {
	v := reflect.ValueOf(x)
	for v.Kind() == reflect.Ptr && !v.IsNil() {
		v = v.Elem()
	}
	one := func(s reflect.Value) string {
		var parts []string
		for i := 0; i < s.Len(); i++ {
			parts = append(parts, dump(s.Index(i).Interface()))
		}
		sortStrings(parts)
		out := "["
		for _, p := range parts {
			out += p + " "
		}
		return out + "]"
	}
	switch v.Kind() {
	case reflect.Slice:
		return one(v)
	case reflect.Struct:
		out := "("
		for i := 0; i < v.NumField(); i++ {
			if !v.Type().Field(i).IsExported() {
				continue
			}
			f := v.Field(i)
			if f.Kind() == reflect.Slice {
				out += v.Type().Field(i).Name + "=" + one(f) + " "
			} else {
				out += v.Type().Field(i).Name + "=" + dump(f.Interface()) + " "
			}
		}
		return out + ")"
	}
	return dump(x)
}

func init() {
	subcmds["ownalias"] = func(args []string) int {
		emitJSON(runOwnAlias())
		return 0
	}
}
