package main

// qast.go — dump of a REAL parsed tree into the query-tree form of coq/theories/Model/QAst.v, and the shared
// front end (parse + graft) of the extract / scan subcommands (C15, C16).
//
// The dump is reflective: every node type, every node-holding access path (same "Type.path" naming as the C14
// tables), every string attribute.  lib/qast.py maps type names to the modelled kinds (anything else becomes
// KOpaque with the C14 type / field ids) — so a node type or field added to pkg/sql/ast tomorrow is part of
// the dump without touching this file.
//
// A *SelectStatement pointer that occurs a second time in one tree is dumped as {"t":"#shared"}: the parser
// stores the derived table of the first FROM item again in the first JoinClause.Left, and both analyses skip a
// statement they have already seen.

import (
	"fmt"
	"reflect"

	"github.com/ajitpratap0/GoSQLX/pkg/gosqlx"
	"github.com/ajitpratap0/GoSQLX/pkg/sql/ast"
)

type qnode struct {
	T string              `json:"t"`
	P string              `json:"p,omitempty"`
	S map[string]string   `json:"s,omitempty"`
	L map[string][]string `json:"l,omitempty"`
	K []*qnode            `json:"k,omitempty"`
}

type qdumper struct {
	seen  map[*ast.SelectStatement]bool
	nodes int
}

var stringerType = reflect.TypeOf((*fmt.Stringer)(nil)).Elem()

func (d *qdumper) node(pv reflect.Value, path string) *qnode {
	// pv: pointer to a node struct (non-nil)
	if sel, ok := pv.Interface().(*ast.SelectStatement); ok {
		if d.seen[sel] {
			return &qnode{T: "#shared", P: path}
		}
		d.seen[sel] = true
	}
	return d.structNode(pv.Elem(), path)
}

func (d *qdumper) structNode(sv reflect.Value, path string) *qnode {
	d.nodes++
	n := &qnode{T: sv.Type().Name(), P: path}
	d.fields(sv, "", n)
	return n
}

func (d *qdumper) fields(sv reflect.Value, steps string, n *qnode) {
	t := sv.Type()
	for i := 0; i < t.NumField(); i++ {
		if !t.Field(i).IsExported() {
			continue
		}
		st := t.Field(i).Name
		if steps != "" {
			st = steps + "." + st
		}
		d.slot(sv.Field(i), st, n)
	}
}

func (d *qdumper) attr(n *qnode, name, val string) {
	if val == "" {
		return
	}
	if n.S == nil {
		n.S = map[string]string{}
	}
	n.S[name] = val
}

func (d *qdumper) slot(v reflect.Value, steps string, n *qnode) {
	switch v.Kind() {
	case reflect.String:
		d.attr(n, steps, v.String())
	case reflect.Int, reflect.Int8, reflect.Int16, reflect.Int32, reflect.Int64:
		if v.Type().Implements(stringerType) { // UnaryOperator and the like
			d.attr(n, steps, v.Interface().(fmt.Stringer).String())
		}
	case reflect.Interface:
		if v.IsNil() {
			return
		}
		e := v.Elem()
		if v.Type().Implements(nodeIface) {
			if e.Kind() == reflect.Ptr && isNodeStruct(e.Type().Elem()) {
				if !e.IsNil() {
					n.K = append(n.K, d.node(e, steps))
				}
			} else if e.Kind() == reflect.Struct && isNodeStruct(e.Type()) {
				n.K = append(n.K, d.structNode(e, steps))
			}
			return
		}
		// LiteralValue.Value and other plain interface{} scalars: what fmt's %v prints (the scanner compares that)
		d.attr(n, steps, fmt.Sprintf("%v", v.Interface()))
	case reflect.Ptr:
		if v.IsNil() {
			return
		}
		el := v.Type().Elem()
		if isNodeStruct(el) {
			n.K = append(n.K, d.node(v, steps))
		} else if el.Kind() == reflect.Struct {
			d.fields(v.Elem(), steps, n)
		}
	case reflect.Struct:
		if isNodeStruct(v.Type()) {
			if v.IsZero() {
				return
			}
			n.K = append(n.K, d.structNode(v, steps))
		} else {
			d.fields(v, steps, n)
		}
	case reflect.Slice, reflect.Array:
		if v.Type().Elem().Kind() == reflect.String {
			var l []string
			for i := 0; i < v.Len(); i++ {
				l = append(l, v.Index(i).String())
			}
			if len(l) > 0 {
				if n.L == nil {
					n.L = map[string][]string{}
				}
				n.L[steps] = l
			}
			return
		}
		for i := 0; i < v.Len(); i++ {
			d.slot(v.Index(i), steps+".[*]", n)
		}
	case reflect.Map:
		it := v.MapRange()
		for it.Next() {
			d.slot(it.Value(), steps+".{*}", n)
		}
	}
}

// qdump dumps the statements of a tree (one seen-set per tree, as one Extract / Scan call has).
func qdump(tree *ast.AST) ([]*qnode, int) {
	d := &qdumper{seen: map[*ast.SelectStatement]bool{}}
	var out []*qnode
	for _, s := range tree.Statements {
		rv := reflect.ValueOf(s)
		if rv.Kind() == reflect.Ptr && !rv.IsNil() && isNodeStruct(rv.Type().Elem()) {
			out = append(out, d.node(rv, "root"))
		}
	}
	return out, d.nodes
}

// ---------------------------------------------------------------------------------------------
// front end: parse, then optionally graft a table list the grammar of the parser cannot produce

type qinput struct {
	ID    int    `json:"id"`
	SQL   string `json:"sql"`
	Graft string `json:"graft,omitempty"` // update_from | delete_using | merge_source
	SQL2  string `json:"sql2,omitempty"`  // SELECT whose FROM list is grafted
	Want  *struct {
		Tables    []string    `json:"tables"`
		Columns   []string    `json:"columns"`
		QColumns  [][2]string `json:"qcolumns"`
		Functions []string    `json:"functions"`
	} `json:"want,omitempty"`
	Payload *struct {
		Pattern  string `json:"pattern"`
		Severity string `json:"severity"`
	} `json:"payload,omitempty"`
	NoDump bool `json:"nodump,omitempty"`
}

func qparse(in *qinput) (*ast.AST, string) {
	tree, err := gosqlx.Parse(in.SQL)
	if err != nil || tree == nil {
		return nil, "parse: " + fmt.Sprint(err)
	}
	if in.Graft == "" {
		return tree, ""
	}
	t2, err := gosqlx.Parse(in.SQL2)
	if err != nil || t2 == nil || len(t2.Statements) != 1 || len(tree.Statements) != 1 {
		return nil, "graft parse: " + fmt.Sprint(err)
	}
	sel, ok := t2.Statements[0].(*ast.SelectStatement)
	if !ok || len(sel.From) == 0 {
		return nil, "graft: no FROM list"
	}
	switch in.Graft {
	case "update_from":
		u, ok := tree.Statements[0].(*ast.UpdateStatement)
		if !ok {
			return nil, "graft: not an UPDATE"
		}
		u.From = sel.From
	case "delete_using":
		dl, ok := tree.Statements[0].(*ast.DeleteStatement)
		if !ok {
			return nil, "graft: not a DELETE"
		}
		dl.Using = sel.From
	case "merge_source":
		m, ok := tree.Statements[0].(*ast.MergeStatement)
		if !ok {
			return nil, "graft: not a MERGE"
		}
		m.SourceTable = sel.From[0]
	default:
		return nil, "graft: unknown kind"
	}
	return tree, ""
}
