// C18 harness: drives a real lsp.Server over in-memory streams (whole conversations), the
// DocumentManager directly (edit histories), and an exhaustive small-document edit sweep with an
// implementation-side oracle written on UTF-16 code unit arrays (independent of the byte-walking code
// under test and of the Coq model).
package main

import (
	"bufio"
	"bytes"
	"encoding/hex"
	"encoding/json"
	"fmt"
	"io"
	"os"
	"runtime"
	"sort"
	"strings"
	"sync"
	"time"
	"unicode/utf16"
	"unicode/utf8"

	"github.com/ajitpratap0/GoSQLX/pkg/lsp"
)

func hx(s string) string { return hex.EncodeToString([]byte(s)) }
func unhx(s string) string {
	b, err := hex.DecodeString(s)
	if err != nil {
		panic(err)
	}
	return string(b)
}

func firstLine(s string) string {
	if i := strings.IndexByte(s, '\n'); i >= 0 {
		return s[:i]
	}
	return s
}

// ---------------------------------------------------------------------------------------------
// lspdoc: histories on one DocumentManager

type docChange struct {
	Range []int  `json:"range"` // nil = full sync, else [sl, sc, el, ec]
	Hex   string `json:"hex"`
}

type docOp struct {
	Op      string      `json:"op"` // open | change | close
	URI     string      `json:"uri"`
	Version int         `json:"version"`
	Hex     string      `json:"hex"`
	Changes []docChange `json:"changes"`
}

type docStep struct {
	Panic   string `json:"panic,omitempty"`
	Present bool   `json:"present"`
	Version int    `json:"version"`
	Hex     string `json:"hex"`
}

func toChanges(cs []docChange) []lsp.TextDocumentContentChangeEvent {
	out := make([]lsp.TextDocumentContentChangeEvent, 0, len(cs))
	for _, c := range cs {
		ev := lsp.TextDocumentContentChangeEvent{Text: unhx(c.Hex)}
		if c.Range != nil {
			ev.Range = &lsp.Range{Start: lsp.Position{Line: c.Range[0], Character: c.Range[1]},
				End: lsp.Position{Line: c.Range[2], Character: c.Range[3]}}
		}
		out = append(out, ev)
	}
	return out
}

// sameLines: the cached lines are the lines of content (terminators LF, CR LF, CR; none kept)
func sameLines(lines []string, content string) bool {
	want := strings.Split(strings.ReplaceAll(strings.ReplaceAll(content, "\r\n", "\n"), "\r", "\n"), "\n")
	if len(want) != len(lines) {
		return false
	}
	for i := range want {
		if want[i] != lines[i] {
			return false
		}
	}
	return true
}

func runDocHistory(ops []docOp) []docStep {
	dm := lsp.NewDocumentManager()
	var steps []docStep
	for _, o := range ops {
		o := o
		p := guarded(func() {
			switch o.Op {
			case "open":
				dm.Open(o.URI, "sql", o.Version, unhx(o.Hex))
			case "change":
				dm.Update(o.URI, o.Version, toChanges(o.Changes))
			case "close":
				dm.Close(o.URI)
			}
		})
		if p != "" {
			steps = append(steps, docStep{Panic: firstLine(p)})
			break
		}
		st := docStep{}
		if d, ok := dm.Get(o.URI); ok {
			st.Present, st.Version, st.Hex = true, d.Version, hx(d.Content)
			// the cached line split must be the split of the content
			if !sameLines(d.Lines, d.Content) {
				st.Panic = "lines cache out of sync with content"
			}
		}
		steps = append(steps, st)
	}
	return steps
}

// ---------------------------------------------------------------------------------------------
// lspserve: a real Server on in-memory streams

// stepReader hands the server one client frame at a time.  Read runs on the server's own goroutine, so
// when it is called with nothing pending the server has consumed everything delivered so far and has
// finished handling every complete message: that is where the state is observed.
type stepReader struct {
	frames [][]byte
	idx    int
	cur    []byte
	onIdle func(delivered int)
}

func (r *stepReader) Read(p []byte) (int, error) {
	if len(r.cur) == 0 {
		r.onIdle(r.idx)
		for r.idx < len(r.frames) && len(r.frames[r.idx]) == 0 {
			r.idx++
		}
		if r.idx >= len(r.frames) {
			return 0, io.EOF
		}
		r.cur = r.frames[r.idx]
		r.idx++
	}
	n := copy(p, r.cur)
	r.cur = r.cur[n:]
	return n, nil
}

type docObs struct {
	Version int    `json:"version"`
	Hex     string `json:"hex"`
}

type lspSnapshot struct {
	Delivered int               `json:"delivered"` // frames delivered (and fully handled) so far
	Out       string            `json:"out"`       // bytes written since the previous snapshot (hex)
	Docs      map[string]docObs `json:"docs"`
}

type serveCase struct {
	Frames  []string `json:"frames"` // hex
	URIs    []string `json:"uris"`
	Freeze  bool     `json:"freeze"`   // freeze the rate limiter window (deterministic counting)
	ResetAt []int    `json:"reset_at"` // frame indices before which the limiter window is made to expire
}

type serveResult struct {
	Snapshots []lspSnapshot `json:"snapshots"`
	Panic     string        `json:"panic,omitempty"`
	Returned  bool          `json:"returned"`
	Err       string        `json:"err,omitempty"`
	Consumed  int           `json:"consumed"` // frames requested by the server
}

func runServe(c serveCase) serveResult {
	var res serveResult
	var out bytes.Buffer
	seen := 0
	rd := &stepReader{}
	for _, f := range c.Frames {
		rd.frames = append(rd.frames, []byte(unhx(f)))
	}
	var srv *lsp.Server
	resetAt := map[int]bool{}
	for _, k := range c.ResetAt {
		resetAt[k] = true
	}
	rd.onIdle = func(delivered int) {
		if c.Freeze {
			if resetAt[delivered] {
				srv.VerifSetLastReset(time.Now().Add(-time.Hour)) // the next message starts a new window
			} else {
				srv.VerifSetLastReset(time.Now().Add(time.Hour)) // the window never expires by itself
			}
		}
		sn := lspSnapshot{Delivered: delivered, Docs: map[string]docObs{}}
		b := out.Bytes()
		sn.Out = hex.EncodeToString(b[seen:])
		seen = len(b)
		for _, u := range c.URIs {
			if d, ok := srv.Documents().Get(u); ok {
				sn.Docs[u] = docObs{Version: d.Version, Hex: hx(d.Content)}
			}
		}
		res.Snapshots = append(res.Snapshots, sn)
	}
	srv = lsp.NewServer(rd, &out, nil)
	p := guarded(func() {
		err := srv.Run()
		res.Returned = true
		if err != nil {
			res.Err = err.Error()
		}
	})
	res.Panic = firstLine(p)
	res.Consumed = rd.idx
	// whatever was written after the last idle point (e.g. while handling the message that stopped the loop)
	rd.onIdle(rd.idx)
	return res
}

// ---------------------------------------------------------------------------------------------
// oracle: the protocol's rule for applying an edit, on UTF-16 code unit arrays.
// Where the protocol is silent (a column inside a surrogate pair; a range whose end precedes its
// start) every reasonable reading is accepted: the oracle returns the SET of acceptable results
// (first element = the reading the Coq specification fixes: round down, empty range at start).

// utf16LineSpans returns [start, end) of every line of u (end excludes the terminator).
// A line ends at LF, at CR LF (one terminator) or at a CR not followed by LF.
func utf16LineSpans(u []uint16) [][2]int {
	var spans [][2]int
	start := 0
	for i := 0; i < len(u); i++ {
		switch u[i] {
		case '\n':
			spans = append(spans, [2]int{start, i})
			start = i + 1
		case '\r':
			spans = append(spans, [2]int{start, i})
			if i+1 < len(u) && u[i+1] == '\n' {
				i++
			}
			start = i + 1
		}
	}
	return append(spans, [2]int{start, len(u)})
}

func utf16Positions(u []uint16, line, char int) []int {
	if line < 0 {
		return []int{0}
	}
	spans := utf16LineSpans(u)
	if line >= len(spans) {
		return []int{len(u)} // past the last line: end of document
	}
	start, end := spans[line][0], spans[line][1]
	c := char
	if c < 0 {
		c = 0
	}
	if c > end-start {
		c = end - start
	}
	idx := start + c
	if idx > start && idx < end && u[idx] >= 0xDC00 && u[idx] < 0xE000 && u[idx-1] >= 0xD800 && u[idx-1] < 0xDC00 {
		return []int{idx - 1, idx + 1}
	}
	return []int{idx}
}

func oracleApply(doc string, sl, sc, el, ec int, text string) []string {
	u := utf16.Encode([]rune(doc))
	t := utf16.Encode([]rune(text))
	var res []string
	add := func(s, e int) {
		v := make([]uint16, 0, len(u)+len(t))
		v = append(v, u[:s]...)
		v = append(v, t...)
		v = append(v, u[e:]...)
		str := string(utf16.Decode(v))
		for _, x := range res {
			if x == str {
				return
			}
		}
		res = append(res, str)
	}
	for _, s := range utf16Positions(u, sl, sc) {
		for _, e := range utf16Positions(u, el, ec) {
			if e < s {
				add(s, s) // empty range at the start
				add(e, s) // or the range read the other way round
			} else {
				add(s, e)
			}
		}
	}
	return res
}

func implApply(doc string, sl, sc, el, ec int, text string) (string, string) {
	var got string
	p := guarded(func() {
		dm := lsp.NewDocumentManager()
		dm.Open("u", "sql", 1, doc)
		dm.Update("u", 2, []lsp.TextDocumentContentChangeEvent{{
			Range: &lsp.Range{Start: lsp.Position{Line: sl, Character: sc}, End: lsp.Position{Line: el, Character: ec}},
			Text:  text}})
		got, _ = dm.GetContent("u")
	})
	return got, firstLine(p)
}

type sweepCfg struct {
	MaxLines int      `json:"max_lines"`
	MaxChars int      `json:"max_chars"`
	Alphabet []string `json:"alphabet"` // hex of each character
	Texts    []string `json:"texts"`    // hex replacement texts
	Stride   int      `json:"stride"`   // take every stride-th document (1 = all), offset by Seed
	Seed     int      `json:"seed"`
	Emit     int      `json:"emit"` // number of sampled cases to emit for the model / python cross-check
	MaxBad   int      `json:"max_bad"`
	Pad      int      `json:"pad"` // how far past the last line / longest line the ranges go (default 1)
}

type sweepCase struct {
	Doc   string   `json:"doc"` // hex
	Range [4]int   `json:"range"`
	Text  string   `json:"text"` // hex
	Got   string   `json:"got"`  // hex
	Panic string   `json:"panic,omitempty"`
	Want  []string `json:"want,omitempty"` // hex, acceptable results
}

type lspSweepOut struct {
	Docs            int         `json:"docs"`
	Edits           int         `json:"edits"`
	Ambiguous       int         `json:"ambiguous"` // edits on which the protocol leaves a choice
	NonStrict       int         `json:"non_strict"`
	BadCount        int         `json:"bad_count"`
	Bad             []sweepCase `json:"bad"`
	NonStrictSample []sweepCase `json:"non_strict_sample"`
	Sample          []sweepCase `json:"sample"`
}

func allLines(alpha []string, maxChars int) []string {
	res := []string{""}
	prev := []string{""}
	for n := 1; n <= maxChars; n++ {
		var cur []string
		for _, p := range prev {
			for _, a := range alpha {
				cur = append(cur, p+a)
			}
		}
		res = append(res, cur...)
		prev = cur
	}
	return res
}

func runSweep(cfg sweepCfg) lspSweepOut {
	var alpha, texts []string
	for _, a := range cfg.Alphabet {
		alpha = append(alpha, unhx(a))
	}
	for _, t := range cfg.Texts {
		texts = append(texts, unhx(t))
	}
	lines := allLines(alpha, cfg.MaxChars)
	if cfg.Stride < 1 {
		cfg.Stride = 1
	}
	if cfg.Pad < 1 {
		cfg.Pad = 1
	}
	// enumerate documents by index: 1..MaxLines lines, each any element of lines
	var total int
	pow := 1
	var offs []int
	for n := 1; n <= cfg.MaxLines; n++ {
		pow *= len(lines)
		offs = append(offs, total)
		total += pow
	}
	docAt := func(i int) string {
		n := 0
		for n+1 < len(offs) && i >= offs[n+1] {
			n++
		}
		i -= offs[n]
		parts := make([]string, n+1)
		for k := 0; k <= n; k++ {
			parts[k] = lines[i%len(lines)]
			i /= len(lines)
		}
		return strings.Join(parts, "\n")
	}
	workers := runtime.NumCPU()
	if workers > 16 {
		workers = 16
	}
	var mu sync.Mutex
	var out lspSweepOut
	var wg sync.WaitGroup
	// deterministic sampling: every emitEvery-th edit of worker 0's share
	for w := 0; w < workers; w++ {
		wg.Add(1)
		go func(w int) {
			defer wg.Done()
			var loc lspSweepOut
			cnt := 0
			for di := (cfg.Seed % cfg.Stride) + w*cfg.Stride; di < total; di += workers * cfg.Stride {
				doc := docAt(di)
				loc.Docs++
				spans := utf16LineSpans(utf16.Encode([]rune(doc)))
				dl := spans // only its length is used below
				maxU := 0
				for _, sp := range spans {
					if sp[1]-sp[0] > maxU {
						maxU = sp[1] - sp[0]
					}
				}
				for sl := -1; sl <= len(dl)-1+cfg.Pad; sl++ {
					for el := -1; el <= len(dl)-1+cfg.Pad; el++ {
						for sc := -1; sc <= maxU+cfg.Pad; sc++ {
							for ec := -1; ec <= maxU+cfg.Pad; ec++ {
								text := texts[cnt%len(texts)]
								cnt++
								got, pn := implApply(doc, sl, sc, el, ec, text)
								want := oracleApply(doc, sl, sc, el, ec, text)
								loc.Edits++
								if len(want) > 1 {
									loc.Ambiguous++
								}
								ok := pn == ""
								if ok {
									ok = false
									for _, x := range want {
										if x == got {
											ok = true
										}
									}
								}
								mk := func() sweepCase {
									c := sweepCase{Doc: hx(doc), Range: [4]int{sl, sc, el, ec}, Text: hx(text), Got: hx(got), Panic: pn}
									for _, x := range want {
										c.Want = append(c.Want, hx(x))
									}
									return c
								}
								if !ok {
									loc.BadCount++
									if len(loc.Bad) < cfg.MaxBad {
										loc.Bad = append(loc.Bad, mk())
									}
								} else if got != want[0] {
									loc.NonStrict++
									if len(loc.NonStrictSample) < 3 {
										loc.NonStrictSample = append(loc.NonStrictSample, mk())
									}
								}
								if cfg.Emit > 0 && (cnt*2654435761+di)%9973 == 0 && len(loc.Sample) < cfg.Emit {
									loc.Sample = append(loc.Sample, mk())
								}
							}
						}
					}
				}
			}
			mu.Lock()
			out.Docs += loc.Docs
			out.Edits += loc.Edits
			out.Ambiguous += loc.Ambiguous
			out.NonStrict += loc.NonStrict
			out.BadCount += loc.BadCount
			out.Bad = append(out.Bad, loc.Bad...)
			out.NonStrictSample = append(out.NonStrictSample, loc.NonStrictSample...)
			out.Sample = append(out.Sample, loc.Sample...)
			mu.Unlock()
		}(w)
	}
	wg.Wait()
	key := func(c sweepCase) string { return fmt.Sprint(c.Doc, c.Range, c.Text) }
	sort.Slice(out.Bad, func(i, j int) bool { return key(out.Bad[i]) < key(out.Bad[j]) })
	sort.Slice(out.Sample, func(i, j int) bool { return key(out.Sample[i]) < key(out.Sample[j]) })
	sort.Slice(out.NonStrictSample, func(i, j int) bool { return key(out.NonStrictSample[i]) < key(out.NonStrictSample[j]) })
	if len(out.Bad) > cfg.MaxBad {
		out.Bad = out.Bad[:cfg.MaxBad]
	}
	if len(out.Sample) > cfg.Emit {
		// keep a deterministic spread
		step := len(out.Sample) / cfg.Emit
		var s []sweepCase
		for i := 0; i < len(out.Sample) && len(s) < cfg.Emit; i += step {
			s = append(s, out.Sample[i])
		}
		out.Sample = s
	}
	return out
}

// ---------------------------------------------------------------------------------------------

func eachLine(f func(line []byte)) {
	sc := bufio.NewScanner(os.Stdin)
	sc.Buffer(make([]byte, 1<<20), 1<<28)
	for sc.Scan() {
		if len(bytes.TrimSpace(sc.Bytes())) == 0 {
			continue
		}
		f(sc.Bytes())
	}
}

func init() {
	subcmds["lspdoc"] = func(args []string) int {
		eachLine(func(line []byte) {
			var c struct {
				Ops []docOp `json:"ops"`
			}
			if err := json.Unmarshal(line, &c); err != nil {
				panic(err)
			}
			emitJSON(map[string]interface{}{"steps": runDocHistory(c.Ops)})
		})
		return 0
	}
	subcmds["lspserve"] = func(args []string) int {
		eachLine(func(line []byte) {
			var c serveCase
			if err := json.Unmarshal(line, &c); err != nil {
				panic(err)
			}
			emitJSON(runServe(c))
		})
		return 0
	}
	subcmds["lspsweep"] = func(args []string) int {
		eachLine(func(line []byte) {
			var c sweepCfg
			if err := json.Unmarshal(line, &c); err != nil {
				panic(err)
			}
			emitJSON(runSweep(c))
		})
		return 0
	}
	// lspframes: the frame reader alone on a byte stream (hook VerifReadMessage)
	subcmds["lspframes"] = func(args []string) int {
		eachLine(func(line []byte) {
			var c struct {
				Stream string `json:"stream"`
			}
			if err := json.Unmarshal(line, &c); err != nil {
				panic(err)
			}
			in := []byte(unhx(c.Stream))
			srv := lsp.NewServer(bytes.NewReader(in), io.Discard, nil)
			items := []map[string]interface{}{}
			for i := 0; i <= len(in)+1; i++ {
				var body []byte
				var err error
				p := guarded(func() { body, err = srv.VerifReadMessage() })
				if p != "" {
					items = append(items, map[string]interface{}{"panic": firstLine(p)})
					break
				}
				if err == io.EOF {
					items = append(items, map[string]interface{}{"eof": true})
					break
				}
				if err != nil {
					items = append(items, map[string]interface{}{"err": true})
					continue
				}
				items = append(items, map[string]interface{}{"body": hex.EncodeToString(body)})
			}
			emitJSON(map[string]interface{}{"items": items})
		})
		return 0
	}
	// lspedit: single edits with the Go oracle (replay of sweep failures, python cross-check of the oracle)
	subcmds["lspedit"] = func(args []string) int {
		eachLine(func(line []byte) {
			var c sweepCase
			if err := json.Unmarshal(line, &c); err != nil {
				panic(err)
			}
			doc, text := unhx(c.Doc), unhx(c.Text)
			got, pn := implApply(doc, c.Range[0], c.Range[1], c.Range[2], c.Range[3], text)
			r := sweepCase{Doc: c.Doc, Range: c.Range, Text: c.Text, Got: hx(got), Panic: pn}
			if utf8.ValidString(doc) && utf8.ValidString(text) {
				for _, x := range oracleApply(doc, c.Range[0], c.Range[1], c.Range[2], c.Range[3], text) {
					r.Want = append(r.Want, hx(x))
				}
			}
			emitJSON(r)
		})
		return 0
	}
}
