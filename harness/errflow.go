// errflow.go: C13 (every failure is a structured, classifiable, reproducible error) and C11 (cancellation is
// honoured promptly, reported as such, leaves no residue): implementation-side observations.
//
//	vh errsweep   stdin JSON lines {"id","sql"|"gen":{"kind","n"},"class"}: every entry point that can fail, three
//	              times each; per failing entry point the Unwrap chain (shape, codes, messages, locations),
//	              errors.As, reproducibility, location-inside-input, text-embedded causes.
//	vh ctxsweep   stdin JSON lines {"id","sql"}: counting context; every poll index k, Canceled and
//	              DeadlineExceeded, through Tokenizer.TokenizeContext, Parser.ParseContextFromModelTokens and
//	              gosqlx.ParseWithContext; reuse probes on the same instances afterwards.
package main

import (
	"bufio"
	"context"
	"encoding/json"
	"errors"
	"fmt"
	"os"
	"regexp"
	"strings"
	"time"

	goerrors "github.com/ajitpratap0/GoSQLX/pkg/errors"
	"github.com/ajitpratap0/GoSQLX/pkg/gosqlx"
	"github.com/ajitpratap0/GoSQLX/pkg/models"
	"github.com/ajitpratap0/GoSQLX/pkg/sql/ast"
	"github.com/ajitpratap0/GoSQLX/pkg/sql/keywords"
	"github.com/ajitpratap0/GoSQLX/pkg/sql/parser"
	"github.com/ajitpratap0/GoSQLX/pkg/sql/tokenizer"
)

// one element of an Unwrap chain
type chainElem struct {
	Kind int    `json:"k"` // 0 *errors.Error, 1 other error with a non-nil Unwrap, 2 context error, 3 other terminal
	Code string `json:"code,omitempty"`
	Type string `json:"type"`
	Msg  string `json:"msg,omitempty"` // Message of a structured element, Error() of the others (truncated)
	Line int    `json:"line,omitempty"`
	Col  int    `json:"col,omitempty"`
}

type errObs struct {
	Nil        bool        `json:"nil"`
	Chain      []chainElem `json:"chain,omitempty"`
	As         bool        `json:"as"`      // errors.As(err, **errors.Error)
	AsCode     string      `json:"as_code"` // its code
	AsMsgEmpty bool        `json:"as_msg_empty"`
	AsLine     int         `json:"as_line"`
	AsCol      int         `json:"as_col"`
	TextEmpty  bool        `json:"text_empty"`
	Headers    int         `json:"headers"`    // occurrences of "Error Exxxx at line" in err.Error()
	Structured int         `json:"structured"` // structured elements in the chain
	CtxText    bool        `json:"ctx_text"`   // err.Error() mentions a context error
	IsCanceled bool        `json:"is_canceled"`
	IsDeadline bool        `json:"is_deadline"`
	IsReach    bool        `json:"is_reach"` // errors.Is(err, e) for every chain element e
	MultiWrap  bool        `json:"multi_wrap,omitempty"`
	Text       string      `json:"text,omitempty"`
	full       string
}

var headerRe = regexp.MustCompile(`Error E[0-9]{4} at line`)

func trunc(s string, n int) string {
	if len(s) > n {
		return s[:n]
	}
	return s
}

func observe(err error) errObs {
	if err == nil {
		return errObs{Nil: true}
	}
	o := errObs{IsReach: true}
	o.full = err.Error()
	o.TextEmpty = o.full == ""
	o.Text = trunc(o.full, 200)
	o.Headers = len(headerRe.FindAllString(o.full, -1))
	o.CtxText = strings.Contains(o.full, context.Canceled.Error()) || strings.Contains(o.full, context.DeadlineExceeded.Error())
	o.IsCanceled = errors.Is(err, context.Canceled)
	o.IsDeadline = errors.Is(err, context.DeadlineExceeded)
	for e, n := err, 0; e != nil && n < 100000; n++ {
		ce := chainElem{Type: fmt.Sprintf("%T", e)}
		if !errors.Is(err, e) {
			o.IsReach = false
		}
		var next error
		if u, ok := e.(interface{ Unwrap() error }); ok {
			next = u.Unwrap()
		}
		if _, ok := e.(interface{ Unwrap() []error }); ok {
			o.MultiWrap = true
		}
		if se, ok := e.(*goerrors.Error); ok && se != nil {
			ce.Kind, ce.Code, ce.Msg, ce.Line, ce.Col = 0, string(se.Code), trunc(se.Message, 120), se.Location.Line, se.Location.Column
			o.Structured++
		} else if e == context.Canceled || e == context.DeadlineExceeded {
			ce.Kind, ce.Msg = 2, e.Error()
		} else if next != nil {
			ce.Kind, ce.Msg = 1, trunc(e.Error(), 60)
		} else {
			ce.Kind, ce.Msg = 3, trunc(e.Error(), 120)
		}
		o.Chain = append(o.Chain, ce)
		e = next
	}
	var se *goerrors.Error
	if errors.As(err, &se) && se != nil {
		o.As = true
		o.AsCode = string(se.Code)
		o.AsMsgEmpty = se.Message == ""
		o.AsLine, o.AsCol = se.Location.Line, se.Location.Column
	}
	return o
}

func sameObs(a, b errObs) bool {
	if a.Nil != b.Nil || a.full != b.full || a.AsCode != b.AsCode || a.AsLine != b.AsLine || a.AsCol != b.AsCol || len(a.Chain) != len(b.Chain) {
		return false
	}
	for i := range a.Chain {
		if a.Chain[i] != b.Chain[i] {
			return false
		}
	}
	return true
}

type epObs struct {
	Name   string `json:"name"`
	Failed bool   `json:"failed"`
	Obs    errObs `json:"obs"`
	Same3  bool   `json:"same3"`
	Panic  string `json:"panic,omitempty"`
	Index  int    `json:"index,omitempty"` // recovery: which error of the list
}

type sweepOut struct {
	ID      string  `json:"id"`
	Class   string  `json:"class"`
	Stage   string  `json:"stage"` // accepted | lexical | convert | grammar
	Bytes   int     `json:"bytes"`
	NLines  int     `json:"nlines"`
	LineLen []int   `json:"line_len,omitempty"` // column width of each line (only for small inputs)
	EPs     []epObs `json:"eps"`
	Ms      int64   `json:"ms"`
}

type errEP struct {
	name string
	run  func(sql string) []error // the errors of one call (one element, or the list of a recovery call)
}

func one(err error) []error { return []error{err} }

func errEntryPoints(big bool) []errEP {
	eps := []errEP{
		{"gosqlx.Parse", func(s string) []error { _, e := gosqlx.Parse(s); return one(e) }},
		{"gosqlx.ParseWithContext", func(s string) []error { _, e := gosqlx.ParseWithContext(context.Background(), s); return one(e) }},
		{"gosqlx.Validate", func(s string) []error { return one(gosqlx.Validate(s)) }},
		{"parser.ValidateBytes", func(s string) []error { return one(parser.ValidateBytes([]byte(s))) }},
		{"Tokenizer.Tokenize", func(s string) []error {
			tk, _ := tokenizer.New()
			_, e := tk.Tokenize([]byte(s))
			return one(e)
		}},
		{"Tokenizer.TokenizeContext", func(s string) []error {
			tk, _ := tokenizer.New()
			_, e := tk.TokenizeContext(context.Background(), []byte(s))
			return one(e)
		}},
	}
	low := func(name string, f func(p *parser.Parser, toks []models.TokenWithSpan) []error) errEP {
		return errEP{name, func(s string) []error {
			tk, _ := tokenizer.New()
			toks, err := tk.Tokenize([]byte(s))
			if err != nil {
				return one(nil) // tokenizer failures are observed through the tokenizer entry points
			}
			return f(parser.NewParser(), toks)
		}}
	}
	eps = append(eps,
		low("Parser.ParseFromModelTokens", func(p *parser.Parser, t []models.TokenWithSpan) []error {
			_, e := p.ParseFromModelTokens(t)
			return one(e)
		}),
		low("Parser.ParseContextFromModelTokens", func(p *parser.Parser, t []models.TokenWithSpan) []error {
			_, e := p.ParseContextFromModelTokens(context.Background(), t)
			return one(e)
		}),
		low("Parser.ParseFromModelTokensWithPositions", func(p *parser.Parser, t []models.TokenWithSpan) []error {
			_, e := p.ParseFromModelTokensWithPositions(t)
			return one(e)
		}),
	)
	// one parser that lives for the whole process and is never reset (a worker that keeps going after errors): what it
	// reports for an input must not depend on the failures it has seen, limit violations included
	eps = append(eps, errEP{"Parser(long-lived).ParseFromModelTokens", func(s string) []error {
		tk, _ := tokenizer.New()
		toks, err := tk.Tokenize([]byte(s))
		if err != nil {
			return one(nil)
		}
		p := longLivedParser()
		_, e := p.ParseFromModelTokens(toks)
		return one(e)
	}})
	if big {
		return eps
	}
	eps = append(eps,
		errEP{"gosqlx.ParseBytes", func(s string) []error { _, e := gosqlx.ParseBytes([]byte(s)); return one(e) }},
		errEP{"gosqlx.ParseWithTimeout", func(s string) []error { _, e := gosqlx.ParseWithTimeout(s, time.Minute); return one(e) }},
		errEP{"gosqlx.ParseMultiple", func(s string) []error { _, e := gosqlx.ParseMultiple([]string{"SELECT 1", s}); return one(e) }},
		errEP{"gosqlx.ValidateMultiple", func(s string) []error { return one(gosqlx.ValidateMultiple([]string{"SELECT 1", s})) }},
		errEP{"gosqlx.Format", func(s string) []error { _, e := gosqlx.Format(s, gosqlx.DefaultFormatOptions()); return one(e) }},
		errEP{"gosqlx.ParseWithRecovery", func(s string) []error { _, es := gosqlx.ParseWithRecovery(s); return es }},
		errEP{"parser.Validate", func(s string) []error { return one(parser.Validate(s)) }},
		errEP{"parser.ParseBytes", func(s string) []error { _, e := parser.ParseBytes([]byte(s)); return one(e) }},
		errEP{"parser.ParseBytesWithTokens", func(s string) []error { _, _, e := parser.ParseBytesWithTokens([]byte(s)); return one(e) }},
		errEP{"parser.ParseWithDialect", func(s string) []error { _, e := parser.ParseWithDialect(s, keywords.DialectPostgreSQL); return one(e) }},
		errEP{"parser.ParseBytesWithDialect", func(s string) []error {
			_, e := parser.ParseBytesWithDialect([]byte(s), keywords.DialectMySQL)
			return one(e)
		}},
		errEP{"parser.ValidateWithDialect", func(s string) []error { return one(parser.ValidateWithDialect(s, keywords.DialectPostgreSQL)) }},
		errEP{"parser.ValidateBytesWithDialect", func(s string) []error {
			return one(parser.ValidateBytesWithDialect([]byte(s), keywords.DialectSQLServer))
		}},
		low("Parser.ParseWithRecoveryFromModelTokens", func(p *parser.Parser, t []models.TokenWithSpan) []error {
			_, es := p.ParseWithRecoveryFromModelTokens(t)
			return es
		}),
		low("Parser.Parse", func(p *parser.Parser, t []models.TokenWithSpan) []error {
			c, err := parser.VerifConvertModelTokens(t)
			if err != nil {
				return one(nil)
			}
			_, e := p.Parse(c)
			return one(e)
		}),
		low("Parser.ParseContext", func(p *parser.Parser, t []models.TokenWithSpan) []error {
			c, err := parser.VerifConvertModelTokens(t)
			if err != nil {
				return one(nil)
			}
			_, e := p.ParseContext(context.Background(), c)
			return one(e)
		}),
		low("Parser.ParseWithPositions", func(p *parser.Parser, t []models.TokenWithSpan) []error {
			c, err := parser.VerifConvertModelTokensWithPositions(t)
			if err != nil {
				return one(nil)
			}
			_, e := p.ParseWithPositions(c)
			return one(e)
		}),
		low("Parser.ParseWithRecovery", func(p *parser.Parser, t []models.TokenWithSpan) []error {
			c, err := parser.VerifConvertModelTokens(t)
			if err != nil {
				return one(nil)
			}
			_, es := p.ParseWithRecovery(c)
			return es
		}),
	)
	return eps
}

var llParser *parser.Parser

// longLivedParser returns the process-wide parser; on first use it is taken through a prelude of failing inputs of
// every limit family (nesting of parentheses, CTEs, sub-queries, NOT chains, CASE) and ordinary syntax errors in nested
// positions, so that any state a failure leaves behind is in place before the inputs of the sweep arrive.
func longLivedParser() *parser.Parser {
	if llParser != nil {
		return llParser
	}
	llParser = parser.NewParser()
	deep := 130
	prelude := []string{
		"SELECT " + strings.Repeat("(", deep) + "1" + strings.Repeat(")", deep),
		strings.Repeat("WITH c AS (", deep) + "SELECT 1" + strings.Repeat(") SELECT 1", deep),
		"SELECT * FROM " + strings.Repeat("(SELECT * FROM ", deep) + "t" + strings.Repeat(") d", deep),
		"SELECT 1 WHERE " + strings.Repeat("NOT ", deep) + "a",
		"SELECT " + strings.Repeat("CASE WHEN a THEN ", deep) + "1" + strings.Repeat(" END", deep),
		"SELECT a FROM t WHERE a IN (SELECT b FROM u WHERE",
		"WITH c AS (SELECT FROM) SELECT 1",
		"WITH c AS (SELECT a FROM t WHERE (a = ) SELECT 1",
		"SELECT a FROM t WHERE a = 1 OR (b = ",
		"SELECT f(g(h(",
		"INSERT INTO t VALUES (1, (SELECT",
	}
	for rep := 0; rep < 3; rep++ {
		for _, s := range prelude {
			tk, _ := tokenizer.New()
			if toks, err := tk.Tokenize([]byte(s)); err == nil {
				guarded(func() { _, _ = llParser.ParseFromModelTokens(toks) })
			}
		}
	}
	return llParser
}

func genInput(kind string, n int) string {
	var b strings.Builder
	switch kind {
	case "size": // n bytes of a syntactically harmless statement
		b.WriteString("SELECT 1 ")
		line := strings.Repeat("-", 78) + "\n"
		b.WriteString("--")
		for b.Len()+len(line) <= n {
			b.WriteString(line)
		}
		for b.Len() < n {
			b.WriteByte('x')
		}
	case "tokens": // a statement with n tokens (before EOF)
		b.WriteString("SELECT ")
		cnt := 1
		i := 0
		for cnt+2 <= n {
			b.WriteString("1,")
			cnt += 2
			i++
			if i%20 == 0 {
				b.WriteByte('\n')
			}
		}
		for cnt < n {
			b.WriteString("1 ")
			cnt++
		}
	}
	return b.String()
}

var sweepPrevSQL string
var sweepTick int
var sweepDisturbers = []string{"\t\t'abc", "SELECT a,\n  b\nFROM t\nWHERE x = 'y'\n\n\n", "SELECT 1;\n\n\t\tSELECT \"q", "/* c */ SELECT\n\n\n\n\n\n\n\n'x"}

func errSweepOne(id, sql, class string, big bool, reps int, only []string) sweepOut {
	t0 := time.Now()
	defer func() {
		if !big && len(sql) < 4096 {
			sweepPrevSQL = sql
		}
	}()
	out := sweepOut{ID: id, Class: class, Bytes: len(sql)}
	lines := strings.Split(sql, "\n")
	out.NLines = len(lines)
	if len(lines) <= 64 {
		for _, l := range lines {
			// upper bound of the columns of the line: the tokenizer counts a tab as 4 columns, a multi-byte rune as 1
			out.LineLen = append(out.LineLen, len(l)+3*strings.Count(l, "\t"))
		}
	}
	// stage: who rejects it
	{
		tk, _ := tokenizer.New()
		toks, err := tk.Tokenize([]byte(sql))
		switch {
		case err != nil:
			out.Stage = "lexical"
		default:
			if _, cerr := parser.VerifConvertModelTokens(toks); cerr != nil {
				out.Stage = "convert"
			} else if _, perr := parser.NewParser().ParseFromModelTokens(toks); perr != nil {
				out.Stage = "grammar"
			} else {
				out.Stage = "accepted"
			}
		}
	}
	for _, ep := range errEntryPoints(big) {
		if len(only) > 0 {
			keep := false
			for _, n := range only {
				if n == ep.name {
					keep = true
				}
			}
			if !keep {
				continue
			}
		}
		var runs [][]error
		var pan string
		for r := 0; r < reps; r++ {
			var es []error
			if r == 1 {
				// between the repeated calls the same entry point runs on other inputs: pooled tokenizers and
				// parsers then carry another input's history into the repeat ("the same input always produces the
				// same code, message and location" must hold on warm pools too)
				sweepTick++
				d := sweepDisturbers[sweepTick%len(sweepDisturbers)]
				if sweepTick%2 == 0 && sweepPrevSQL != "" {
					d = sweepPrevSQL
				}
				guarded(func() { ep.run(d) })
			}
			p := guarded(func() { es = ep.run(sql) })
			if p != "" {
				pan = p
				break
			}
			runs = append(runs, es)
		}
		if pan != "" {
			out.EPs = append(out.EPs, epObs{Name: ep.name, Failed: true, Panic: trunc(pan, 600)})
			continue
		}
		n := len(runs[0])
		same := true
		for _, r := range runs {
			if len(r) != n {
				same = false
			}
		}
		for i := 0; i < n; i++ {
			if runs[0][i] == nil {
				continue
			}
			o := observe(runs[0][i])
			s3 := same
			for _, r := range runs[1:] {
				if i >= len(r) || !sameObs(o, observe(r[i])) {
					s3 = false
				}
			}
			out.EPs = append(out.EPs, epObs{Name: ep.name, Failed: true, Obs: o, Same3: s3, Index: i})
		}
		if !same {
			out.EPs = append(out.EPs, epObs{Name: ep.name + "#count", Failed: true, Same3: false})
		}
	}
	out.Ms = time.Since(t0).Milliseconds()
	return out
}

// ---- C11: counting context -------------------------------------------------------------------------------

type countCtx struct {
	polls   int
	doneAt  int // Err() returns err from the doneAt-th call on (0-based); -1: never
	err     error
	onPoll  func(i int)
	doneCh  chan struct{}
	firstAt int // index of the first poll that returned the error
}

func newCountCtx(doneAt int, err error) *countCtx {
	return &countCtx{doneAt: doneAt, err: err, doneCh: make(chan struct{}), firstAt: -1}
}
func (c *countCtx) Deadline() (time.Time, bool)       { return time.Time{}, false }
func (c *countCtx) Done() <-chan struct{}             { return c.doneCh }
func (c *countCtx) Value(key interface{}) interface{} { return nil }
func (c *countCtx) Err() error {
	i := c.polls
	c.polls++
	if c.onPoll != nil {
		c.onPoll(i)
	}
	if c.doneAt >= 0 && i >= c.doneAt {
		if c.firstAt < 0 {
			c.firstAt = i
		}
		return c.err
	}
	return nil
}

type ctxRun struct {
	K          int    `json:"k"`
	Kind       string `json:"kind"` // canceled | deadline
	TreeNil    bool   `json:"tree_nil"`
	ErrNil     bool   `json:"err_nil"`
	Is         bool   `json:"is"`
	IsOther    bool   `json:"is_other"` // matches the other context error too (must not)
	Obs        errObs `json:"obs"`
	PollsAfter int    `json:"polls_after"` // polls made after the first one that reported done
	WorkAfter  int    `json:"work_after"`  // cursor (parser) / byte offset (tokenizer) advance after that poll
	Panic      string `json:"panic,omitempty"`
	ReuseSame  bool   `json:"reuse_same"`         // same instance, same input, uncancelled afterwards = uncancelled result
	ProbeSame  bool   `json:"probe_same"`         // same instance, probe input = fresh-instance result
	StateClean bool   `json:"state_clean"`        // parser: no context kept, depth 0
	PoolDup    string `json:"pool_dup,omitempty"` // a pool hands one object to two holders after this call (released twice)
	Result     string `json:"result"`             // hash of trees/tokens when a result came back
}

type ctxEP struct {
	Name           string   `json:"name"`
	Polls          int      `json:"polls"`
	PollWork       []int    `json:"poll_work,omitempty"` // cursor / byte offset at each poll of the uncancelled run
	TotalWork      int      `json:"total_work"`
	MaxGap         int      `json:"max_gap"`
	FreeSame       bool     `json:"free_same"` // uncancelled run under the counting context = context-free call
	FreeOK         bool     `json:"free_ok"`   // the context-free call succeeded
	FreeRes        string   `json:"free_res"`
	LateCancelRan  bool     `json:"late_cancel_ran,omitempty"`
	LateCancelSame bool     `json:"late_cancel_same"` // context cancelled after the call returned: later context-free calls unaffected
	Runs           []ctxRun `json:"runs"`
	Skipped        string   `json:"skipped,omitempty"`
}

type ctxOut struct {
	ID    string  `json:"id"`
	NTok  int     `json:"ntok"`
	Bytes int     `json:"bytes"`
	EPs   []ctxEP `json:"eps"`
	Ms    int64   `json:"ms"`
}

func tokHash(toks []models.TokenWithSpan) string {
	var b strings.Builder
	for _, t := range toks {
		fmt.Fprintf(&b, "%d|%s|%d:%d-%d:%d;", t.Token.Type, t.Token.Value, t.Start.Line, t.Start.Column, t.End.Line, t.End.Column)
	}
	return hashOf(b.String())
}

func resHash(a *ast.AST, err error) string {
	if err != nil {
		o := observe(err)
		return "E:" + o.AsCode + ":" + hashOf(o.full)
	}
	if a == nil {
		return "nil"
	}
	var b strings.Builder
	for _, s := range a.Statements {
		b.WriteString(hashOf(dump(s)))
		b.WriteByte(',')
	}
	return "T:" + b.String()
}

const probeSQL = "SELECT a, b FROM t WHERE a IN (1, 2) AND b = 'x'"

var ctxKinds = []struct {
	name string
	err  error
	oth  error
}{{"canceled", context.Canceled, context.DeadlineExceeded}, {"deadline", context.DeadlineExceeded, context.Canceled}}

func ctxSweepOne(id, sql string, maxK int) ctxOut {
	t0 := time.Now()
	out := ctxOut{ID: id, Bytes: len(sql)}
	// ---- tokenizer
	{
		ep := ctxEP{Name: "Tokenizer.TokenizeContext"}
		tkF, _ := tokenizer.New()
		freeToks, freeErr := tkF.Tokenize([]byte(sql))
		ep.FreeOK = freeErr == nil
		free := "E:" + observe(freeErr).AsCode
		if freeErr == nil {
			free = tokHash(freeToks)
			out.NTok = len(freeToks)
		}
		ep.FreeRes = free
		tk, _ := tokenizer.New()
		cc := newCountCtx(-1, nil)
		cc.onPoll = func(i int) { ep.PollWork = append(ep.PollWork, tk.VerifState().PosIndex) }
		toks, err := tk.TokenizeContext(cc, []byte(sql))
		got := "E:" + observe(err).AsCode
		if err == nil {
			got = tokHash(toks)
		}
		ep.Polls = cc.polls
		ep.FreeSame = got == free
		ep.TotalWork = len(sql)
		probeTk, _ := tokenizer.New()
		probeToks, _ := probeTk.Tokenize([]byte(probeSQL))
		probeWant := tokHash(probeToks)
		for k := 0; k < cc.polls && k < maxK; k++ {
			for _, kd := range ctxKinds {
				r := ctxRun{K: k, Kind: kd.name}
				tk2, _ := tokenizer.New()
				c2 := newCountCtx(k, kd.err)
				at := -1
				c2.onPoll = func(i int) {
					if i == k {
						at = tk2.VerifState().PosIndex
					}
				}
				var t2 []models.TokenWithSpan
				var e2 error
				r.Panic = trunc(guarded(func() { t2, e2 = tk2.TokenizeContext(c2, []byte(sql)) }), 400)
				r.TreeNil = t2 == nil
				r.ErrNil = e2 == nil
				r.Is = e2 != nil && errors.Is(e2, kd.err)
				r.IsOther = e2 != nil && errors.Is(e2, kd.oth)
				r.Obs = observe(e2)
				r.PollsAfter = c2.polls - (k + 1)
				if at >= 0 {
					r.WorkAfter = tk2.VerifState().PosIndex - at
				}
				if t2 != nil {
					r.Result = tokHash(t2)
				}
				// reuse: same instance, same input, no context
				t3, e3 := tk2.Tokenize([]byte(sql))
				g3 := "E:" + observe(e3).AsCode
				if e3 == nil {
					g3 = tokHash(t3)
				}
				r.ReuseSame = g3 == free
				t4, e4 := tk2.Tokenize([]byte(probeSQL))
				r.ProbeSame = e4 == nil && tokHash(t4) == probeWant
				r.StateClean = true
				ep.Runs = append(ep.Runs, r)
			}
		}
		for i := range ep.PollWork {
			prev := 0
			if i > 0 {
				prev = ep.PollWork[i-1]
			}
			if g := ep.PollWork[i] - prev; g > ep.MaxGap {
				ep.MaxGap = g
			}
		}
		out.EPs = append(out.EPs, ep)
		if freeErr != nil {
			// the parser entry points need tokens
			gp := ctxSweepGosqlx(sql, maxK)
			out.EPs = append(out.EPs, gp)
			out.Ms = time.Since(t0).Milliseconds()
			return out
		}
	}
	// ---- parser (low-level API, the harness holds the instance)
	{
		ep := ctxEP{Name: "Parser.ParseContextFromModelTokens"}
		tk, _ := tokenizer.New()
		toks, _ := tk.Tokenize([]byte(sql))
		pf := parser.NewParser()
		fa, fe := pf.ParseFromModelTokens(toks)
		free := resHash(fa, fe)
		ep.FreeOK = fe == nil
		ep.FreeRes = free
		p := parser.NewParser()
		cc := newCountCtx(-1, nil)
		cc.onPoll = func(i int) { ep.PollWork = append(ep.PollWork, p.VerifState().Pos) }
		a, err := p.ParseContextFromModelTokens(cc, toks)
		ep.Polls = cc.polls
		ep.FreeSame = resHash(a, err) == free
		ep.TotalWork = p.VerifState().Pos // where the cursor stopped (a rejected input stops early)
		if ep.TotalWork > len(toks) {
			ep.TotalWork = len(toks)
		}
		probeTk, _ := tokenizer.New()
		probeToks, _ := probeTk.Tokenize([]byte(probeSQL))
		pa, pe := parser.NewParser().ParseFromModelTokens(probeToks)
		probeWant := resHash(pa, pe)
		// a context that fires only AFTER the call has returned (the usual `defer cancel()`): whatever the call
		// returned (a tree or a syntax error), the parser must not keep the context, so later context-free calls on
		// the same instance behave like calls on a new one
		{
			lp := parser.NewParser()
			lctx, lcancel := context.WithCancel(context.Background())
			_, _ = lp.ParseContextFromModelTokens(lctx, toks)
			lcancel()
			a5, e5 := lp.ParseFromModelTokens(probeToks)
			ep.LateCancelSame = resHash(a5, e5) == probeWant
			a6, e6 := lp.ParseFromModelTokens(toks)
			ep.LateCancelSame = ep.LateCancelSame && resHash(a6, e6) == free
			ep.LateCancelRan = true
		}
		for k := 0; k < cc.polls && k < maxK; k++ {
			for _, kd := range ctxKinds {
				r := ctxRun{K: k, Kind: kd.name}
				p2 := parser.NewParser()
				c2 := newCountCtx(k, kd.err)
				at := -1
				c2.onPoll = func(i int) {
					if i == k {
						at = p2.VerifState().Pos
					}
				}
				var a2 *ast.AST
				var e2 error
				r.Panic = trunc(guarded(func() { a2, e2 = p2.ParseContextFromModelTokens(c2, toks) }), 400)
				r.TreeNil = a2 == nil
				r.ErrNil = e2 == nil
				r.Is = e2 != nil && errors.Is(e2, kd.err)
				r.IsOther = e2 != nil && errors.Is(e2, kd.oth)
				r.Obs = observe(e2)
				r.PollsAfter = c2.polls - (k + 1)
				st := p2.VerifState()
				if at >= 0 {
					r.WorkAfter = st.Pos - at
				}
				r.StateClean = !st.HasCtx && st.Depth == 0
				if a2 != nil {
					r.Result = resHash(a2, nil)
				}
				r.PoolDup = astPoolHandsOutDuplicates()
				a3, e3 := p2.ParseFromModelTokens(toks)
				r.ReuseSame = resHash(a3, e3) == free
				a4, e4 := p2.ParseFromModelTokens(probeToks)
				r.ProbeSame = resHash(a4, e4) == probeWant
				ep.Runs = append(ep.Runs, r)
			}
		}
		for i := range ep.PollWork {
			prev := 0
			if i > 0 {
				prev = ep.PollWork[i-1]
			}
			if g := ep.PollWork[i] - prev; g > ep.MaxGap {
				ep.MaxGap = g
			}
		}
		if n := len(ep.PollWork); n > 0 {
			if g := ep.TotalWork - ep.PollWork[n-1]; g > ep.MaxGap {
				ep.MaxGap = g
			}
		}
		out.EPs = append(out.EPs, ep)
	}
	out.EPs = append(out.EPs, ctxSweepGosqlx(sql, maxK))
	out.Ms = time.Since(t0).Milliseconds()
	return out
}

func ctxSweepGosqlx(sql string, maxK int) ctxEP {
	ep := ctxEP{Name: "gosqlx.ParseWithContext"}
	fa, fe := gosqlx.Parse(sql)
	free := resHash(fa, fe)
	ep.FreeOK = fe == nil
	ep.FreeRes = free
	cc := newCountCtx(-1, nil)
	a, err := gosqlx.ParseWithContext(cc, sql)
	ep.Polls = cc.polls
	ep.FreeSame = resHash(a, err) == free
	pa, pe := gosqlx.Parse(probeSQL)
	probeWant := resHash(pa, pe)
	for k := 0; k < cc.polls && k < maxK; k++ {
		for _, kd := range ctxKinds {
			r := ctxRun{K: k, Kind: kd.name}
			c2 := newCountCtx(k, kd.err)
			var a2 *ast.AST
			var e2 error
			r.Panic = trunc(guarded(func() { a2, e2 = gosqlx.ParseWithContext(c2, sql) }), 400)
			r.TreeNil = a2 == nil
			r.ErrNil = e2 == nil
			r.Is = e2 != nil && errors.Is(e2, kd.err)
			r.IsOther = e2 != nil && errors.Is(e2, kd.oth)
			r.Obs = observe(e2)
			r.PollsAfter = c2.polls - (k + 1)
			r.StateClean = true
			if a2 != nil {
				r.Result = resHash(a2, nil)
			}
			r.PoolDup = poolHandsOutDuplicates()
			// pooled tokenizer / parser instances are reused by the next calls
			a3, e3 := gosqlx.Parse(sql)
			r.ReuseSame = resHash(a3, e3) == free
			a4, e4 := gosqlx.Parse(probeSQL)
			r.ProbeSame = resHash(a4, e4) == probeWant
			ep.Runs = append(ep.Runs, r)
		}
	}
	return ep
}

func init() {
	subcmds["errsweep"] = func(args []string) int {
		reps := 3
		sc := bufio.NewScanner(os.Stdin)
		sc.Buffer(make([]byte, 1<<20), 256<<20)
		w := bufio.NewWriter(os.Stdout)
		defer w.Flush()
		enc := json.NewEncoder(w)
		enc.SetEscapeHTML(false)
		for sc.Scan() {
			var in struct {
				ID    string `json:"id"`
				SQL   string `json:"sql"`
				Class string `json:"class"`
				Gen   *struct {
					Kind string `json:"kind"`
					N    int    `json:"n"`
				} `json:"gen"`
				Big  bool     `json:"big"`
				Only []string `json:"only"` // restrict to these entry points (very large inputs in the quick tier)
			}
			if json.Unmarshal(sc.Bytes(), &in) != nil {
				continue
			}
			sql := in.SQL
			if in.Gen != nil {
				sql = genInput(in.Gen.Kind, in.Gen.N)
				in.Big = true
			}
			_ = enc.Encode(errSweepOne(in.ID, sql, in.Class, in.Big, reps, in.Only))
			w.Flush()
		}
		return 0
	}
	subcmds["ctxsweep"] = func(args []string) int {
		sc := bufio.NewScanner(os.Stdin)
		sc.Buffer(make([]byte, 1<<20), 256<<20)
		w := bufio.NewWriter(os.Stdout)
		defer w.Flush()
		enc := json.NewEncoder(w)
		enc.SetEscapeHTML(false)
		for sc.Scan() {
			var in struct {
				ID   string `json:"id"`
				SQL  string `json:"sql"`
				MaxK int    `json:"max_k"`
			}
			if json.Unmarshal(sc.Bytes(), &in) != nil {
				continue
			}
			if in.MaxK == 0 {
				in.MaxK = 1 << 30
			}
			_ = enc.Encode(ctxSweepOne(in.ID, in.SQL, in.MaxK))
			w.Flush()
		}
		return 0
	}
	// ctxtimeout: gosqlx.ParseWithTimeout with an already expired deadline
	subcmds["ctxtimeout"] = func(args []string) int {
		sc := bufio.NewScanner(os.Stdin)
		sc.Buffer(make([]byte, 1<<20), 64<<20)
		for sc.Scan() {
			var in struct {
				ID  string `json:"id"`
				SQL string `json:"sql"`
			}
			if json.Unmarshal(sc.Bytes(), &in) != nil {
				continue
			}
			a, err := gosqlx.ParseWithTimeout(in.SQL, -time.Second)
			ctx, cancel := context.WithCancel(context.Background())
			cancel()
			a2, err2 := gosqlx.ParseWithContext(ctx, in.SQL)
			emitJSON(map[string]interface{}{"id": in.ID, "tree_nil": a == nil, "is_deadline": err != nil && errors.Is(err, context.DeadlineExceeded),
				"cancel_tree_nil": a2 == nil, "is_canceled": err2 != nil && errors.Is(err2, context.Canceled)})
		}
		return 0
	}
}
