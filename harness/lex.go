package main

// C04 (and C05/C01) lexer harness.
//   vh lextables           : JSON dump of the tokenizer's lexical tables (token type numbers, keyword maps through the
//                            verif hook, rune classes as maximal ranges of the tokenizer's own predicates, upper-casing
//                            exceptions of strings.ToUpper that reach ASCII, limits, error codes)
//   vh lex [noparse]       : stdin = one hex-encoded input per line; stdout = one JSON object per line with the
//                            canonical number list of the Tokenize result (same flattening as Model/Lexer.v canon),
//                            whether TokenizeContext(Background) gives the same, the converted token stream and the parse

import (
	"bufio"
	"context"
	"encoding/hex"
	"os"
	"sort"
	"strconv"
	"strings"
	"unicode"

	goerrors "github.com/ajitpratap0/GoSQLX/pkg/errors"
	"github.com/ajitpratap0/GoSQLX/pkg/models"
	"github.com/ajitpratap0/GoSQLX/pkg/sql/parser"
	"github.com/ajitpratap0/GoSQLX/pkg/sql/tokenizer"
)

func codeNum(code string) int {
	if len(code) > 1 && code[0] == 'E' {
		if n, err := strconv.Atoi(code[1:]); err == nil {
			return n
		}
	}
	return -1
}

func ranges(pred func(rune) bool) [][2]int {
	var out [][2]int
	start := -1
	for r := 0; r <= unicode.MaxRune+1; r++ {
		in := r <= unicode.MaxRune && pred(rune(r))
		if in && start < 0 {
			start = r
		}
		if !in && start >= 0 {
			out = append(out, [2]int{start, r - 1})
			start = -1
		}
	}
	return out
}

type kwEntry struct {
	Key  string `json:"key"` // hex
	Text string `json:"text"`
	Type int    `json:"type"`
}

func kwList(m map[string]models.TokenType) []kwEntry {
	var out []kwEntry
	for k, v := range m {
		out = append(out, kwEntry{Key: hex.EncodeToString([]byte(k)), Text: k, Type: int(v)})
	}
	sort.Slice(out, func(i, j int) bool { return out[i].Text < out[j].Text })
	return out
}

func lexTables() map[string]interface{} {
	tt := map[string]int{
		"EOF": int(models.TokenTypeEOF), "Number": int(models.TokenTypeNumber), "Identifier": int(models.TokenTypeIdentifier),
		"Placeholder": int(models.TokenTypePlaceholder), "Keyword": int(models.TokenTypeKeyword),
		"String": int(models.TokenTypeString), "SingleQuotedString": int(models.TokenTypeSingleQuotedString),
		"DoubleQuotedString":       int(models.TokenTypeDoubleQuotedString),
		"TripleSingleQuotedString": int(models.TokenTypeTripleSingleQuotedString),
		"TripleDoubleQuotedString": int(models.TokenTypeTripleDoubleQuotedString),
		"DollarQuotedString":       int(models.TokenTypeDollarQuotedString),
		"LeftParen":                int(models.TokenTypeLeftParen), "RightParen": int(models.TokenTypeRightParen),
		"LBracket": int(models.TokenTypeLBracket), "RBracket": int(models.TokenTypeRBracket),
		"Comma": int(models.TokenTypeComma), "Semicolon": int(models.TokenTypeSemicolon), "Dot": int(models.TokenTypeDot),
		"Plus": int(models.TokenTypePlus), "Minus": int(models.TokenTypeMinus), "LongArrow": int(models.TokenTypeLongArrow),
		"Arrow": int(models.TokenTypeArrow), "Mul": int(models.TokenTypeMul), "Div": int(models.TokenTypeDiv),
		"RArrow": int(models.TokenTypeRArrow), "Eq": int(models.TokenTypeEq), "LtEq": int(models.TokenTypeLtEq),
		"Neq": int(models.TokenTypeNeq), "ArrowAt": int(models.TokenTypeArrowAt), "Lt": int(models.TokenTypeLt),
		"GtEq": int(models.TokenTypeGtEq), "Gt": int(models.TokenTypeGt),
		"ExclamationMarkTildeAsterisk": int(models.TokenTypeExclamationMarkTildeAsterisk),
		"ExclamationMarkTilde":         int(models.TokenTypeExclamationMarkTilde),
		"ExclamationMark":              int(models.TokenTypeExclamationMark),
		"DoubleColon":                  int(models.TokenTypeDoubleColon), "Colon": int(models.TokenTypeColon), "Mod": int(models.TokenTypeMod),
		"StringConcat": int(models.TokenTypeStringConcat), "Pipe": int(models.TokenTypePipe),
		"Overlap": int(models.TokenTypeOverlap), "Ampersand": int(models.TokenTypeAmpersand),
		"AtArrow": int(models.TokenTypeAtArrow), "AtAt": int(models.TokenTypeAtAt), "AtSign": int(models.TokenTypeAtSign),
		"HashLongArrow": int(models.TokenTypeHashLongArrow), "HashArrow": int(models.TokenTypeHashArrow),
		"HashMinus": int(models.TokenTypeHashMinus), "Sharp": int(models.TokenTypeSharp),
		"QuestionPipe": int(models.TokenTypeQuestionPipe), "QuestionAnd": int(models.TokenTypeQuestionAnd),
		"Question": int(models.TokenTypeQuestion), "TildeAsterisk": int(models.TokenTypeTildeAsterisk),
		"Tilde": int(models.TokenTypeTilde),
	}
	codes := map[string]int{
		"UnexpectedChar":      codeNum(string(goerrors.ErrCodeUnexpectedChar)),
		"UnterminatedString":  codeNum(string(goerrors.ErrCodeUnterminatedString)),
		"InvalidNumber":       codeNum(string(goerrors.ErrCodeInvalidNumber)),
		"InputTooLarge":       codeNum(string(goerrors.ErrCodeInputTooLarge)),
		"TokenLimitReached":   codeNum(string(goerrors.ErrCodeTokenLimitReached)),
		"TokenizerPanic":      codeNum(string(goerrors.ErrCodeTokenizerPanic)),
		"InvalidSyntax":       codeNum(string(goerrors.ErrCodeInvalidSyntax)),
		"IncompleteStatement": codeNum(string(goerrors.ErrCodeIncompleteStatement)),
	}
	// runes whose strings.ToUpper image is ASCII although they are not (they can spell an ASCII keyword)
	var upperSpecial [][2]int
	for r := rune(128); r <= unicode.MaxRune; r++ {
		if u := unicode.ToUpper(r); u < 128 {
			upperSpecial = append(upperSpecial, [2]int{int(r), int(u)})
		}
	}
	starts := tokenizer.VerifCompoundKeywordStarts()
	sort.Strings(starts)
	var startsHex []kwEntry
	for _, s := range starts {
		startsHex = append(startsHex, kwEntry{Key: hex.EncodeToString([]byte(s)), Text: s})
	}
	quotes := [][2]int{}
	for r := rune(0); r <= unicode.MaxRune; r++ {
		if n := tokenizer.VerifNormalizeQuote(r); n != r {
			quotes = append(quotes, [2]int{int(r), int(n)})
		}
	}
	return map[string]interface{}{
		"tt": tt, "codes": codes,
		"keywords":        kwList(tokenizer.VerifKeywordTypes()),
		"compound":        kwList(tokenizer.VerifCompoundKeywordTypes()),
		"compound_starts": startsHex,
		"ident_start":     ranges(tokenizer.VerifIsIdentifierStart),
		"ident_part":      ranges(tokenizer.VerifIsIdentifierChar),
		"unicode_quote":   ranges(tokenizer.VerifIsUnicodeQuote),
		"normalize_quote": quotes,
		"upper_special":   upperSpecial,
		"max_input":       tokenizer.MaxInputSize,
		"max_tokens":      tokenizer.MaxTokens,
	}
}

// canonOf flattens a tokenizer result exactly like Model/Lexer.v [canon]:
//
//	success: 0 ntok (type quote sl sc el ec len bytes...)* ncom (style inline sl sc el ec len bytes...)*
//	error:   1 code line col
func canonOf(toks []models.TokenWithSpan, comments []models.Comment, err error) []int {
	if err != nil {
		ei := infoOf(err)
		return []int{1, codeNum(ei.Code), ei.Line, ei.Col}
	}
	out := []int{0, len(toks)}
	for _, t := range toks {
		out = append(out, int(t.Token.Type), int(t.Token.Quote), t.Start.Line, t.Start.Column, t.End.Line, t.End.Column, len(t.Token.Value))
		for i := 0; i < len(t.Token.Value); i++ {
			out = append(out, int(t.Token.Value[i]))
		}
	}
	out = append(out, len(comments))
	for _, c := range comments {
		inl := 0
		if c.Inline {
			inl = 1
		}
		out = append(out, int(c.Style), inl, c.Start.Line, c.Start.Column, c.End.Line, c.End.Column, len(c.Text))
		for i := 0; i < len(c.Text); i++ {
			out = append(out, int(c.Text[i]))
		}
	}
	return out
}

func eqInts(a, b []int) bool {
	if len(a) != len(b) {
		return false
	}
	for i := range a {
		if a[i] != b[i] {
			return false
		}
	}
	return true
}

type lexOut struct {
	C       []int    `json:"c"`
	CtxSame bool     `json:"ctx_same"`
	Pooled  bool     `json:"pooled_same"`
	Panic   string   `json:"panic,omitempty"`
	Conv    []string `json:"conv,omitempty"` // "type:hexliteral" per converted token
	ConvErr bool     `json:"conv_err,omitempty"`
	ParseOK bool     `json:"parse_ok"`
	Trees   []string `json:"trees,omitempty"`
	PErr    string   `json:"perr,omitempty"`
	Dumps   []string `json:"dumps,omitempty"`
}

var lexWantDumps bool

var lexPriorN int
var lexPriors = []string{
	"SELECT 'x' -- c\n/* d */ FROM \"t\"",
	"SELECT 'abc",
	"SELECT 'a\\q' FROM t",
	"SELECT 'ends with backslash\\",
	"SELECT \"unterminated ident",
	"SELECT $tag$ abc",
	"SELECT 1 /* open comment",
	"SELECT `back",
	"SELECT 1e FROM t",
	"SELECT '''triple",
	"SELECT N'nat",
}

func lexOne(in []byte, doParse bool) lexOut {
	var o lexOut
	var toks []models.TokenWithSpan
	o.Panic = guarded(func() {
		tk, _ := tokenizer.New()
		var err error
		toks, err = tk.Tokenize(in)
		o.C = canonOf(toks, tk.Comments, err)
		tk2, _ := tokenizer.New()
		toks2, err2 := tk2.TokenizeContext(context.Background(), in)
		o.CtxSame = eqInts(o.C, canonOf(toks2, tk2.Comments, err2))
		// a pooled, previously used instance must read the text the same way
		tk3 := tokenizer.GetTokenizer()
		// the earlier use is a successful run or a run that failed inside a literal, a quoted identifier, a dollar
		// string, a comment, an escape or a number (whatever a failed run leaves behind must not leak into this one)
		lexPriorN++
		_, _ = tk3.Tokenize([]byte(lexPriors[lexPriorN%len(lexPriors)]))
		toks3, err3 := tk3.Tokenize(in)
		o.Pooled = eqInts(o.C, canonOf(toks3, tk3.Comments, err3))
		tokenizer.PutTokenizer(tk3)
		if err != nil {
			toks = nil
		}
	})
	if o.Panic != "" || toks == nil {
		return o
	}
	o.Panic = guarded(func() {
		conv, err := parser.VerifConvertModelTokens(toks)
		if err != nil {
			o.ConvErr = true
			return
		}
		for _, c := range conv {
			o.Conv = append(o.Conv, strconv.Itoa(int(c.Type))+":"+hex.EncodeToString([]byte(c.Literal)))
		}
		if doParse {
			p := parser.NewParser()
			tree, perr := p.ParseFromModelTokens(toks)
			if perr != nil {
				o.PErr = infoOf(perr).Code
			} else {
				o.ParseOK = true
				o.Trees = astHashes(tree)
				if lexWantDumps && tree != nil {
					for _, st := range tree.Statements {
						o.Dumps = append(o.Dumps, dump(st))
					}
				}
			}
		}
	})
	return o
}

func init() {
	subcmds["lextables"] = func(args []string) int {
		emitJSON(lexTables())
		return 0
	}
	subcmds["lex"] = func(args []string) int {
		doParse := !(len(args) > 0 && args[0] == "noparse")
		lexWantDumps = len(args) > 0 && args[0] == "dump"
		sc := bufio.NewScanner(os.Stdin)
		sc.Buffer(make([]byte, 1<<20), 1<<28)
		w := bufio.NewWriter(os.Stdout)
		defer w.Flush()
		for sc.Scan() {
			line := strings.TrimSpace(sc.Text())
			in, err := hex.DecodeString(line)
			if err != nil {
				return 2
			}
			o := lexOne(in, doParse)
			w.Flush()
			emitJSON(o)
		}
		return 0
	}
}
