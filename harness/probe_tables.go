package main

import (
	"fmt"
	"reflect"
	"runtime"
	"sort"

	"github.com/ajitpratap0/GoSQLX/pkg/sql/ast"
)

// ---------------------------------------------------------------------------------------------
// Children() probe

type childRow struct {
	Type       string `json:"type"`
	Path       string `json:"path"`
	Leaf       string `json:"leaf"`
	Planted    bool   `json:"planted"`
	Emitted    bool   `json:"emitted"`     // sentinel came back when planted alone
	EmittedAll bool   `json:"emitted_all"` // sentinel came back when all slots were planted at once
	Why        string `json:"why,omitempty"`
}

type childType struct {
	Type          string `json:"type"`
	ValueReceiver bool   `json:"value_receiver"` // T (not only *T) implements Node
	ZeroPanics    string `json:"zero_panics,omitempty"`
	ZeroTypedNil  int    `json:"zero_typed_nil"`  // typed-nil pointers emitted by Children() of the zero value
	ZeroNilIface  int    `json:"zero_nil_iface"`  // nil interfaces emitted by the zero value
	NilRecvPanics bool   `json:"nil_recv_panics"` // Children() on a nil *T panics
	Extra         int    `json:"extra"`           // children returned (all planted) that match no planted sentinel and are not nil
	Paths         int    `json:"paths"`
}

type childTables struct {
	Types []childType `json:"types"`
	Rows  []childRow  `json:"rows"`
}

func probeChildren() childTables {
	var res childTables
	for _, t := range nodeTypes {
		ct := childType{Type: t.Name(), ValueReceiver: t.Implements(nodeIface)}
		paths := dnd(t)
		ct.Paths = len(paths)
		// zero value
		z := reflect.New(t)
		kids, pan := safeChildren(z.Interface().(ast.Node))
		ct.ZeroPanics = pan
		for _, k := range kids {
			if k == nil {
				ct.ZeroNilIface++
			} else if isTypedNil(k) {
				ct.ZeroTypedNil++
			}
		}
		// nil receiver
		func() {
			defer func() {
				if r := recover(); r != nil {
					ct.NilRecvPanics = true
				}
			}()
			nz := reflect.Zero(reflect.PointerTo(t)).Interface().(ast.Node)
			_ = nz.Children()
		}()
		// one access path at a time (two elements in slice-valued slots)
		for i, p := range paths {
			inst := reflect.New(t)
			var pls []planted
			pls = append(pls, plant(inst.Elem(), p, fmt.Sprintf("SENTINEL_%s_%d", t.Name(), i), 0))
			if p.hasSlice() && pls[0].OK {
				pls = append(pls, plant(inst.Elem(), p, fmt.Sprintf("SENTINEL_%s_%d_b", t.Name(), i), 1))
			}
			row := childRow{Type: t.Name(), Path: p.String(), Leaf: p.Leaf, Planted: pls[0].OK, Why: pls[0].Why}
			if pls[0].OK {
				kids, pan := safeChildren(inst.Interface().(ast.Node))
				if pan != "" {
					row.Why = "panic: " + pan
				}
				row.Emitted = true
				for _, pl := range pls {
					n := 0
					for _, k := range kids {
						if pl.OK && pl.matches(k) {
							n++
						}
					}
					if n != 1 {
						row.Emitted = false
						if n > 1 {
							row.Why = "emitted more than once"
						}
					}
				}
			}
			// an interface-typed slot: every concrete node type that fits must be returned as well (a type switch or an
			// interface assertion inside Children() that lets some kinds of statements / expressions through only)
			if row.Emitted && p.Leaf == leafIface {
				for _, nt := range nodeTypes {
					plantConcrete = nt
					inst2 := reflect.New(t)
					pl2 := plant(inst2.Elem(), p, fmt.Sprintf("SENTINEL_%s_%d_%s", t.Name(), i, nt.Name()), 0)
					plantConcrete = nil
					if !pl2.OK {
						continue
					}
					kids2, pan2 := safeChildren(inst2.Interface().(ast.Node))
					n := 0
					for _, k := range kids2 {
						if pl2.matches(k) {
							n++
						}
					}
					if n != 1 || pan2 != "" {
						row.Emitted = false
						row.Why = fmt.Sprintf("not returned exactly once (%d times) when the slot holds a *%s", n, nt.Name())
						if pan2 != "" {
							row.Why = "panic when the slot holds a *" + nt.Name() + ": " + pan2
						}
						break
					}
				}
			}
			// Children() must not depend on the scalar fields of the node (a kind / type discriminant, a flag): with
			// every exported integer-kinded or boolean field set to each of a range of values, a planted node is still
			// returned exactly once
			if row.Emitted {
				for fi := 0; fi < t.NumField() && row.Emitted; fi++ {
					sf := t.Field(fi)
					if !sf.IsExported() {
						continue
					}
					var vals []int64
					switch sf.Type.Kind() {
					case reflect.Int, reflect.Int8, reflect.Int16, reflect.Int32, reflect.Int64, reflect.Uint, reflect.Uint8, reflect.Uint16, reflect.Uint32:
						for v := int64(0); v < 48; v++ {
							vals = append(vals, v)
						}
					case reflect.Bool:
						vals = []int64{0, 1}
					default:
						continue
					}
					for _, v := range vals {
						inst2 := reflect.New(t)
						f2 := inst2.Elem().Field(fi)
						if f2.Kind() == reflect.Bool {
							f2.SetBool(v == 1)
						} else if f2.CanInt() {
							f2.SetInt(v)
						} else {
							f2.SetUint(uint64(v))
						}
						pl2 := plant(inst2.Elem(), p, fmt.Sprintf("SENTINEL_%s_%d_d%d", t.Name(), i, v), 0)
						if !pl2.OK {
							break
						}
						kids2, pan2 := safeChildren(inst2.Interface().(ast.Node))
						n := 0
						for _, k := range kids2 {
							if pl2.matches(k) {
								n++
							}
						}
						if n != 1 || pan2 != "" {
							row.Emitted = false
							row.Why = fmt.Sprintf("not returned exactly once (%d times) when field %s = %d", n, sf.Name, v)
							break
						}
					}
				}
			}
			res.Rows = append(res.Rows, row)
		}
		// all at once
		inst := reflect.New(t)
		var pls []planted
		for i, p := range paths {
			pls = append(pls, plant(inst.Elem(), p, fmt.Sprintf("SENTINEL_%s_%d", t.Name(), i), 0))
		}
		kids, _ = safeChildren(inst.Interface().(ast.Node))
		matched := make([]bool, len(kids))
		base := len(res.Rows) - len(paths)
		for i, pl := range pls {
			if !pl.OK {
				continue
			}
			for j, k := range kids {
				if pl.matches(k) {
					res.Rows[base+i].EmittedAll = true
					matched[j] = true
				}
			}
		}
		for j, k := range kids {
			if !matched[j] && k != nil && !isTypedNil(k) && !isZeroNode(k) {
				ct.Extra++
			}
		}
		res.Types = append(res.Types, ct)
	}
	return res
}

// ---------------------------------------------------------------------------------------------
// pool probe

type poolRow struct {
	Pool    string `json:"pool"`
	Via     string `json:"via"` // Put | PutExpression | ReleaseAST
	Field   string `json:"field"`
	Status  string `json:"status"` // zero | len0_clean | len0_dirty | retained
	GetSame bool   `json:"get_same"`
}

// fill sets every exported field of the struct v (addressable) to a non-zero value.
// fillOnly fills exactly one exported field (by name) of a struct and leaves the others zero.
func fillOnly(v reflect.Value, name string) {
	t := v.Type()
	for i := 0; i < t.NumField(); i++ {
		if t.Field(i).IsExported() && t.Field(i).Name == name {
			fillSlot(v.Field(i), 0)
		}
	}
}

// worse merges the status of a field after a release of a fully filled object with its status after a release of
// an object in which only that field was set: a release path that depends on what else the object holds (a fast
// path for "empty" objects) must still clean every field
func worse(full, single string) string {
	clean := func(s string) bool { return s == "zero" || s == "len0_clean" }
	if !clean(full) || clean(single) {
		return full
	}
	return single + " (when only this field is set)"
}

func exportedFields(t reflect.Type) []string {
	var out []string
	for i := 0; i < t.NumField(); i++ {
		if t.Field(i).IsExported() {
			out = append(out, t.Field(i).Name)
		}
	}
	return out
}

func fill(v reflect.Value, depth int) {
	t := v.Type()
	for i := 0; i < t.NumField(); i++ {
		if !t.Field(i).IsExported() {
			continue
		}
		fillSlot(v.Field(i), depth)
	}
}

func fillSlot(f reflect.Value, depth int) {
	switch f.Kind() {
	case reflect.Bool:
		f.SetBool(true)
	case reflect.Int, reflect.Int8, reflect.Int16, reflect.Int32, reflect.Int64:
		f.SetInt(7)
	case reflect.Uint, reflect.Uint8, reflect.Uint16, reflect.Uint32, reflect.Uint64:
		f.SetUint(7)
	case reflect.Float32, reflect.Float64:
		f.SetFloat(7.5)
	case reflect.String:
		f.SetString("live")
	case reflect.Interface:
		if f.Type().Implements(nodeIface) {
			for _, c := range ifaceCandidates("live") {
				if c.Type().AssignableTo(f.Type()) {
					f.Set(c)
					return
				}
			}
			for _, nt := range nodeTypes {
				if reflect.PointerTo(nt).AssignableTo(f.Type()) {
					f.Set(reflect.New(nt))
					return
				}
			}
		} else if f.Type().NumMethod() == 0 {
			f.Set(reflect.ValueOf("live"))
		}
	case reflect.Ptr:
		if depth > 2 {
			return
		}
		nv := reflect.New(f.Type().Elem())
		if nv.Elem().Kind() == reflect.Struct {
			fill(nv.Elem(), depth+1)
		} else {
			fillSlot(nv.Elem(), depth+1)
		}
		f.Set(nv)
	case reflect.Struct:
		if depth > 3 {
			return
		}
		fill(f, depth+1)
	case reflect.Slice:
		if depth > 3 {
			return
		}
		sl := reflect.MakeSlice(f.Type(), 2, 4)
		for i := 0; i < 2; i++ {
			fillSlot(sl.Index(i), depth+1)
		}
		f.Set(sl)
	case reflect.Map:
		// leave maps nil unless trivially fillable
		if f.Type().Key().Kind() == reflect.String && depth <= 3 {
			m := reflect.MakeMap(f.Type())
			ev := reflect.New(f.Type().Elem()).Elem()
			fillSlot(ev, depth+1)
			m.SetMapIndex(reflect.ValueOf("k").Convert(f.Type().Key()), ev)
			f.Set(m)
		}
	}
}

// fieldStatus classifies a field of a (supposedly clean) pooled object.
func fieldStatus(f reflect.Value) string {
	switch f.Kind() {
	case reflect.Slice:
		if f.IsNil() {
			return "zero"
		}
		if f.Len() > 0 {
			return "retained"
		}
		full := f.Slice(0, f.Cap())
		for i := 0; i < full.Len(); i++ {
			if !full.Index(i).IsZero() {
				return "len0_dirty"
			}
		}
		return "len0_clean"
	default:
		if f.IsZero() {
			return "zero"
		}
		return "retained"
	}
}

func statusOf(obj reflect.Value) map[string]string {
	res := map[string]string{}
	t := obj.Type()
	for i := 0; i < t.NumField(); i++ {
		if !t.Field(i).IsExported() {
			continue
		}
		res[t.Field(i).Name] = fieldStatus(obj.Field(i))
	}
	return res
}

func drainPools() {
	runtime.GC()
	runtime.GC()
}

func probePools(putExprCases []string) []poolRow {
	old := runtime.GOMAXPROCS(1)
	defer runtime.GOMAXPROCS(old)
	var rows []poolRow
	emit := func(pool, via string, st map[string]string, same bool) {
		var ks []string
		for k := range st {
			ks = append(ks, k)
		}
		sort.Strings(ks)
		for _, k := range ks {
			rows = append(rows, poolRow{Pool: pool, Via: via, Field: k, Status: st[k], GetSame: same})
		}
	}
	byName := map[string]poolReg{}
	for _, pr := range poolRegs {
		byName[pr.Name] = pr
		drainPools()
		obj := pr.Get()
		ov := reflect.ValueOf(obj)
		fill(ov.Elem(), 0)
		pr.Put(obj)
		st := statusOf(ov.Elem())
		got := pr.Get()
		same := got == obj
		if same {
			st = statusOf(ov.Elem())
		}
		for _, fn := range exportedFields(ov.Elem().Type()) {
			drainPools()
			o2 := pr.Get()
			v2 := reflect.ValueOf(o2)
			fillOnly(v2.Elem(), fn)
			pr.Put(o2)
			_ = pr.Get() // cleaning may happen on the way out of the pool
			if s2, ok := statusOf(v2.Elem())[fn]; ok {
				st[fn] = worse(st[fn], s2)
			}
		}
		// memory handed to another pool: after the release, objects taken from the expression-slice pool are written
		// to; nothing of that may show up inside the released object (a Put that pools pointers into its own storage)
		{
			drainPools()
			o3 := pr.Get()
			v3 := reflect.ValueOf(o3)
			fill(v3.Elem(), 0)
			pr.Put(o3)
			var held []*[]ast.Expression
			for k := 0; k < 6; k++ {
				sl := ast.GetExpressionSlice()
				*sl = append(*sl, &ast.Identifier{Name: "ALIAS"})
				held = append(held, sl)
			}
			for fn, s3 := range statusOf(v3.Elem()) {
				if (st[fn] == "zero" || st[fn] == "len0_clean") && s3 != "zero" && s3 != "len0_clean" {
					st[fn] = s3 + " (after slices from the expression-slice pool were written to: shared memory)"
				}
			}
			for _, sl := range held {
				*sl = (*sl)[:0]
			}
		}
		emit(pr.Name, "Put", st, same)
	}
	// PutExpression on every case type of its switch
	for _, name := range putExprCases {
		var t reflect.Type
		for _, nt := range nodeTypes {
			if nt.Name() == name {
				t = nt
			}
		}
		if t == nil {
			continue
		}
		drainPools()
		ov := reflect.New(t)
		fill(ov.Elem(), 0)
		e, ok := ov.Interface().(ast.Expression)
		if !ok {
			continue
		}
		ast.PutExpression(e)
		st := statusOf(ov.Elem())
		same := false
		if pr, ok := byName[name]; ok {
			got := pr.Get()
			same = got == ov.Interface()
			if same {
				st = statusOf(ov.Elem())
			}
		}
		emit(name, "PutExpression", st, same)
	}
	// AST container
	{
		drainPools()
		a := ast.NewAST()
		av := reflect.ValueOf(a).Elem()
		fill(av, 0)
		ast.ReleaseAST(a)
		st := statusOf(av)
		got := ast.NewAST()
		same := got == a
		if same {
			st = statusOf(av)
		}
		for _, fn := range exportedFields(av.Type()) {
			drainPools()
			a2 := ast.NewAST()
			v2 := reflect.ValueOf(a2).Elem()
			fillOnly(v2, fn)
			ast.ReleaseAST(a2)
			_ = ast.NewAST()
			if s2, ok := statusOf(v2)[fn]; ok {
				st[fn] = worse(st[fn], s2)
			}
		}
		emit("AST", "ReleaseAST", st, same)
	}
	// expression slice pool
	{
		drainPools()
		s := ast.GetExpressionSlice()
		*s = append(*s, &ast.Identifier{Name: "live"}, &ast.Identifier{Name: "live2"})
		ast.PutExpressionSlice(s)
		got := ast.GetExpressionSlice()
		st := fieldStatus(reflect.ValueOf(got).Elem())
		rows = append(rows, poolRow{Pool: "ExpressionSlice", Via: "Put", Field: "*", Status: st, GetSame: got == s})
	}
	return rows
}

// isZeroNode: a node whose struct value is the zero value (an unset by-value slot handed out as a pointer to a copy)
func isZeroNode(n ast.Node) bool {
	v := reflect.ValueOf(n)
	if v.Kind() == reflect.Ptr {
		if v.IsNil() {
			return true
		}
		v = v.Elem()
	}
	return v.IsZero()
}
