package main

// reuse: C08 history exploration on ONE real parser / tokenizer instance.
//
// stdin: first line {"inputs":[sql...]}, then one history per line:
//   {"id":n,"kind":"parser"|"tokenizer","start":"new"|"pool","ops":[op...],"probe":op,"trace":bool}
//   op = {"op":name,"in":input index,"opt":"strict"|"dialect:<d>"|...,"ctx":"bg"|"cancelled"|"deadline"|"poll:<k>"}
// stdout: one JSON line per history:
//   property oracle   : probe outcome on the used instance vs the same call on a new instance carrying only the options the
//                       current holder applied (tokens, comments, tree hashes, error code AND location, context-ness)
//   reflect oracle    : after every boundary operation (Reset / Release / Put+Get) every field of the instance, read by
//                       reflection, equals that field of a newly constructed instance
//   trace             : per operation and per struct field (dirty = differs from a new instance, changed = differs from before
//                       the operation) — compared with the Coq footprint model by lib/c08.py
import (
	"bufio"
	"context"
	"encoding/json"
	"fmt"
	"log/slog"
	"os"
	"reflect"
	"runtime"
	"strconv"
	"strings"
	"time"
	"unsafe"

	"github.com/ajitpratap0/GoSQLX/pkg/gosqlx"
	"github.com/ajitpratap0/GoSQLX/pkg/models"
	"github.com/ajitpratap0/GoSQLX/pkg/sql/ast"
	"github.com/ajitpratap0/GoSQLX/pkg/sql/keywords"
	"github.com/ajitpratap0/GoSQLX/pkg/sql/parser"
	"github.com/ajitpratap0/GoSQLX/pkg/sql/token"
	"github.com/ajitpratap0/GoSQLX/pkg/sql/tokenizer"
)

type reuseOp struct {
	Op  string `json:"op"`
	In  int    `json:"in"`
	Opt string `json:"opt,omitempty"`
	Ctx string `json:"ctx,omitempty"`
}

type reuseHist struct {
	ID     int       `json:"id"`
	Kind   string    `json:"kind"`
	Start  string    `json:"start"`
	Ops    []reuseOp `json:"ops"`
	Probe  reuseOp   `json:"probe"`
	Trace  bool      `json:"trace"`
	Inputs []string  `json:"inputs,omitempty"` // replay files carry their own inputs
}

type fieldObs struct {
	Dirty   bool `json:"d"`
	Changed bool `json:"c"`
}

type traceStep struct {
	Op  string     `json:"op"`
	Obs []fieldObs `json:"obs"`
}

type reuseOut struct {
	ID         int         `json:"id"`
	Kind       string      `json:"kind"`
	Fields     []string    `json:"fields,omitempty"`
	Mismatch   string      `json:"mismatch,omitempty"`    // property oracle: used vs fresh' differ
	Used       string      `json:"used,omitempty"`
	Fresh      string      `json:"fresh,omitempty"`
	StateFail  []string    `json:"state_fail,omitempty"`  // reflect oracle after a boundary op
	DepthFail  []string    `json:"depth_fail,omitempty"`  // depth / ctx not restored after a call
	PoolOther  int         `json:"pool_other,omitempty"`  // Get returned a different object than the one Put
	Trace      []traceStep `json:"trace,omitempty"`
	ProbeClass string      `json:"probe_class,omitempty"` // accepted / code of the fresh outcome
	Cfg        []string    `json:"cfg,omitempty"`
	Panic      string      `json:"panic,omitempty"`
}

// ---- reflect-level snapshot of every field (unexported ones included) of a struct behind a pointer ----

func fieldNames(ptr interface{}) []string {
	t := reflect.TypeOf(ptr).Elem()
	out := make([]string, t.NumField())
	for i := range out {
		out[i] = t.Field(i).Name
	}
	return out
}

func canonField(f reflect.Value) string {
	switch f.Kind() {
	case reflect.Slice:
		if f.Len() == 0 {
			return "len0" // nil and empty are the same to every reader
		}
		return "len" + strconv.Itoa(f.Len()) + ":" + hashOf(fmt.Sprintf("%+v", f))
	case reflect.Interface:
		if f.IsNil() {
			return "nil"
		}
		return "set:" + f.Elem().Type().String()
	case reflect.Ptr:
		if f.IsNil() {
			return "nil"
		}
		if f.Elem().Kind() == reflect.Struct && strings.Contains(f.Elem().Type().PkgPath(), "GoSQLX") {
			return "ptr:" + hashOf(fmt.Sprintf("%+v", f.Elem()))
		}
		return "set"
	case reflect.Map:
		return "map" + strconv.Itoa(f.Len()) + ":" + hashOf(fmt.Sprintf("%+v", f))
	case reflect.Func, reflect.Chan:
		if f.IsNil() {
			return "nil"
		}
		return "set"
	default:
		return fmt.Sprintf("%+v", f)
	}
}

func snapshot(ptr interface{}) []string {
	v := reflect.ValueOf(ptr).Elem()
	out := make([]string, v.NumField())
	for i := 0; i < v.NumField(); i++ {
		f := v.Field(i)
		f = reflect.NewAt(f.Type(), unsafe.Pointer(f.UnsafeAddr())).Elem()
		out[i] = canonField(f)
	}
	return out
}

func diffFields(names, a, b []string) []string {
	var out []string
	for i := range a {
		if a[i] != b[i] {
			out = append(out, names[i]+": "+a[i]+" vs new "+b[i])
		}
	}
	return out
}

// ---- contexts ----

// pollCtx turns done at its k-th Err() poll (k = 0: done from the start)
type pollCtx struct {
	k, n int
	err  error
}

func (c *pollCtx) Deadline() (time.Time, bool)       { return time.Time{}, false }
func (c *pollCtx) Done() <-chan struct{}             { return nil }
func (c *pollCtx) Value(key interface{}) interface{} { return nil }
func (c *pollCtx) Err() error {
	c.n++
	if c.n > c.k {
		return c.err
	}
	return nil
}

func mkCtx(mode string) context.Context {
	switch {
	case mode == "" || mode == "bg":
		return context.Background()
	case mode == "cancelled":
		c, cancel := context.WithCancel(context.Background())
		cancel()
		return c
	case mode == "deadline":
		c, cancel := context.WithDeadline(context.Background(), time.Unix(0, 0))
		_ = cancel
		return c
	case strings.HasPrefix(mode, "poll:"):
		k, _ := strconv.Atoi(mode[5:])
		return &pollCtx{k: k, err: context.Canceled}
	case strings.HasPrefix(mode, "polld:"):
		k, _ := strconv.Atoi(mode[6:])
		return &pollCtx{k: k, err: context.DeadlineExceeded}
	}
	return context.Background()
}

// ---- outcomes ----

type callOutcome struct {
	Accepted bool     `json:"accepted"`
	Err      errInfo  `json:"err"`
	Trees    []string `json:"trees,omitempty"`
	RecErrs  []recErr `json:"rec_errs,omitempty"`
	Tokens   string   `json:"tokens,omitempty"`
	Comments string   `json:"comments,omitempty"`
	Dialect  string   `json:"dialect,omitempty"`
	Panic    string   `json:"panic,omitempty"`
}

func (o callOutcome) key() string {
	e := o.Err
	e.Msg = "" // never compare message text
	pan := o.Panic
	if i := strings.IndexByte(pan, '\n'); i >= 0 {
		pan = pan[:i]
	}
	b, _ := json.Marshal(struct {
		A bool
		E errInfo
		T []string
		R []recErr
		K string
		C string
		D string
		P string
	}{o.Accepted, e, o.Trees, o.RecErrs, o.Tokens, o.Comments, o.Dialect, pan})
	return string(b)
}

var tooLarge []byte

func modelTokens(sql string) ([]models.TokenWithSpan, error) {
	tk, _ := tokenizer.New()
	return tk.Tokenize([]byte(sql))
}

// parserCall performs one parse-like operation of a history (or the probe) on p
func parserCall(p *parser.Parser, op reuseOp, sql string) callOutcome {
	var out callOutcome
	mt, terr := modelTokens(sql)
	if terr != nil {
		// the input does not tokenize: the parser is not touched (the history generator avoids these for parser ops)
		out.Err = infoOf(terr)
		return out
	}
	var a *ast.AST
	var err error
	isRec := false
	var stmts []ast.Statement
	var errs []error
	out.Panic = guarded(func() {
		switch op.Op {
		case "parse":
			a, err = p.ParseFromModelTokens(mt)
		case "parse_raw_empty":
			a, err = p.Parse([]token.Token{})
		case "parse_raw_nil":
			a, err = p.Parse(nil)
		case "parse_noeof":
			conv, cerr := parser.VerifConvertModelTokens(mt)
			if cerr != nil {
				err = cerr
				return
			}
			if len(conv) > 0 {
				conv = conv[:len(conv)-1]
			}
			a, err = p.Parse(conv)
		case "parsepos":
			a, err = p.ParseFromModelTokensWithPositions(mt)
		case "parsectx":
			a, err = p.ParseContextFromModelTokens(mkCtx(op.Ctx), mt)
		case "recover":
			conv, cerr := parser.VerifConvertModelTokens(mt)
			if cerr != nil {
				err = cerr
				return
			}
			isRec = true
			stmts, errs = p.ParseWithRecovery(conv)
		case "recoverpos":
			isRec = true
			stmts, errs = p.ParseWithRecoveryFromModelTokens(mt)
		default:
			panic("unknown parser call " + op.Op)
		}
	})
	if isRec {
		out.Accepted = len(errs) == 0 && out.Panic == ""
		out.Trees = stmtHashes(stmts)
		out.RecErrs = recErrsOf(errs)
		if len(errs) > 0 {
			if pe, ok := errs[0].(*parser.ParseError); ok {
				out.Err = infoOf(pe.Cause)
			} else {
				out.Err = infoOf(errs[0])
			}
		} else {
			out.Err = infoOf(nil)
		}
		return out
	}
	out.Accepted = err == nil && out.Panic == ""
	out.Err = infoOf(err)
	if out.Accepted {
		out.Trees = astHashes(a)
	}
	return out
}

func parserOpts(opt string) []parser.ParserOption {
	var opts []parser.ParserOption
	for _, o := range strings.Split(opt, ",") {
		switch {
		case o == "strict":
			opts = append(opts, parser.WithStrictMode())
		case strings.HasPrefix(o, "dialect:"):
			opts = append(opts, parser.WithDialect(o[8:]))
		}
	}
	return opts
}

// the parser fields checked after every call (nesting counter back to its value in a new parser, no context left): the
// fields that play these roles today are named in the header line (found by the translator, tools/gotables/roles.go)
var reuseDepthField, reuseCtxField = "depth", "ctx"

func isParseCall(op string) bool {
	switch op {
	case "parse", "parse_raw_empty", "parse_raw_nil", "parse_noeof", "parsepos", "parsectx", "recover", "recoverpos":
		return true
	}
	return false
}

func drain() {
	runtime.GC()
	runtime.GC()
}

func runParserHistory(h reuseHist, inputs []string) reuseOut {
	out := reuseOut{ID: h.ID, Kind: h.Kind}
	freshSnap := snapshot(parser.NewParser())
	names := fieldNames(parser.NewParser())
	out.Fields = names
	drain()
	var p *parser.Parser
	if h.Start == "pool" {
		p = parser.GetParser()
	} else {
		p = parser.NewParser()
	}
	var cfg []string
	prev := snapshot(p)
	depthIdx, ctxIdx := -1, -1
	for i, n := range names {
		if n == reuseDepthField {
			depthIdx = i
		}
		if n == reuseCtxField {
			ctxIdx = i
		}
	}
	sqlOf := func(op reuseOp) string {
		if op.In >= 0 && op.In < len(inputs) {
			return inputs[op.In]
		}
		return ""
	}
	for step, op := range h.Ops {
		boundary := false
		switch {
		case isParseCall(op.Op):
			parserCall(p, op, sqlOf(op))
		case op.Op == "apply":
			p.ApplyOptions(parserOpts(op.Opt)...)
			cfg = append(cfg, op.Opt)
		case op.Op == "reset":
			p.Reset()
			boundary = true
		case op.Op == "release":
			p.Release()
			boundary = true
		case op.Op == "putget":
			parser.PutParser(p)
			q := parser.GetParser()
			if q != p {
				out.PoolOther++
			}
			p = q
			boundary = true
		case op.Op == "putget_other":
			// another holder returns ITS instance (configured, used with positions, after a failing parse) too; the pool then
			// hands out two instances: continue with the second one obtained (one of them has the other holder's past)
			o := parser.NewParser(parser.WithStrictMode(), parser.WithDialect("mysql"))
			parserCall(o, reuseOp{Op: "parsepos"}, "SELECT a\n\n\nFROM t WHERE")
			parser.PutParser(p)
			parser.PutParser(o)
			q1 := parser.GetParser()
			q2 := parser.GetParser()
			if d := diffFields(names, snapshot(q1), freshSnap); len(d) > 0 && len(out.StateFail) < 4 {
				out.StateFail = append(out.StateFail, fmt.Sprintf("after op %d (%s): %s", step, op.Op, strings.Join(d, "; ")))
			}
			p = q2 // by design possibly the other holder's instance
			boundary = true
		default:
			out.Panic = "unknown op " + op.Op
			return out
		}
		cur := snapshot(p)
		if boundary {
			cfg = nil
			if d := diffFields(names, cur, freshSnap); len(d) > 0 && len(out.StateFail) < 4 {
				out.StateFail = append(out.StateFail, fmt.Sprintf("after op %d (%s): %s", step, op.Op, strings.Join(d, "; ")))
			}
		}
		if depthIdx >= 0 && cur[depthIdx] != freshSnap[depthIdx] && len(out.DepthFail) < 4 {
			out.DepthFail = append(out.DepthFail, fmt.Sprintf("after op %d (%s): depth=%s", step, op.Op, cur[depthIdx]))
		}
		if ctxIdx >= 0 && cur[ctxIdx] != freshSnap[ctxIdx] && len(out.DepthFail) < 4 {
			out.DepthFail = append(out.DepthFail, fmt.Sprintf("after op %d (%s): ctx=%s", step, op.Op, cur[ctxIdx]))
		}
		if h.Trace {
			ts := traceStep{Op: op.Op}
			for i := range cur {
				ts.Obs = append(ts.Obs, fieldObs{Dirty: cur[i] != freshSnap[i], Changed: cur[i] != prev[i]})
			}
			out.Trace = append(out.Trace, ts)
		}
		prev = cur
	}
	// the probe: same call on the used instance and on a new instance carrying only the current holder's options
	used := parserCall(p, h.Probe, sqlOf(h.Probe))
	f := parser.NewParser()
	for _, c := range cfg {
		f.ApplyOptions(parserOpts(c)...)
	}
	fresh := parserCall(f, h.Probe, sqlOf(h.Probe))
	out.Cfg = cfg
	out.ProbeClass = fresh.Err.Code
	if fresh.Accepted {
		out.ProbeClass = "accepted"
	}
	if used.key() != fresh.key() {
		out.Mismatch = "probe " + h.Probe.Op + " differs between the used instance and a new one"
		out.Used, out.Fresh = used.key(), fresh.key()
	}
	return out
}

// ---- tokenizer ----

func tokenizerCall(t *tokenizer.Tokenizer, op reuseOp, sql string) callOutcome {
	var out callOutcome
	var toks []models.TokenWithSpan
	var err error
	out.Panic = guarded(func() {
		switch op.Op {
		case "tokenize":
			toks, err = t.Tokenize([]byte(sql))
		case "tokenizectx":
			toks, err = t.TokenizeContext(mkCtx(op.Ctx), []byte(sql))
		case "toolarge":
			toks, err = t.Tokenize(tooLarge)
		case "toolargectx":
			toks, err = t.TokenizeContext(mkCtx(op.Ctx), tooLarge)
		default:
			panic("unknown tokenizer call " + op.Op)
		}
	})
	out.Accepted = err == nil && out.Panic == ""
	out.Err = infoOf(err)
	out.Tokens = hashOf(dump(toks)) + "/" + strconv.Itoa(len(toks))
	out.Comments = hashOf(dump(t.Comments)) + "/" + strconv.Itoa(len(t.Comments))
	out.Dialect = string(t.Dialect())
	return out
}

func isTokCall(op string) bool {
	switch op {
	case "tokenize", "tokenizectx", "toolarge", "toolargectx":
		return true
	}
	return false
}

func applyTokCfg(t *tokenizer.Tokenizer, c string) {
	switch {
	case strings.HasPrefix(c, "dialect:"):
		t.SetDialect(keywords.SQLDialect(c[8:]))
	case c == "logger:on":
		t.SetLogger(slog.New(slog.NewTextHandler(nullWriter{}, nil)))
	case c == "logger:off":
		t.SetLogger(nil)
	}
}

type nullWriter struct{}

func (nullWriter) Write(b []byte) (int, error) { return len(b), nil }

func runTokenizerHistory(h reuseHist, inputs []string) reuseOut {
	out := reuseOut{ID: h.ID, Kind: h.Kind}
	nt, _ := tokenizer.New()
	freshSnap := snapshot(nt)
	names := fieldNames(nt)
	out.Fields = names
	drain()
	var t *tokenizer.Tokenizer
	if h.Start == "pool" {
		t = tokenizer.GetTokenizer()
	} else {
		t, _ = tokenizer.New()
	}
	var cfg []string
	prev := snapshot(t)
	sqlOf := func(op reuseOp) string {
		if op.In >= 0 && op.In < len(inputs) {
			return inputs[op.In]
		}
		return ""
	}
	for step, op := range h.Ops {
		boundary := false
		switch {
		case isTokCall(op.Op):
			tokenizerCall(t, op, sqlOf(op))
		case op.Op == "setdialect" || op.Op == "setlogger":
			applyTokCfg(t, op.Opt)
			cfg = append(cfg, op.Opt)
		case op.Op == "reset":
			t.Reset()
			// per-run reset: the holder's dialect stays, the logger is dropped
			var kept []string
			for _, c := range cfg {
				if strings.HasPrefix(c, "dialect:") {
					kept = append(kept, c)
				}
			}
			cfg = kept
			f, _ := tokenizer.New()
			for _, c := range cfg {
				applyTokCfg(f, c)
			}
			if d := diffFields(names, snapshot(t), snapshot(f)); len(d) > 0 && len(out.StateFail) < 4 {
				out.StateFail = append(out.StateFail, fmt.Sprintf("after op %d (reset): %s", step, strings.Join(d, "; ")))
			}
		case op.Op == "putget":
			tokenizer.PutTokenizer(t)
			q := tokenizer.GetTokenizer()
			if q != t {
				out.PoolOther++
			}
			t = q
			boundary = true
		case op.Op == "putget_other":
			o, _ := tokenizer.NewWithDialect(keywords.DialectMySQL)
			o.SetLogger(slog.New(slog.NewTextHandler(nullWriter{}, nil)))
			_, _ = o.Tokenize([]byte("-- c\n\nSELECT a /* b */\nFROM t"))
			tokenizer.PutTokenizer(t)
			tokenizer.PutTokenizer(o)
			q1 := tokenizer.GetTokenizer()
			q2 := tokenizer.GetTokenizer()
			if d := diffFields(names, snapshot(q1), freshSnap); len(d) > 0 && len(out.StateFail) < 4 {
				out.StateFail = append(out.StateFail, fmt.Sprintf("after op %d (%s): %s", step, op.Op, strings.Join(d, "; ")))
			}
			t = q2 // by design possibly the other holder's instance
			boundary = true
		default:
			out.Panic = "unknown op " + op.Op
			return out
		}
		cur := snapshot(t)
		if boundary {
			cfg = nil
			if d := diffFields(names, cur, freshSnap); len(d) > 0 && len(out.StateFail) < 4 {
				out.StateFail = append(out.StateFail, fmt.Sprintf("after op %d (%s): %s", step, op.Op, strings.Join(d, "; ")))
			}
		}
		if h.Trace {
			ts := traceStep{Op: op.Op}
			for i := range cur {
				ts.Obs = append(ts.Obs, fieldObs{Dirty: cur[i] != freshSnap[i], Changed: cur[i] != prev[i]})
			}
			out.Trace = append(out.Trace, ts)
		}
		prev = cur
	}
	used := tokenizerCall(t, h.Probe, sqlOf(h.Probe))
	f, _ := tokenizer.New()
	for _, c := range cfg {
		if strings.HasPrefix(c, "logger") {
			continue // Tokenize drops the logger before lexing; it never influences the outcome
		}
		applyTokCfg(f, c)
	}
	fresh := tokenizerCall(f, h.Probe, sqlOf(h.Probe))
	out.Cfg = cfg
	out.ProbeClass = fresh.Err.Code
	if fresh.Accepted {
		out.ProbeClass = "accepted"
	}
	if used.key() != fresh.key() {
		out.Mismatch = "probe " + h.Probe.Op + " differs between the used instance and a new one"
		out.Used, out.Fresh = used.key(), fresh.key()
	}
	return out
}

// ---- API level: the pooled objects behind gosqlx.* / parser.* convenience calls ----

func apiCall(op reuseOp, sql string) callOutcome {
	var out callOutcome
	var a *ast.AST
	var err error
	isRec := false
	var stmts []ast.Statement
	var errs []error
	out.Panic = guarded(func() {
		switch op.Op {
		case "gosqlx.Parse":
			a, err = gosqlx.Parse(sql)
		case "gosqlx.ParseWithContext":
			a, err = gosqlx.ParseWithContext(mkCtx(op.Ctx), sql)
		case "gosqlx.Validate":
			err = gosqlx.Validate(sql)
		case "gosqlx.ParseMultiple":
			var as []*ast.AST
			as, err = gosqlx.ParseMultiple([]string{sql, sql})
			if err == nil && len(as) > 0 {
				a = as[len(as)-1]
			}
		case "gosqlx.ParseWithRecovery":
			isRec = true
			stmts, errs = gosqlx.ParseWithRecovery(sql)
		case "parser.ValidateBytes":
			err = parser.ValidateBytes([]byte(sql))
		case "parser.ParseBytes":
			a, err = parser.ParseBytes([]byte(sql))
		case "parser.ParseWithDialect":
			a, err = parser.ParseWithDialect(sql, keywords.SQLDialect(strings.TrimPrefix(op.Opt, "dialect:")))
		case "parser.ValidateWithDialect":
			err = parser.ValidateWithDialect(sql, keywords.SQLDialect(strings.TrimPrefix(op.Opt, "dialect:")))
		case "parser.ParseMultiWithRecovery":
			mt, terr := modelTokens(sql)
			if terr != nil {
				err = terr
				return
			}
			conv, cerr := parser.VerifConvertModelTokens(mt)
			if cerr != nil {
				err = cerr
				return
			}
			isRec = true
			r := parser.ParseMultiWithRecovery(conv)
			stmts, errs = r.Statements, r.Errors
			r.Release()
			r.Release() // documented as safe: a second Release must not return the parser to the pool again
		case "pool.parser":
			// a holder that configures a pooled parser, uses it with positions, and returns it
			p := parser.GetParser()
			p.ApplyOptions(parserOpts(op.Opt)...)
			if mt, terr := modelTokens(sql); terr == nil {
				a, err = p.ParseFromModelTokensWithPositions(mt)
			}
			parser.PutParser(p)
		case "pool.tokenizer":
			t := tokenizer.GetTokenizer()
			applyTokCfg(t, op.Opt)
			_, err = t.Tokenize([]byte(sql))
			tokenizer.PutTokenizer(t)
		default:
			panic("unknown api call " + op.Op)
		}
	})
	if isRec {
		out.Accepted = len(errs) == 0 && out.Panic == ""
		out.Trees = stmtHashes(stmts)
		out.RecErrs = recErrsOf(errs)
		return out
	}
	out.Accepted = err == nil && out.Panic == ""
	out.Err = infoOf(err)
	if out.Accepted {
		out.Trees = astHashes(a)
	}
	return out
}

func runAPIHistory(h reuseHist, inputs []string) reuseOut {
	out := reuseOut{ID: h.ID, Kind: h.Kind}
	sqlOf := func(op reuseOp) string {
		if op.In >= 0 && op.In < len(inputs) {
			return inputs[op.In]
		}
		return ""
	}
	drain()
	for _, op := range h.Ops {
		apiCall(op, sqlOf(op))
	}
	// no history may leave one instance in a pool twice: two holders would then share it
	if dup := poolHandsOutDuplicates(); dup != "" {
		out.Mismatch = dup
		return out
	}
	used := apiCall(h.Probe, sqlOf(h.Probe))
	drain() // empty pools: the same call now runs on newly constructed objects
	fresh := apiCall(h.Probe, sqlOf(h.Probe))
	out.ProbeClass = fresh.Err.Code
	if fresh.Accepted {
		out.ProbeClass = "accepted"
	}
	if used.key() != fresh.key() {
		out.Mismatch = "api probe " + h.Probe.Op + " differs between warm pools and empty pools"
		out.Used, out.Fresh = used.key(), fresh.key()
	}
	return out
}

func runReuseHistory(h reuseHist, inputs []string) (out reuseOut) {
	if len(h.Inputs) > 0 {
		inputs = h.Inputs
	}
	pan := guarded(func() {
		if h.Kind == "tokenizer" {
			out = runTokenizerHistory(h, inputs)
		} else if h.Kind == "api" {
			out = runAPIHistory(h, inputs)
		} else {
			out = runParserHistory(h, inputs)
		}
	})
	if pan != "" {
		out.ID, out.Kind, out.Panic = h.ID, h.Kind, pan
	}
	return out
}

func init() {
	subcmds["reuse"] = func(args []string) int {
		runtime.GOMAXPROCS(1)
		tooLarge = make([]byte, tokenizer.MaxInputSize+1)
		for i := range tooLarge {
			tooLarge[i] = ' '
		}
		sc := bufio.NewScanner(os.Stdin)
		sc.Buffer(make([]byte, 1<<20), 256<<20)
		var inputs []string
		for sc.Scan() {
			line := sc.Bytes()
			if len(inputs) == 0 && strings.HasPrefix(string(line), `{"inputs"`) {
				var hd struct {
					Inputs []string `json:"inputs"`
					Depth  string   `json:"depth_field"` // current names of the struct fields playing the depth / ctx roles
					Ctx    string   `json:"ctx_field"`
				}
				if err := json.Unmarshal(line, &hd); err != nil {
					fmt.Fprintln(os.Stderr, "bad header:", err)
					return 2
				}
				inputs = hd.Inputs
				if hd.Depth != "" {
					reuseDepthField = hd.Depth
				}
				if hd.Ctx != "" {
					reuseCtxField = hd.Ctx
				}
				continue
			}
			var h reuseHist
			if err := json.Unmarshal(line, &h); err != nil {
				fmt.Fprintln(os.Stderr, "bad history:", err)
				return 2
			}
			emitJSON(runReuseHistory(h, inputs))
		}
		return 0
	}
}

// poolHandsOutDuplicates takes several instances out of the parser and tokenizer pools at once: they must be pairwise
// distinct objects (a double Put of one instance makes two later holders share it).  The instances are put back once.
func poolHandsOutDuplicates() string {
	const n = 4
	ps := make([]*parser.Parser, 0, n)
	res := ""
	for i := 0; i < n; i++ {
		p := parser.GetParser()
		for _, q := range ps {
			if q == p {
				res = "the parser pool handed out the same instance to two holders at once"
			}
		}
		ps = append(ps, p)
	}
	seenP := map[*parser.Parser]bool{}
	for _, p := range ps {
		if !seenP[p] {
			seenP[p] = true
			parser.PutParser(p)
		}
	}
	ts := make([]*tokenizer.Tokenizer, 0, n)
	for i := 0; i < n; i++ {
		t := tokenizer.GetTokenizer()
		for _, q := range ts {
			if q == t {
				res = "the tokenizer pool handed out the same instance to two holders at once"
			}
		}
		ts = append(ts, t)
	}
	seenT := map[*tokenizer.Tokenizer]bool{}
	for _, t := range ts {
		if !seenT[t] {
			seenT[t] = true
			tokenizer.PutTokenizer(t)
		}
	}
	if d := astPoolHandsOutDuplicates(); d != "" {
		res = d
	}
	return res
}

// astPoolHandsOutDuplicates: several tree containers taken from the pool and alive at the same time must be
// different objects (a container released twice is handed to two holders)
func astPoolHandsOutDuplicates() string {
	const n = 6
	res := ""
	as := make([]*ast.AST, 0, n)
	for i := 0; i < n; i++ {
		a := ast.NewAST()
		for _, q := range as {
			if q == a {
				res = "the tree-container pool handed out the same *ast.AST to two holders at once"
			}
		}
		as = append(as, a)
	}
	seen := map[*ast.AST]bool{}
	for _, a := range as {
		if !seen[a] {
			seen[a] = true
			ast.ReleaseAST(a)
		}
	}
	return res
}
