package main

import (
	"bufio"
	"context"
	"crypto/sha1"
	"encoding/hex"
	"encoding/json"
	"os"
	"time"

	"github.com/ajitpratap0/GoSQLX/pkg/gosqlx"
	"github.com/ajitpratap0/GoSQLX/pkg/models"
	"github.com/ajitpratap0/GoSQLX/pkg/sql/ast"
	"github.com/ajitpratap0/GoSQLX/pkg/sql/keywords"
	"github.com/ajitpratap0/GoSQLX/pkg/sql/parser"
	"github.com/ajitpratap0/GoSQLX/pkg/sql/token"
	"github.com/ajitpratap0/GoSQLX/pkg/sql/tokenizer"
)

func hashOf(s string) string {
	h := sha1.Sum([]byte(s))
	return hex.EncodeToString(h[:6])
}

type epResult struct {
	Name     string   `json:"name"`
	Accepted bool     `json:"accepted"`
	Err      errInfo  `json:"err"`
	Trees    []string `json:"trees,omitempty"` // dump hash per statement
	Panic    string   `json:"panic,omitempty"`
	// recovery only
	RecErrs []recErr `json:"rec_errs,omitempty"`
}

type recErr struct {
	TokenIdx int    `json:"idx"`
	Code     string `json:"code"`
	Line     int    `json:"line"`
	Col      int    `json:"col"`
}

func stmtHashes(stmts []ast.Statement) []string {
	out := make([]string, 0, len(stmts))
	for _, s := range stmts {
		out = append(out, hashOf(dump(s)))
	}
	return out
}

func astHashes(a *ast.AST) []string {
	if a == nil {
		return nil
	}
	return stmtHashes(a.Statements)
}

func recErrsOf(errs []error) []recErr {
	var out []recErr
	for _, e := range errs {
		re := recErr{TokenIdx: -1}
		if pe, ok := e.(*parser.ParseError); ok {
			re.TokenIdx = pe.TokenIdx
			re.Line, re.Col = pe.Line, pe.Column
			re.Code = infoOf(pe.Cause).Code
		} else {
			re.Code = infoOf(e).Code
		}
		out = append(out, re)
	}
	return out
}

// allEntryPoints runs every parsing / validation entry point of C07 on one input.
func allEntryPoints(sql string) []epResult {
	var res []epResult
	add := func(name string, f func() (*ast.AST, error)) {
		r := epResult{Name: name}
		var a *ast.AST
		var err error
		r.Panic = guarded(func() { a, err = f() })
		r.Accepted = err == nil && r.Panic == ""
		r.Err = infoOf(err)
		if r.Accepted {
			r.Trees = astHashes(a)
		}
		res = append(res, r)
	}
	addV := func(name string, f func() error) {
		r := epResult{Name: name}
		var err error
		r.Panic = guarded(func() { err = f() })
		r.Accepted = err == nil && r.Panic == ""
		r.Err = infoOf(err)
		res = append(res, r)
	}
	add("gosqlx.Parse", func() (*ast.AST, error) { return gosqlx.Parse(sql) })
	add("gosqlx.ParseBytes", func() (*ast.AST, error) { return gosqlx.ParseBytes([]byte(sql)) })
	add("gosqlx.ParseWithContext", func() (*ast.AST, error) { return gosqlx.ParseWithContext(context.Background(), sql) })
	add("gosqlx.ParseWithTimeout", func() (*ast.AST, error) { return gosqlx.ParseWithTimeout(sql, time.Minute) })
	add("gosqlx.ParseMultiple", func() (*ast.AST, error) {
		as, err := gosqlx.ParseMultiple([]string{sql})
		if err != nil || len(as) != 1 {
			return nil, err
		}
		return as[0], nil
	})
	addV("gosqlx.Validate", func() error { return gosqlx.Validate(sql) })
	addV("gosqlx.ValidateMultiple", func() error { return gosqlx.ValidateMultiple([]string{sql}) })
	{
		r := epResult{Name: "gosqlx.ParseWithRecovery"}
		var stmts []ast.Statement
		var errs []error
		r.Panic = guarded(func() { stmts, errs = gosqlx.ParseWithRecovery(sql) })
		r.Accepted = len(errs) == 0 && r.Panic == ""
		if len(errs) > 0 {
			if pe, ok := errs[0].(*parser.ParseError); ok {
				r.Err = infoOf(pe.Cause)
			} else {
				r.Err = infoOf(errs[0])
			}
		} else {
			r.Err = infoOf(nil)
		}
		r.Trees = stmtHashes(stmts)
		r.RecErrs = recErrsOf(errs)
		res = append(res, r)
	}
	add("parser.ParseBytes", func() (*ast.AST, error) { return parser.ParseBytes([]byte(sql)) })
	addV("parser.Validate", func() error { return parser.Validate(sql) })
	add("parser.ParseBytesWithTokens", func() (*ast.AST, error) { a, _, err := parser.ParseBytesWithTokens([]byte(sql)); return a, err })
	add("parser.ParseWithDialect", func() (*ast.AST, error) { return parser.ParseWithDialect(sql, keywords.DialectPostgreSQL) })
	// low-level pipeline
	low := func(name string, f func(p *parser.Parser, toks []models.TokenWithSpan) (*ast.AST, error)) {
		add(name, func() (*ast.AST, error) {
			tk, _ := tokenizer.New()
			toks, err := tk.Tokenize([]byte(sql))
			if err != nil {
				return nil, err
			}
			return f(parser.NewParser(), toks)
		})
	}
	low("Parser.Parse", func(p *parser.Parser, toks []models.TokenWithSpan) (*ast.AST, error) {
		return p.ParseFromModelTokens(toks)
	})
	low("Parser.ParseContext", func(p *parser.Parser, toks []models.TokenWithSpan) (*ast.AST, error) {
		return p.ParseContextFromModelTokens(context.Background(), toks)
	})
	low("Parser.ParseWithPositions", func(p *parser.Parser, toks []models.TokenWithSpan) (*ast.AST, error) {
		return p.ParseFromModelTokensWithPositions(toks)
	})
	// one parser instance used through several of its methods in turn (no Reset in between): the context-aware
	// call first, its context cancelled after it returned, then the plain and the position-tracking calls
	low("Parser(reused).Parse", func(p *parser.Parser, toks []models.TokenWithSpan) (*ast.AST, error) {
		ctx, cancel := context.WithCancel(context.Background())
		_, _ = p.ParseContextFromModelTokens(ctx, toks)
		cancel()
		_, _ = p.ParseFromModelTokensWithPositions(toks)
		return p.ParseFromModelTokens(toks)
	})
	low("Parser(reused).ParseWithPositions", func(p *parser.Parser, toks []models.TokenWithSpan) (*ast.AST, error) {
		_, _ = p.ParseFromModelTokens(toks)
		ctx, cancel := context.WithCancel(context.Background())
		_, _ = p.ParseContextFromModelTokens(ctx, toks)
		cancel()
		return p.ParseFromModelTokensWithPositions(toks)
	})
	return res
}

// loopTable records, for one input, what the statement loops see: per converted token its class, and for every
// start position what parseStatement does from there (the statement parser `ps` the Coq loop models are
// parametric in).
type loopTable struct {
	SQL       string     `json:"sql"`
	TokErr    string     `json:"tok_err,omitempty"`
	NTok      int        `json:"ntok"`
	Kinds     string     `json:"kinds"` // one char per token: E eof, S semicolon, K statement-starting keyword, . other
	PS        []psEntry  `json:"ps"`
	Sync      []int      `json:"sync"` // synchronize() from each position
	Entries   []epResult `json:"entries"`
	Strict    epResult   `json:"strict_parse"`
	StrictCtx epResult   `json:"strict_ctx"`
	StrictPos epResult   `json:"strict_pos"`
	TokPos    [][2]int   `json:"tok_pos,omitempty"` // (line, column) of each converted token in the text that was passed in
}

type psEntry struct {
	OK    bool   `json:"ok"`
	End   int    `json:"end"`
	Code  string `json:"code,omitempty"`
	Tree  string `json:"tree,omitempty"`
	Depth int    `json:"depth_after"`
	Panic string `json:"panic,omitempty"`
}

func isStartKW(t models.TokenType) bool {
	switch t {
	case models.TokenTypeSelect, models.TokenTypeInsert, models.TokenTypeUpdate, models.TokenTypeDelete, models.TokenTypeCreate,
		models.TokenTypeAlter, models.TokenTypeDrop, models.TokenTypeWith, models.TokenTypeMerge, models.TokenTypeRefresh,
		models.TokenTypeTruncate, models.TokenTypeGrant, models.TokenTypeRevoke, models.TokenTypeSet, models.TokenTypeBegin,
		models.TokenTypeCommit, models.TokenTypeRollback:
		return true
	}
	return false
}

func buildLoopTable(sql string, maxTok int) loopTable {
	lt := loopTable{SQL: sql}
	tk, _ := tokenizer.New()
	mt, err := tk.Tokenize([]byte(sql))
	if err != nil {
		lt.TokErr = infoOf(err).Code
		if lt.TokErr == "" {
			lt.TokErr = "unstructured"
		}
		lt.Entries = allEntryPoints(sql)
		return lt
	}
	toks, err := parser.VerifConvertModelTokens(mt)
	if err != nil {
		lt.TokErr = "convert:" + infoOf(err).Code
		lt.Entries = allEntryPoints(sql)
		return lt
	}
	lt.NTok = len(toks)
	if len(toks) > maxTok {
		return lt
	}
	kinds := make([]byte, len(toks))
	for i, t := range toks {
		switch {
		case t.Type == models.TokenTypeEOF:
			kinds[i] = 'E'
		case t.Type == models.TokenTypeSemicolon:
			kinds[i] = 'S'
		case isStartKW(t.Type):
			kinds[i] = 'K'
		default:
			kinds[i] = '.'
		}
	}
	lt.Kinds = string(kinds)
	if cr, cerr := parser.VerifConvertModelTokensWithPositions(mt); cerr == nil && len(cr.PositionMapping) == len(toks) {
		for _, tp := range cr.PositionMapping {
			lt.TokPos = append(lt.TokPos, [2]int{tp.Start.Line, tp.Start.Column})
		}
	}
	for p := 0; p < len(toks); p++ {
		var e psEntry
		ps := parser.NewParser()
		cp := make([]token.Token, len(toks))
		copy(cp, toks)
		e.Panic = guarded(func() {
			st, end, err := ps.VerifParseStatementAt(cp, p)
			e.End = end
			e.OK = err == nil
			if err != nil {
				e.Code = infoOf(err).Code
			} else {
				e.Tree = hashOf(dump(st))
			}
		})
		e.Depth = ps.VerifState().Depth
		lt.PS = append(lt.PS, e)
		sp := parser.NewParser()
		lt.Sync = append(lt.Sync, sp.VerifSynchronize(cp, p))
	}
	lt.Entries = allEntryPoints(sql)
	// strict-mode variants of the three Parser methods
	strictRun := func(name string, f func(p *parser.Parser, cp []token.Token) (*ast.AST, error)) epResult {
		r := epResult{Name: name}
		var a *ast.AST
		var err error
		r.Panic = guarded(func() {
			p := parser.NewParser(parser.WithStrictMode())
			cp := make([]token.Token, len(toks))
			copy(cp, toks)
			a, err = f(p, cp)
		})
		r.Accepted = err == nil && r.Panic == ""
		r.Err = infoOf(err)
		if r.Accepted {
			r.Trees = astHashes(a)
		}
		return r
	}
	lt.Strict = strictRun("Parser.Parse(strict)", func(p *parser.Parser, cp []token.Token) (*ast.AST, error) { return p.Parse(cp) })
	lt.StrictCtx = strictRun("Parser.ParseContext(strict)", func(p *parser.Parser, cp []token.Token) (*ast.AST, error) {
		return p.ParseContext(context.Background(), cp)
	})
	lt.StrictPos = strictRun("Parser.ParseWithPositions(strict)", func(p *parser.Parser, cp []token.Token) (*ast.AST, error) {
		cr, err := parser.VerifConvertModelTokensWithPositions(mt)
		if err != nil {
			return nil, err
		}
		return p.ParseWithPositions(cr)
	})
	return lt
}

func init() {
	// entry: stdin JSON lines {"sql":...}: every entry point on every input
	subcmds["entry"] = func(args []string) int {
		sc := bufio.NewScanner(os.Stdin)
		sc.Buffer(make([]byte, 1<<20), 64<<20)
		for sc.Scan() {
			var in struct {
				SQL string `json:"sql"`
			}
			if json.Unmarshal(sc.Bytes(), &in) != nil {
				continue
			}
			emitJSON(map[string]interface{}{"sql": in.SQL, "entries": allEntryPoints(in.SQL)})
		}
		return 0
	}
	// loops: stdin JSON lines {"sql":...}: the recorded-ps table plus all entry points
	subcmds["loops"] = func(args []string) int {
		sc := bufio.NewScanner(os.Stdin)
		sc.Buffer(make([]byte, 1<<20), 64<<20)
		for sc.Scan() {
			var in struct {
				SQL string `json:"sql"`
			}
			if json.Unmarshal(sc.Bytes(), &in) != nil {
				continue
			}
			emitJSON(buildLoopTable(in.SQL, 400))
		}
		return 0
	}
	// batch: stdin JSON lines {"queries":[...]}: ParseMultiple / ValidateMultiple against the individual calls
	subcmds["batch"] = func(args []string) int {
		sc := bufio.NewScanner(os.Stdin)
		sc.Buffer(make([]byte, 1<<20), 64<<20)
		for sc.Scan() {
			var in struct {
				Queries []string `json:"queries"`
			}
			if json.Unmarshal(sc.Bytes(), &in) != nil {
				continue
			}
			type one struct {
				Accepted bool     `json:"accepted"`
				Code     string   `json:"code"`
				Trees    []string `json:"trees"`
			}
			var singles []one
			for _, q := range in.Queries {
				a, err := gosqlx.Parse(q)
				singles = append(singles, one{Accepted: err == nil, Code: infoOf(err).Code, Trees: astHashes(a)})
			}
			as, perr := gosqlx.ParseMultiple(in.Queries)
			var mtrees [][]string
			for _, a := range as {
				mtrees = append(mtrees, astHashes(a))
			}
			verr := gosqlx.ValidateMultiple(in.Queries)
			pmsg, vmsg := "", ""
			if perr != nil {
				pmsg = perr.Error()
				if len(pmsg) > 40 {
					pmsg = pmsg[:40]
				}
			}
			if verr != nil {
				vmsg = verr.Error()
				if len(vmsg) > 40 {
					vmsg = vmsg[:40]
				}
			}
			emitJSON(map[string]interface{}{"queries": in.Queries, "singles": singles,
				"multi_ok": perr == nil, "multi_code": infoOf(perr).Code, "multi_msg": pmsg, "multi_trees": mtrees,
				"vmulti_ok": verr == nil, "vmulti_code": infoOf(verr).Code, "vmulti_msg": vmsg})
		}
		return 0
	}
}

// recseg: stdin JSON lines {"segs":[...]}: the segments joined by ";\n" through recovery parsing and strict
// parsing, and each segment alone through strict parsing (C12 oracle: trees of the well-formed segments in order,
// one error per malformed segment, each error's token inside its own segment).
func init() {
	subcmds["recseg"] = func(args []string) int {
		sc := bufio.NewScanner(os.Stdin)
		sc.Buffer(make([]byte, 1<<20), 64<<20)
		for sc.Scan() {
			var in struct {
				Segs   []string `json:"segs"`
				Prefix string   `json:"prefix"` // white space in front of the first segment
				Seps   []string `json:"seps"`   // separator after segment i (white space around exactly one ';'); default ";\n"
			}
			if json.Unmarshal(sc.Bytes(), &in) != nil {
				continue
			}
			type segRes struct {
				Accepted bool     `json:"accepted"`
				Code     string   `json:"code"`
				Trees    []string `json:"trees"`
				NTok     int      `json:"ntok"` // converted tokens without EOF; -1 if the segment does not tokenize
			}
			var segs []segRes
			var spans [][2]int // rune offsets [start, end) of each segment's text in whole
			whole := in.Prefix
			for i, s := range in.Segs {
				a, err := gosqlx.Parse(s)
				sr := segRes{Accepted: err == nil, Code: infoOf(err).Code, Trees: astHashes(a), NTok: -1}
				tk, _ := tokenizer.New()
				if mt, terr := tk.Tokenize([]byte(s)); terr == nil {
					if ct, cerr := parser.VerifConvertModelTokens(mt); cerr == nil {
						n := len(ct)
						if n > 0 && ct[n-1].Type == models.TokenTypeEOF {
							n--
						}
						sr.NTok = n
					}
				}
				segs = append(segs, sr)
				if i > 0 {
					sep := ";\n"
					if i-1 < len(in.Seps) {
						sep = in.Seps[i-1]
					}
					whole += sep
				}
				st := len([]rune(whole))
				whole += s
				spans = append(spans, [2]int{st, len([]rune(whole))})
			}
			var stmts []ast.Statement
			var errs []error
			pn := guarded(func() { stmts, errs = gosqlx.ParseWithRecovery(whole) })
			wa, werr := gosqlx.Parse(whole)
			emitJSON(map[string]interface{}{"segs": in.Segs, "seg_results": segs, "whole": whole, "spans": spans, "prefix": in.Prefix, "seps": in.Seps,
				"rec_trees": stmtHashes(stmts), "rec_errs": recErrsOf(errs), "rec_panic": pn,
				"strict_ok": werr == nil, "strict_code": infoOf(werr).Code, "strict_trees": astHashes(wa)})
		}
		return 0
	}
}
