#!/bin/bash
# mk.sh NN-name pkg... : build (both tag sets), test touched packages, write the diff
export GOFLAGS=-mod=mod GOPROXY=off GOSUMDB=off GOTOOLCHAIN=local
name=$1; shift
cd /tmp/rb3-wt || exit 2
bad=$(gofmt -l $(git diff --name-only; git ls-files --others --exclude-standard) 2>/dev/null | grep '\.go$')
[ -n "$bad" ] && { echo "gofmt: $bad"; exit 1; }
go build ./... || exit 1
go build -tags verif ./... || exit 1
go vet -tags verif "$@" 2>&1 | tail -5
go test -count=1 "$@" 2>&1 | tail -15
git add -N . ; git diff > /root/work/robust3/$name.diff
echo "wrote $name.diff ($(wc -l < /root/work/robust3/$name.diff) lines)"
