#!/bin/bash
# sequential runner: lines "patch Cnn" in queue.txt; "STOP" ends
export GOFLAGS=-mod=mod GOPROXY=off GOSUMDB=off GOTOOLCHAIN=local VERIF_GOCACHE=/verif/build/gocache
Q=/root/work/robust3/queue.txt; L=/root/work/robust3/logs
touch $Q
while true; do
  line=$(head -n1 $Q)
  if [ -z "$line" ]; then sleep 3; continue; fi
  sed -i 1d $Q
  [ "$line" = STOP ] && break
  set -- $line; p=$1; c=$2; sfx=${3:-}
  log=$L/$p.$c$sfx.log
  t0=$(date +%s)
  ( cd /root/work/rb2verif && bin/selftest $c /root/work/robust3/$p.diff ) > $log 2>&1
  rc=$?
  t1=$(date +%s)
  echo "RESULT patch=$p check=$c exit=$rc secs=$((t1-t0))" >> $log
  echo "$(date +%H:%M:%S) $p $c$sfx exit=$rc secs=$((t1-t0)) viol=$(grep -c '^VIOLATION' $log)" >> $L/SUMMARY.txt
  if [ $rc -ne 0 ]; then
    for r in $(grep '^VIOLATION' $log | sed -n 's/.*replay=\([^ ]*\).*/\1/p' | sort -u | head -6); do
      [ -f "$r" ] && head -c 6000 "$r" > $L/$p.$c$sfx.replay.$(basename $r .json).head.txt
    done
  fi
done
