#!/bin/bash
cd /tmp/rb3-wt && git reset -q --hard HEAD && git clean -fdq && git status --short | head
