#!/usr/bin/env python3
"""Builds REPORT.md from logs/SUMMARY.txt, logs/*.log, logs/*.replay.*.head.txt and the texts below."""
import glob, os, re, collections

D = "/root/work/robust3"
L = D + "/logs"

P = collections.OrderedDict()


def patch(name, change, harmless, diag=None):
    P[name] = dict(change=change, harmless=harmless, diag=diag or {})


patch("00-baseline-noop",
      "A newline appended to README.md (no Go source touched).",
      "No code changes.")

patch("01-metrics-size-through-sizeof-helper",
      "pkg/sql/tokenizer: the six calls `metrics.RecordTokenization(d, len(input), err)` pass `sizeOf(input)` with a new package function `func sizeOf(b []byte) int { return len(b) }`.",
      "`sizeOf(input) == len(input)` for every input; the recorded size is still a length (>= 0). Tokenizer tests pass.",
      {"C10": "FALSE ALARM. `tools/gotables/metricsprog.go: recordCallers` / closure `isLength` (the go/ssa value walk added after robust2/04): the case `*ssa.Call` accepts only the builtin `len` and answers `false, \"result of sizeOf\"` for every other call; it follows constants, conversions, phis, locals and *parameters* (callers), but never the *results* of a callee. `lib/c10.py` turns the two first sites into `size_arg_pkg_sql_tokenizer_tokenizer_go_418 / _506` (hypothesis `0 <= recorded size` of `C10_metrics_totals_exact`). Everything dynamic (rounds, race mixes, sequential correspondence) is clean: `no-failing-input-found`. Repair: for a static callee of the module, the call is a length when every `Return` operand of the callee is one (recursion with the same depth bound / seen set, parameters of the callee bound to the arguments of this call)."})

patch("02-metrics-mutex-deferred-closure-unlock",
      "pkg/metrics: `errorsMutex` is a `sync.Mutex` instead of a `sync.RWMutex` (`GetStats` takes `Lock` instead of `RLock`); the two copies of `Lock(); errorsByType[k]++; Unlock()` in `RecordTokenization` / `RecordParse` go through a helper `bumpError(k)`: `mu := &globalMetrics.errorsMutex; mu.Lock(); defer func() { mu.Unlock() }(); globalMetrics.errorsByType[k]++`.",
      "Same critical section around the same increment; a Mutex is a stricter lock than the RWMutex it replaces (readers exclude each other too), no lock is taken while another is held. `go test -race ./pkg/metrics/` passes.",
      {"C10": "FALSE ALARM (three recognisers; separated by the variants 02b and 02c below). (1) `tools/gotables/metricsprog.go` (go/ast translator of the Record* bodies): the robust2 repair knows exactly `g.M.Lock(); ...; defer g.M.Unlock()`; here the statement `mu := &globalMetrics.errorsMutex` is `<*ast.AssignStmt>` -> section `unknown` on `errorsMutex`, the `defer func(){...}()` is `<*ast.DeferStmt>` -> `location ?`, so the increment `<*ast.IncDecStmt>` lies outside any recognised Lock..Unlock region: `shape_metrics_RecordParse_{errorsMutex,_,errorsByType}`, the same three for RecordTokenization (`Inst_C10.metrics_progs_ok`), and the sequential run of the gap program differs from the code (`seq_mismatch_0`). (2) `tools/gotables/accesses.go` (go/ssa must-held analysis): `mu` is captured by the deferred closure, so go/ssa makes it a heap cell (Alloc/Store/Load); the receiver of `mu.Lock()` is a load from that cell and is not resolved to `globalMetrics.errorsMutex`: the access table has `held: []` for the map update in `bumpError` -> `footprint_pkg_metrics_globalMetrics_errorsByType` (`Inst_C10.globals_ok`, 'accessed without a common mutex'). All eight `no-failing-input-found` (race detector rounds clean). The RWMutex -> Mutex change itself raised nothing. Repair: (1) normalise local aliases of a mutex address and `defer func(){ M.Unlock() }()` (a function literal whose body is only unlocks) to the direct form before sectioning; (2) resolve a lock receiver through single-assignment captured locals (the Alloc has one Store, of a FieldAddr of a cell) and apply the unlocks of a deferred function literal at the RunDefers of the enclosing function."})

patch("02b-metrics-mutex-deferred-closure-unlock-no-alias",
      "Variant of 02 without the local alias: `globalMetrics.errorsMutex.Lock(); defer func() { globalMetrics.errorsMutex.Unlock() }(); globalMetrics.errorsByType[k]++` in `bumpError`.",
      "As 02.",
      {"C10": "FALSE ALARM. (1) metricsprog.go: `defer func(){ ... }()` is not the recognised `defer g.M.Unlock()` (`statement not recognised by the translator: metrics.go:377 <*ast.DeferStmt>`), so the lock is never released in the translated program and the increment is `unknown`: 6 shape violations + `seq_mismatch_0`. (2) `tools/gotables/acquire.go` (lock-order table): the header comment says 'defer m.Unlock() keeps the lock until the function returns; it is released at the return only if the defer was certainly executed (must-set of deferred unlocks)' - an unlock inside a deferred *function literal* is not in that set, so `errorsMutex:W` stays in `may_held` after `bumpError` returns, and the next call of `bumpError` on any path (`reached_from (*Optimizer).AnalyzeSQL, (*Linter).LintDirectory`) is reported as a re-entrant acquisition: `lockorder_pkg_metrics_globalMetrics_errorsMutex` (`Inst_C10.lock_order_ok`, model witness `C10_reentrant_read_lock_refuted`), `no-failing-input-found` (the watchdog search finds no hang). The access table (accesses.go) is fine here (no footprint alarm): the direct receiver is resolved. Repair: in acquire.go treat a deferred closure/function whose summary is 'releases M, acquires nothing' like `defer M.Unlock()`; in metricsprog.go as for 02."})

patch("02c-metrics-mutex-local-pointer-alias",
      "Variant of 02 without the deferred closure: `mu := &globalMetrics.errorsMutex; mu.Lock(); globalMetrics.errorsByType[k]++; mu.Unlock()` in `bumpError`.",
      "As 02.",
      {"C10": "FALSE ALARM, metricsprog.go only: `mu := &globalMetrics.errorsMutex` is `<*ast.AssignStmt>` 'not recognised by the translator', `mu.Lock()` is then not a lock of a metrics field and the increment is outside any region (4 shape violations + `seq_mismatch_0`). The three go/ssa tables (footprint, lock order, size arguments) accept the patch: without the capture the alias is a plain SSA value. Repair: bind a local that is assigned once the address of a field of the metrics variable (`x := &g.F`) to that location in the go/ast translator (it already binds pointer *parameters* of inlined helpers)."})

patch("03-monitor-guard-returns-unlock-method-value",
      "pkg/sql/monitor: new method `func (m *Metrics) guard() func() { m.mu.Lock(); return m.mu.Unlock }`; `RecordTokenizerCall` / `RecordParserCall` write `unlock := globalMetrics.guard(); globalMetrics.TokenizerDuration += d; unlock()` instead of `mu.Lock(); ...; mu.Unlock()`.",
      "Same write lock held around the same single update (the well-known `unlock := lock()` idiom); the method value `m.mu.Unlock` is called exactly once, right after the update. `go test -race ./pkg/sql/monitor/` passes.",
      {"C10": "FALSE ALARM. (1) metricsprog.go: `unlock := globalMetrics.guard()` is an unrecognised `<*ast.AssignStmt>` ('location guard is not a field of the metrics struct'; only call *statements* are inlined, design/C10.md says so), hence `TokenizerDuration += d` / `ParserDuration += d` are 'non-atomic access outside the mutex' with a lost-update witness: `shape_monitor_Record{Tokenizer,Parser}Call_{guard,*Duration}` (`Inst_C10.monitor_progs_ok`). (2) accesses.go: the must-held set is inherited *into* callees but a callee that returns with a lock held does not add it to the caller's state, and a call of the bound method value `m.mu.Unlock` is not an unlock: the update has `held: []` -> `footprint_pkg_sql_monitor_globalMetrics` ('ParserDuration is accessed without a common mutex', `Inst_C10.globals_ok`). All five `no-failing-input-found`. Repair: give functions a lock summary (net effect at return: acquires M / releases M) applied at call sites in accesses.go / acquire.go, recognise `$bound` wrappers of `(*sync.Mutex).Unlock` / `(*sync.RWMutex).Unlock` reached through a function value (funcvals.go can enumerate them) as unlocks; in metricsprog.go inline a call on the right-hand side of a short variable declaration when the result is a func value that is only called."})

patch("04-metrics-snapshot-constructors",
      "pkg/metrics: `GetStats` reads the counters with `c := loadCounters(globalMetrics)` (a new unexported struct `counters` filled by 22 atomic loads) and builds the snapshot with `stats := newStats(c)` (constructor returning the `Stats` literal); rates and the error map are added as before. pkg/sql/monitor: `GetMetrics` builds its literal in `snapshotOf(src *Metrics)`, called under the read lock.",
      "Same loads (each counter once, atomically), same values in the same public fields; `go test -race` of both packages passes.",
      {"C10": "FALSE ALARM. `metricsprog.go: publicNames` (widened after robust2/14 to assignments and helpers 'two levels', value passing 'through locals, var, conversions, a one-argument load helper') does not follow a value through the *field of an intermediate struct* (`counters.minSize` written in `loadCounters`, read in `newStats`): `minQuerySize` / `maxQuerySize` get no public name, fall back to role `RCounter`, and the unchanged CAS loops are judged as counters: `shape_metrics_RecordTokenization_minQuerySize / _maxQuerySize`, 'counter updated by rmw instead of an atomic add', `no-failing-input-found`. (The plain counters survive because RCounter is the default role; monitor's `snapshotOf(src)` with a `*Metrics` parameter was accepted.) Repair: make the publication walk field-sensitive for unexported struct types of the package (store to `T.f` in one function, load of `T.f` in another), or - as already suggested in robust2 - take RMin/RMax from the update protocol (`is_rmw_loop` class) when no public name is found."})

patch("05-tokenizer-reset-through-fresh-helper",
      "`Tokenizer.Reset` is `*t = fresh(t)` with `func fresh(old *Tokenizer) Tokenizer` returning `Tokenizer{keywords: old.keywords, dialect: old.dialect, configured: old.configured, pos: NewPosition(1, 0), lineStarts: append(starts, 0)}` (`starts` = the emptied old line table or a new one of capacity 16).",
      "Field by field the same values as the old Reset (input nil, lineStart / loc zero, line 0, logger nil, Comments nil, configuration kept, line table [0] on the old backing array); the struct-literal form of robust2/34, only moved into a function. Tokenizer tests pass.",
      {"C08": "FALSE ALARM. `tools/gotables/fieldfx.go: identityStores` (the robust2/34 repair) is intra-procedural and intra-block: it recognises `*x = T{f: x.f, ...}` because go/ssa emits `*x = zero; x.f = v` in one block. `*t = fresh(t)` is a whole-struct store of a *call result* (`case *ssa.Store` with `isTargetPtr(x.Addr.Type())`): every field gets `mayWrite | unbalanced`, and, the value not being the zero struct, `nonzeroStore | unpairedNonzero`; `fresh` itself reads keywords/dialect/configured of its argument. The regenerated rows `Tokenizer.Reset / Tokenize / TokenizeContext / PutTokenizer` lose `must0` (input, lineStart, line, logger, loc, Comments) and `none0/Keep` (keywords, dialect, configured): 35 incompatible cells in `inst_c08` (`Inst_C08`), `no-failing-input-found` (histories, reflect oracle, dirtiness correspondence clean). Repair: summarise a same-package function that returns a struct literal of the target type per field (zero / copy of field f of parameter i / other) and apply the summary at `*x = g(x)` as if the literal were written in place."})

patch("06-pool-new-named-functions",
      "The `New:` function literals of `bufferPool`, `tokenizerPool` (tokenizer/pool.go), `parserPool` (parser.go) and of six AST pools (`astPool`, `selectStmtPool`, `identifierPool`, `binaryExprPool`, `literalValuePool`, `inExprPool`) are named package functions (`newPooledTokenizer`, `newPooledSelect`, ...; three of them `return new(T)`).",
      "Same objects with the same capacities from an empty pool; a named function as `sync.Pool.New` is the same value as the literal.")

patch("07-parser-cancel-state-nested-struct-getter",
      "Parser field `cancelErr error` replaced by `cancel cancelState` (`type cancelState struct{ err error }`) read through a getter `func (p *Parser) cancelled() error { return p.cancel.err }`; `pollContext` is `if err := p.cancelled(); err != nil { return err }; if p.ctx == nil { return nil }; p.cancel.err = p.ctx.Err(); return p.cancelled()`; `advance` polls with `_ = p.pollContext()` every 64 tokens and then tests `p.cancelled() != nil`; Reset / Release / ParseContext clear `p.cancel = cancelState{}`.",
      "Same state machine: nil until a poll sees the context done, then that error for the rest of the call; `advance` does not poll once cancelled (pollContext returns early) and looks at the stored value right after the poll, exactly as before; storing `ctx.Err()` when it is nil stores nil over nil. Every boundary operation clears the field. Parser and gosqlx tests pass.",
      {"C11": "FALSE ALARM (the variants 07b / 07c isolate the cause - see there). `tools/gotables/errsites.go`, discard analysis (`keptResult` / `fieldReadTowardsAPI`, the robust2/08 repair): `discard__Parser_advance_827` (`_ = p.pollContext()`, how `unused`) and `discard__Parser_advance_829` (`if p.cancelled() != nil { ...; return }`, how `returns-nil`: the getter is an error-returning function of the scope, its result is tested and `advance` then returns nothing). Both `no-failing-input-found`; the sweep over every poll index is clean. The cause is the *getter*, not the nested struct (07c, nested struct read directly, passes C11; 07b, flat field + getter, gives the same two violations): `keptValue` accepts `return p.cancelled()` as 'the result of a function for which the same holds' and appends `cancelled` to the keepers (`r.fns = append(r.fns, sub.fns...)`); `fieldReadTowardsAPI(fk, keepers)` then skips every load of the field that sits in a keeper (`inKeeper`) - and with a getter *all* loads of the field sit in `cancelled()`. So the value counts as parked in a field nobody reads, `resultKept` is false, and both the ignored poll result and the tested getter result are discards. Repair: a function whose error result is only a load of the field (no store: a pure getter) is not a keeper but a *read*: treat its call sites as loads of the field (the value of the call is what `consumed` should be looked up for), or inline such getters before the discard analysis.",
       "C08": "FALSE ALARM with respect to the property, expected with respect to the model: `tools/gotables/roles.go` finds the column `cancelErr` of `Model/Reuse.v` by role (an `error`-typed field); the field is now a struct, so the role is played by no field ('model field played by no struct field: cancelErr'), the new field `cancel` is an 'extra field: its incoming value is read and it is not well behaved' (pollContext reads it - as it read cancelErr), and `dirtiness_correspondence` reports `struct_changed`. No carry-over is possible (ParseContext assigns the field before any read, Reset / Release / Put clear it); histories clean (`no-failing-input-found`). Repair: let a role be played by a path (`cancel.err`) - fieldfx already works on field indices and could flatten nested unexported struct fields of the receiver into columns."})

patch("07b-parser-cancel-flat-field-getter",
      "Variant of 07 that keeps the flat field `cancelErr error`: only the getter `cancelled()` (returns `p.cancelErr`), the condensed `pollContext` and `_ = p.pollContext()` in `advance`.",
      "As 07.",
      {"C11": "FALSE ALARM, the same two violations as 07 (`discard__Parser_advance_822` how `unused`, `discard__Parser_advance_824` how `returns-nil`): see the diagnosis there - `errsites.go: keptValue / fieldReadTowardsAPI` count the getter as a keeper of the field and ignore the loads inside keepers, so a field that is read only through its getter is 'read by nobody'. C08 passes (field list unchanged)."})

patch("07c-parser-cancel-state-nested-struct-no-getter",
      "Variant of 07 with the nested struct but without the getter: every read is `p.cancel.err`.",
      "As 07.",
      {"C08": "FALSE ALARM, as 07 / C08: the model column `cancelErr` (found by role: an `error`-typed field of the parser) is played by no field once the error lives in a nested struct (`roles.go`), `cancel` is an unmodelled extra field whose incoming value is read. C11 passes: `fieldOfAddr` keys the nested field by (cancelState, err) and the direct loads are seen."})

patch("08-parser-error-builder-type-variadic-cause",
      "pkg/sql/parser/errors.go: (a) `func (p *Parser) syntaxError(message string, cause ...error) error` (optional cause; calls `goerrors.WrapError(ErrCodeInvalidSyntax, message, p.currentLocation(), \"\", cause[0])`), used by the six one-line `goerrors.WrapError` sites of MERGE; (b) a small builder type `parseFailure{parser, what, context}` with value-receiver methods: `p.failedToParse(\"LIKE pattern\").because(err)` / `.near(\"\").because(err)` replaces the six `InvalidSyntaxError(fmt.Sprintf(\"failed to parse X: %v\", err), p.currentLocation(), ctx).WithCause(err)` sites of `parseComparisonExpression`.",
      "Same builder, code, message text, location (`currentLocation()` evaluated at the same cursor), context and cause at every site. Parser and gosqlx tests pass.",
      {"C13": "FALSE ALARM - the translator crashes. `stage_gotables-run`: `panic: runtime error: invalid memory address or nil pointer dereference ... main.fnName(...) tools/gotables/main.go:300 <- (*efState).newNode errsites.go:416 <- (*efState).unknown errsites.go:526 <- (*efState).dfsParam errsites.go:771`. `fnName` evaluates `f.RelString(f.Pkg.Pkg)`; for the *synthetic pointer-receiver wrappers* go/ssa creates for the value-receiver methods (`(*parseFailure).because`, `(*parseFailure).near`) `f.Pkg` is nil (fault address 0x8 = field `Pkg` of a nil `*ssa.Package`). `dfsParam` reaches a parameter of such a wrapper (no static caller), calls `s.unknown(p, \"param\", ...)`, and `newNode` names the function. The check reports the stage failure as a violation ('the harness/translator no longer builds or runs against the tree') after 3 s, before any input is run. The variant 08b (same patch, pointer receivers: no wrappers) passes C13, C11 and C05, so the variadic cause and the builder flow themselves are followed correctly. Repair: `fnName` / `shortPkg` / `s.scope[fn.Pkg]` must tolerate `f.Pkg == nil` (use `f.Synthetic` / the receiver's package, or map a wrapper to the method it wraps, as funcvals.go does for `$bound` / `$thunk`).",
       "C11": "FALSE ALARM, same crash of `tools/gotables` (`stage_gotables-run`).",
       "C05": "FALSE ALARM, same crash of `tools/gotables` (`stage_gotables-run`); every check that stages gotables would report it."})

patch("08b-parser-error-builder-pointer-receiver-variadic-cause",
      "Variant of 08: `failedToParse` returns `*parseFailure`, `near` / `because` have pointer receivers (no synthetic wrappers in go/ssa). Everything else as 08.",
      "As 08.")

patch("09-parser-statement-kind-interface-dispatch",
      "`parseStatement` dispatches through an unexported interface: new file statement_kinds.go with `type statementKind interface { parse(p *Parser) (ast.Statement, error) }`, one empty struct type per statement (`selectKind`, `insertKind`, ... 14 of them) whose `parse` consumes the keyword and calls the production of the old switch case, and `statementKindOf(t models.TokenType) statementKind` (a switch returning the implementation, nil for no statement); `parseStatement`: `if kind := statementKindOf(p.currentToken.Type); kind != nil { return kind.parse(p) }; return nil, p.expectedError(\"statement\")`.",
      "Same production for each leading token type, keyword consumed in the same place (not for WITH), same fallback error; no state. Parser and gosqlx tests pass.",
      {"C13": "FALSE ALARM. `tools/gotables/errsites.go: dfsCall`: the robust2/30 repair (funcvals.go) enumerates *function values*; a method call through an interface takes the first branch `if c.IsInvoke() { ...; s.unknown(call, \"invoke:\"+c.Method.Name(), set); return }` (only `ctx.Err` and `Unwrap` are known invokes) and becomes the node `parser.go:707 (*Parser).parseStatement unknown invoke:parse`, 'never ok' for `c13_site_table_ok`: `site_parser_go_Parser_parseStatement_unknown_invoke_parse_1` plus three `shape_13x_02001` correspondence violations (the chain `[E2001]` of an ordinary syntax error is 'not derivable': everything below the dispatch is cut off). All `no-failing-input-found`. The interface is unexported, declared in the package, and all 14 implementations are unexported types of the package: the world is closed. Repair: resolve an invoke on an interface type that cannot be implemented outside the module (unexported interface or unexported method) to the methods of the module's types that implement it (class-hierarchy resolution restricted to the module; the whole-program VTA call graph that funcvals.go computes as a cross-check could supply the same edges).",
       "C11": "FALSE ALARM, same cause: poll sites below the `unknown invoke:parse` node are disconnected from the entry points, the chains observed under cancellation (`[E2004 x4, %w, ctx]` at `Parser.ParseContextFromModelTokens`, k = 9, 8, ...) are 'not derivable from the site table as a context error': `shape_Parser_ParseContextFromModelTokens_0..2`, `no-failing-input-found`; the sweep itself is clean.",
       "C08": "FALSE ALARM. `tools/gotables/fieldfx.go: callees`, first branch: `if c.IsInvoke() { for _, arg := range c.Args { if a.isTargetPtr(arg.Type()) { return nil, true } } }` - an interface method call that is handed a `*Parser` is an unknown callee (may read and write every field; the repair for robust2/30 resolves function *values* only). Every Parse* row changes (`depth: balanced -> may`, `ctx`, `positions`, `strict`, `dialect` -> may): 37 incompatible cells in `inst_c08`, `no-failing-input-found`. Same repair (closed-world interface -> its implementations)."})

patch("09b-parser-statement-productions-struct-of-funcs",
      "Variant of 09 with function values instead of an interface: a package-level `var productions struct{ with, selectQuery, insert, ... statementProduction }` (type `func(p *Parser) (ast.Statement, error)`), filled in `init()` with method expressions (`(*Parser).parseInsertStatement`) and three small closures (for the productions with a concrete result type); `parseStatement` picks `production = productions.insert` in a switch, advances (not for WITH) and calls `production(p)`.",
      "As 09; the struct is written once during package initialisation and only read afterwards.")

patch("10-linter-keyword-set-as-switch",
      "keyword_case.go: the map literal `sqlKeywords` is replaced by `func isSQLKeyword(upperWord string) bool { switch upperWord { case \"SELECT\", ... : return true }; return false }` with the same 89 words; the two lookups call it.",
      "Same membership predicate; linter tests pass.")

patch("11-tokenizer-position-conversion-two-helpers-two-files",
      "`toSQLPosition` split: `seekLine(idx)` (binary search / forward line scan on the resume point) moved to position.go, `columnAt(idx)` (the column-counting byte loop, tab width as a constant `tabColumns`) to a new file columns.go; `toSQLPosition` is `guard; t.seekLine(idx); return models.Location{Line: t.loc.lineIdx + 1, Column: t.columnAt(idx)}`.",
      "Same statements in the same order on the same resume point; `columnAt` does not touch `lineIdx`. Tokenizer tests pass.")

patch("12-ast-sql-serialiser-concat-helpers-switch-reordered",
      "pkg/sql/ast/sql.go: `fmt.Sprintf` replaced by concatenation in WhenClause / Between / In / Exists / Subquery / Any / All / Extract / Position / Substring / Interval / ArrayConstructor; helpers `parenthesized`, `notPrefix`, `quantifiedSQL`; List / Tuple / ArrayConstructor / In use `exprListSQL`, which now writes into a pooled builder (0 and 1 element fast paths); `UnaryExpression.SQL` is one reordered switch (Not, Minus, Plus, factorial, default).",
      "Byte-identical output for every node (all `%s` operands are strings); ast, formatter, parser, gosqlx tests pass.")

patch("13-ast-format-pooled-builder-formatter-options-helper",
      "pkg/sql/ast/format.go: `newFormatter` takes its builder from the pool of the SQL() serialisers and `result()` gives it back; `kw` is an if-chain (lower first), `indentStr` uses `indentUnit(style)`; `AST.Format` writes the statements into one builder with a type switch instead of collecting parts and `strings.Join`. pkg/formatter: the translation of `Options` into `ast.FormatOptions` moved to `func (o Options) style()` (preset chosen as a function value, the two overrides in the other order).",
      "Same text: `strings.Builder.Reset` drops the buffer, so a string handed out stays valid; the overrides touch different fields. ast, formatter, gosqlx tests pass.")

patch("14-extract-collectors-generic-sorted-keyed",
      "pkg/gosqlx/extract.go: the column, function, qualified-column and qualified-table collectors keep their findings in a generic `keyed[V any]` (sorted key slice with binary-search insertion + value slice) instead of `map[string]bool` / `map[string]QualifiedName`; `toSlice` returns the values in key order.",
      "Same set (later value for an equal key replaces the earlier one, as a map store did); the old order was unspecified map order; an empty result is still a non-nil empty slice. gosqlx tests pass.")

patch("15-security-pattern-groups-slice-of-structs-package-init",
      "pkg/sql/security/scanner.go: `compiledPatterns map[PatternType][]*regexp.Regexp` + the three per-call maps `severityMap / riskMap / suggestionMap` + two `sync.Once` become one package-level `regexGroups []regexGroup{kind, severity, risk, suggestion, exprs}` compiled in its initialiser (same order), looked up by `regexGroupOf(kind)`; `commentPatterns` is a named struct slice initialised the same way; the `Once.Do` calls are gone.",
      "Same expressions in the same order with the same severity / risk / suggestion; package-level initialisation happens before any use and the tables are read-only afterwards (race free). security tests pass.")

patch("16-lsp-documents-line-helpers-setcontent",
      "pkg/lsp/documents.go: `Document.setContent` (content + cached line split) used by Open and Update (full and incremental sync both through `applyChange`); `offsetOfPosition` split into `startOfLine` / `endOfLine` (the latter with `strings.IndexAny(.., \"\\r\\n\")`); `splitLines` walks with `endOfLine`; `applyChange` builds the text by concatenation.",
      "Same offsets for every position (clamping cases checked by hand: line past the end, empty document, CR / CRLF / LF) and the same line split; lsp tests pass.")

patch("17-errors-codes-file-hinted-helper-cache-struct-key",
      "pkg/errors: the `ErrCode*` constant block moved from errors.go to a new file codes.go; `UnexpectedTokenError` / `ExpectedTokenError` end with `return hinted(NewError(code, message, location).WithContext(sql, n), expected, got)` with a new helper `hinted(err *Error, expected, found string) *Error` (adds `GenerateHint(err.Code, ..)` if not empty); the suggestion cache is keyed by `suggestionKey{length int; word string}` instead of the string.",
      "Same constants; same error value (code, message, location, context, hint) from both builders; the key is a function of the word (equal words <=> equal keys). errors and parser tests pass.",
      {"C13": "FALSE ALARM. `tools/gotables/errsites.go: summary` / `chain` (what code does a builder of pkg/errors give its result?) follows the returned value through `MakeInterface`, phis, the methods `WithContext / WithHint / WithCause`, `NewError(K, ..)` and calls of other builders *whose own summary has a code or a code parameter*. `hinted` returns its `*Error` *parameter* (a phi of the parameter and `err.WithHint(..)`): there is no 'the result is the chain on parameter i' in the summary (`codeParam` is a parameter that is a *code*, `causeParam` one that is a cause), so `summary(hinted)` is not ok, hence `summary(ExpectedTokenError)` and `summary(UnexpectedTokenError)` are not ok and the leaf `parser.go:947 (*Parser).expectedError leaf ExpectedTokenError` has no code: `site_parser_go_Parser_expectedError_leaf_1` (`Inst_C13.c13_site_table_ok`) and the observed `[E2001]` shapes are 'not derivable' (`shape_132/134/136_02001`). All `no-failing-input-found`; every oracle on the entry points is clean. C05 and C10 on the same patch pass. Repair: add a pass-through parameter to the builder summary (`selfParam`: result = Error-typed parameter i, possibly through With* methods) and take the code from `codeOfChain` of that argument at the call."})

patch("18-parser-ladder-levels-share-left-assoc-helper",
      "expressions.go: the three copies of the left-associative loop (`||`, `+ -`, `* / %`) are one method `parseLeftAssociative(operand func() (ast.Expression, error), atOperator func() bool)`; `parseStringConcatExpression` / `parseAdditiveExpression` / `parseMultiplicativeExpression` call it with method values (`p.parseMultiplicativeExpression`, `p.atAdditiveOperator`).",
      "Same grammar, same operand productions, same token tests, same trees. Parser and gosqlx tests pass.")

patch("19-tokenizer-number-reader-byte-range-helpers",
      "`readNumber`: the three rune-decoding digit loops become `skipDigits()` (`for _, b := range t.input[t.pos.Index:]` over bytes), the two 'end of input or not a digit' tests become `!t.atDigit()`, `.`, `e/E` and the sign are tested on the byte.",
      "Only ASCII characters are compared, for which byte and rune tests agree (a byte >= 0x80 is no digit either way); positions advance by the same amounts; same errors at the same places. Tokenizer tests pass.")

patch("20-cli-exit-status-returned-to-main",
      "cmd/gosqlx: the two `os.Exit(1)` inside the `format` command (`--check` found unformatted input) return `exitSilently(cmd, 1)` = a new `*cmd.ExitError{Code}` after setting `SilenceErrors / SilenceUsage`; `main` is `os.Exit(run())` where `run` maps nil -> 0, `*ExitError` -> its code without printing, any other error -> print `Error: ...` and 1.",
      "Same output and the same exit status (compared by hand with the binary of the unmodified tree on `format --check` of a file and of stdin); no deferred work is skipped or added. cmd tests: only the two known root-user failures.")

patch("21-gosqlx-batch-helper-per-query",
      "pkg/gosqlx: `ParseMultiple` / `ValidateMultiple` share a `batch{tkz, p}` (`newBatch`, `release`) and a helper per query `parseOne(sql) (tree, stage, err)`; `ParseMultiple` wraps with `fmt.Errorf(\"query %d: %s failed: %w\", i, stage, err)` (stage = \"tokenization\" / \"parsing\").",
      "Same calls in the same order on the same tokenizer and parser, same release order, same error texts and Unwrap chains. gosqlx tests pass.")

patch("22-parser-recovery-labelled-loops",
      "recovery.go: the statement loop of `parseWithRecovery` is labelled (`statementLoop:`), the success branch comes first and ends in `continue statementLoop`, the error branch is the loop tail; `synchronize` is a labelled `scan:` loop with a `switch { case EOF: break scan; case semicolon: advance; break scan; case keyword: break scan }`.",
      "Same statements per branch; EOF / semicolon / keyword are mutually exclusive token types, so the case order is immaterial. Parser and gosqlx tests pass.")

patch("23-cli-formatter-options-generic-override-helper",
      "cmd/gosqlx/cmd/formatter.go: the eight `if flagsChanged[name] { opts.X = flags.X }` of `FormatterOptionsFromConfig` are calls of a generic `overrideWith[T any](given flagOverrides, option *T, value T, flagNames ...string)`.",
      "Same override rule per option (`uppercase` / `no-uppercase` are the two spellings of one flag, as before). cmd tests: only the known root-user failure.")


ONE = {
 ("01-metrics-size-through-sizeof-helper", "C10"): "metricsprog.go `recordCallers/isLength`: a `*ssa.Call` is a length only if it is the builtin `len`; the result of the helper `sizeOf(b) = len(b)` is rejected ('result of sizeOf') -> size_arg_* table gaps",
 ("02-metrics-mutex-deferred-closure-unlock", "C10"): "metricsprog.go has no case for `mu := &g.M` nor for `defer func(){ mu.Unlock() }()` (shape + seq_mismatch); accesses.go does not resolve a lock receiver that is a captured local (heap cell) -> footprint 'errorsByType without a common mutex'",
 ("02b-metrics-mutex-deferred-closure-unlock-no-alias", "C10"): "metricsprog.go: `defer func(){ g.M.Unlock() }()` is not the recognised `defer g.M.Unlock()`; acquire.go: an unlock inside a deferred function literal is no release -> false re-entrant-lock row (lock_order_ok)",
 ("02c-metrics-mutex-local-pointer-alias", "C10"): "metricsprog.go only: the alias `mu := &globalMetrics.errorsMutex` is an unrecognised AssignStmt, Lock/Unlock through it are not seen (the go/ssa tables accept the patch)",
 ("03-monitor-guard-returns-unlock-method-value", "C10"): "metricsprog.go: `unlock := g.guard()` (call on the right of :=) is not inlined; accesses.go: a lock taken in a callee that returns holding it, released through the method value `m.mu.Unlock`, is invisible -> 'non-atomic access outside the mutex' + footprint gap",
 ("04-metrics-snapshot-constructors", "C10"): "metricsprog.go `publicNames` does not follow a value through a field of an intermediate struct (`counters` -> `newStats(c)`): minQuerySize/maxQuerySize lose RMin/RMax, CAS loops judged as counters",
 ("05-tokenizer-reset-through-fresh-helper", "C08"): "fieldfx.go `identityStores` is intra-block: `*t = fresh(t)` is a whole-struct store of a call result, every Tokenizer cell becomes written-nonzero/unbalanced (must0 and Keep cells lost)",
 ("07-parser-cancel-state-nested-struct-getter", "C11"): "errsites.go `keptValue/fieldReadTowardsAPI`: the getter `cancelled()` counts as a keeper of the field and loads inside keepers are ignored, so a field read only through its getter is 'read by nobody': `_ = p.pollContext()` unused, getter result returns-nil",
 ("07-parser-cancel-state-nested-struct-getter", "C08"): "roles.go: the model column cancelErr (role: error-typed field) is played by no field when the error lives in a nested struct; `cancel` is an unmodelled extra field whose incoming value is read; struct_changed",
 ("07b-parser-cancel-flat-field-getter", "C11"): "same as 07/C11 with the flat field: the getter alone causes it",
 ("07c-parser-cancel-state-nested-struct-no-getter", "C08"): "same as 07/C08: the nested struct alone causes it (C11 passes)",
 ("08-parser-error-builder-type-variadic-cause", "C13"): "tools/gotables crashes: `fnName` (main.go:300) dereferences `f.Pkg` of the synthetic pointer wrapper go/ssa makes for a value-receiver method (`(*parseFailure).because`), reached from errsites.go `dfsParam -> unknown -> newNode`; stage_gotables-run reported as violation",
 ("08-parser-error-builder-type-variadic-cause", "C11"): "same crash of tools/gotables (stage_gotables-run)",
 ("08-parser-error-builder-type-variadic-cause", "C05"): "same crash of tools/gotables (stage_gotables-run)",
 ("09-parser-statement-kind-interface-dispatch", "C13"): "errsites.go `dfsCall`: every interface method call (except ctx.Err / Unwrap) is an `unknown invoke:<m>` node, even on an unexported interface whose implementations are all in the package: c13_site_table_ok false + [E2001] shapes not derivable",
 ("09-parser-statement-kind-interface-dispatch", "C11"): "same node cuts the poll sites off: cancellation chains at ParseContextFromModelTokens 'not derivable'",
 ("09-parser-statement-kind-interface-dispatch", "C08"): "fieldfx.go `callees`: an invoke that is handed a *Parser is an unknown callee (may touch every field): depth balanced -> may etc., 37 cells",
 ("17-errors-codes-file-hinted-helper-cache-struct-key", "C13"): "errsites.go `summary/chain`: a builder that passes its *Error through a helper returning its parameter (`hinted(NewError(..).WithContext(..), ..)`) has no code: no pass-through parameter in the builder summary -> ExpectedTokenError/UnexpectedTokenError leaf without code",
}


def runs():
    out = collections.OrderedDict()
    for line in open(L + "/SUMMARY.txt"):
        m = re.match(r"(\S+) (\S+) (C\d\d)\S* exit=(\d+) secs=(\d+) viol=(\d+)", line)
        if m:
            out.setdefault(m.group(2), []).append((m.group(3), int(m.group(4)), int(m.group(5)), m.group(1)))
    return out


def main():
    R = runs()
    w = []
    w.append("# Robustness of the /verif checks against harmless rewrites of /repo - third study\n")
    w.append("Runs: `cd /root/work/rb2verif && bin/selftest <Cnn> /root/work/robust3/<patch>.diff` (dedicated clone of /verif at `57ce443`, `bin/setup` run once, quick tier, "
             "`VERIF_GOCACHE=/verif/build/gocache`, strictly one check at a time through the sequential runner `q.sh`; `bin/selftest` of the clone calls the `bin/check` next to it). "
             "/repo HEAD `2c4a943` for every run (it did not move). Every patch is `git diff` output of the scratch worktree `/tmp/rb3-wt` (helper `mk.sh`: gofmt, `go build ./...`, "
             "`go build -tags verif ./...`, `go vet -tags verif` and `go test -count=1` of the touched packages); the only test failures are `TestValidator_PermissionDenied` and "
             "`TestValidateInputFile_NoReadPermissions` under cmd/gosqlx (root sandbox; they fail on the unmodified tree too). Files: `NN-name.diff`; `logs/<patch>.<Cnn>.log` (full output + `RESULT` line); "
             "`logs/<patch>.<Cnn>.replay.<file>.head.txt` (first 6 kB of each replay of an alarming run); `logs/SUMMARY.txt` (one line per run, in execution order).\n")
    w.append("No alarm was timing-flavoured (no `growth_cpu_*`, `*_hang_*`, `not_prompt`, timeout), so nothing had to be re-run. "
             "Classification: **FALSE ALARM** = the property still holds for the patched tree (argued under 'Why harmless', supported by the unit tests and by the check's own "
             "implementation-side exploration reporting `no-failing-input-found`) and the check exits 1. No alarm of this study was caused by a rewrite that is not harmless.\n")
    w.append("Patches 01-11 are second-order variations of the recognisers repaired after the second study (kind A), 12-23 cover areas no study had touched (kind B); "
             "`NNb` / `NNc` are reduced variants written after an alarm to separate its causes.\n")
    fa, clean = [], []
    for name, meta in P.items():
        rs = R.get(name, [])
        w.append("\n## %s\n" % name)
        w.append("**Change.** %s\n" % meta["change"])
        w.append("**Why harmless.** %s\n" % meta["harmless"])
        w.append("**Checks run.** " + (", ".join("%s: exit %d (%d s)" % (c, rc, s) for c, rc, s, _ in rs) or "(none)") + "\n")
        alarms = [r for r in rs if r[1] != 0]
        if not alarms:
            w.append("**Outcome.** no alarm.\n")
            if name != "00-baseline-noop":
                clean.append(name)
        for c, rc, s, _ in alarms:
            w.append("\n### %s / %s - exit %d\n" % (name, c, rc))
            log = "%s/%s.%s.log" % (L, name, c)
            viol = [l.rstrip() for l in open(log) if l.startswith("VIOLATION")]
            w.append("```\n" + "\n".join(viol) + "\n```\n")
            heads = sorted(glob.glob("%s/%s.%s.replay.*.head.txt" % (L, name, c)))
            for h in heads[:2]:
                body = open(h).read()
                lines = body.split("\n")[:32]
                txt = "\n".join(l[:400] for l in lines)
                w.append("First lines of replay `%s`:\n\n```json\n%s\n```\n" % (os.path.basename(h).split(".replay.")[1].replace(".head.txt", ".json"), txt))
            if len(heads) > 2:
                w.append("(%d more replay heads in logs/)\n" % (len(heads) - 2))
            d = meta["diag"].get(c, "(no diagnosis written)")
            w.append("**Classification.** %s\n" % d)
            fa.append((name, c, d))
    w.append("\n## Summary\n")
    w.append("Runs: %d. Alarming (patch, check) pairs: %d, all false alarms. Patches without any alarm: %d of %d (baseline not counted).\n" % (
        sum(len(v) for v in R.values()), len(fa), len(clean), len(P) - 1))
    w.append("| patch | check | verdict |\n|---|---|---|")
    for n, c, d in fa:
        w.append("| %s | %s | FALSE ALARM - %s |" % (n, c, ONE[(n, c)].replace("|", "/")))
    w.append("\nPassed everywhere: " + ", ".join(clean) + "\n")
    w.append(TAIL)
    open(D + "/REPORT.md", "w").write("\n".join(w))
    print("alarms", len(fa), "clean", len(clean))


TAIL = """
## What the alarms have in common

* **C10, `tools/gotables/metricsprog.go`** (go/ast translator of the Record* bodies) is still the most shape-bound recogniser: each repair of round 2 admitted exactly the shape of the patch that exposed it
  (`defer g.M.Unlock()` but not `defer func(){ g.M.Unlock() }()`; pointer *parameters* bound to cells but not a local `mu := &g.M`; call *statements* inlined but not `unlock := g.guard()`;
  publication followed through locals and helpers but not through a field of an intermediate struct; a size argument followed back through locals and parameters but not through the result of
  a one-line helper). Patches 01, 02, 02b, 02c, 03, 04.
* **C10, the go/ssa tables** (`accesses.go`, `acquire.go`) have three genuine modelling gaps that only showed now: a lock whose receiver is a *captured* local (heap cell in SSA) is not resolved (02), an unlock
  inside a deferred function literal is not a release (02b: false re-entrancy), and a lock acquired in a callee that returns holding it / released through a bound method value is invisible (03).
* **C11 / C13 / C08, calls the translator cannot resolve**: function values are now enumerated (09b and 18 pass everywhere: struct of function fields, method values passed as parameters), but an
  *interface* with all implementations in the package is still an open-world `unknown invoke` in errsites.go and an unknown callee in fieldfx.go (09).
* **C13 builder summaries** (`errsites.go: summary/chain`) know code and cause parameters but not an `*Error` pass-through parameter (17).
* **C08 fieldfx**: the identity-store rule is intra-block; a Reset written as `*t = fresh(t)` loses every cell (05); roles are played by direct fields only, not by a path into a nested struct (07, 07c).
* **Translator crash**: value-receiver methods on a new type make go/ssa synthesise pointer wrappers with `Pkg == nil`; `fnName` dereferences it (08). A crash of `tools/gotables` is reported as a
  violation by every check that stages it - one nil check away from a false alarm on any patch that adds a value-receiver method in the error flow.
* Robust in this study: C02 (depth guards through the shared ladder helper), C03 / C06 (serialiser and formatter rewrites), C04 / C05 / C20 (position conversion split over files, byte-wise number reader),
  C07 / C09 / C12 (batch helper, labelled recovery loops, pools with named constructors), C14-C19 (collectors, scanner tables, keyword switch, LSP document helpers, CLI exit plumbing).
"""

if __name__ == "__main__":
    main()
