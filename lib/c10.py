"""C10 — concurrent use gives the sequential results, race-free, with exact metrics."""
import json, os, random, re, signal, subprocess
import common, gen10, sqlgen
from common import Report, log

MANIFEST = dict(
    technique='Coq proofs over ALL schedules and any number of goroutines (metrics update protocol as a small-step program regenerated from the source each run; goroutines over fresh pools; lockset discipline over the regenerated access table of every package-level variable; deadlock freedom by a rank on the mutexes over the regenerated table of Lock/RLock sites with may-held sets, sync.RWMutex writer preference modelled) + race-detector build and barrier-released rounds on the implementation',
    text="Theorems: metrics_exact (every counter equals its initial value plus the sum of every call's adds, the largest/smallest query size are the true maximum/minimum, for every interleaving of the individual atomic operations of any number of concurrent Record* calls; proved generically for add-only locations and for the class of compare-and-swap retry loops (is_rmw_loop: a decidable abstract execution of the translated control-flow graph — any loop/break/continue/flag/helper layout, not one literal instruction list), instantiated on the programs translated from the current source of pkg/metrics and pkg/sql/monitor (metrics state found by role, same-package helpers inlined, short-circuit conditions as control flow), shape check discharged by complete evaluation); *_refuted (load-compare-store and a single swap attempt lose the extreme: concrete two-goroutine schedules); results_sequential (goroutines that share only pools of observationally fresh objects return what they return alone, any schedule); footprint_race_free (every access to package-level state that is written outside init is a pool/once/atomic/sync.Map operation or holds the variable's mutex in a mode excluding the conflicting access: lockset discipline on the access table regenerated from go/ssa). no_deadlock (lock discipline: any number of goroutines, each blocked one blocked at a Lock/RLock site of the acquisition table regenerated from go/ssa with only mutexes held that MAY be held there (a may-analysis: union at joins, through calls, deferred unlocks until return); sync.RWMutex semantics with writer preference; a rank computed as a topological order puts every acquired mutex strictly above everything that may be held, checked by complete evaluation: then whenever somebody is blocked, a blocked call can return or a lock holder is running — no state is a deadlock); *_refuted (the re-entrant read lock with a pending writer and the AB/BA inversion are deadlocks and admit no rank); no_lock_leak (no entry point of the library returns to its caller while a mutex it took may still be held — exit table regenerated from go/ssa, every return path unlocks or the unlock is deferred; then a goroutine outside the library holds nothing and the running lock holder of no_deadlock is inside the library; leaked_lock_blocks: a lock leaked to the caller makes every later Lock/RLock on it wait for ever); when the table admits no rank the offending rows are named and goroutine mixes on the operations that reach the mutex run under a watchdog: a mix that does not finish is the replay, with the dump of the blocked goroutines. Implementation: translated programs are replayed sequentially against GetStats; barrier-released single-record rounds compare the totals with the true values after quiescence; N in {2, cores, 4*cores} goroutines run seeded mixes of tokenize/parse/format/extract/scan/lint/suggest/span/config/metrics-read under the race detector, every result compared with the sequential answer.",
    note=common.BASE_NOTE + "sync/atomic operations are taken as sequentially consistent single steps and a critical section under the struct's mutex as one atomic step; the access table is complete for accesses reachable through package-level variables by field/index/pointer paths and direct calls (dynamic calls listed in evidence); 'no data race under the Go memory model' beyond that footprint rests on the race detector over the explored schedules, which is supporting evidence, not proof.",
    design='6/C10')

PROPS = ["Props.C10.C10_metrics_totals_exact", "Props.C10.C10_monitor_totals_exact", "Props.C10.C10_counters_exact_always",
         "Props.C10.C10_max_load_compare_store_refuted", "Props.C10.C10_min_load_compare_store_refuted", "Props.C10.C10_max_single_attempt_refuted", "Props.C10.C10_stale_retry_never_returns",
         "Props.C10.C10_results_sequential", "Props.C10.C10_footprint_race_free", "Props.C10.C10_common_lock_orders",
         "Props.C10.C10_no_deadlock_by_lock_order", "Props.C10.C10_never_deadlocked", "Props.C10.C10_reentrant_read_lock_refuted",
         "Props.C10.C10_lock_order_inversion_refuted", "Props.C10.C10_no_lock_leak_outside_holds_nothing",
         "Props.C10.C10_no_lock_leak_running_holder_is_inside", "Props.C10.C10_leaked_lock_blocks"]
INST = ["Inst_C10.metrics_progs_ok", "Inst_C10.monitor_progs_ok", "Inst_C10.max_update_is_rmw_loop", "Inst_C10.min_update_is_rmw_loop",
        "Inst_C10.tokenization_contributes", "Inst_C10.parse_contributes", "Inst_C10.globals_ok", "Inst_C10.lock_order_ok", "Inst_C10.no_lock_leak_ok"]
# which public operations of the mix touch the state of a package (to aim the race-detector search at a broken table entry)
PKG_OPS = {"pkg/config": ["config"], "pkg/errors": ["suggest", "parse"], "pkg/sql/ast": ["span", "span_zero", "parse", "extract"], "pkg/metrics": ["metrics", "tokenize", "parse"],
           "pkg/sql/security": ["scan"], "pkg/linter": ["lint"], "pkg/sql/tokenizer": ["tokenize"], "pkg/sql/parser": ["parse", "parse_ctx", "parse_hold", "recovery"],
           "pkg/gosqlx": ["parse", "parse_ctx", "parse_hold", "recovery", "format", "extract"], "pkg/formatter": ["format"], "pkg/sql/keywords": ["tokenize", "parse"]}

# snapshot fields the harness projection exposes exactly (label = package prefix + public snapshot field name)
EXPOSED = {"pkg/metrics": ("metrics.", ["TokenizeOperations", "TokenizeErrors", "ParseOperations", "ParseErrors", "StatementsCreated", "PoolGets", "PoolPuts",
                                       "ASTPoolGets", "ASTPoolPuts", "StmtPoolGets", "StmtPoolPuts", "ExprPoolGets", "ExprPoolPuts", "MinQuerySize",
                                       "MaxQuerySize", "TotalBytesProcessed", "ErrorsByType"]),
           "pkg/sql/monitor": ("monitor.", ["TokenizerCalls", "TokensProcessed", "TokenizerErrors", "ParserCalls", "ParserErrors", "StatementsProcessed",
                                           "PoolHits", "PoolMisses", "TokenizerDuration", "ParserDuration"])}


def stat_fields(tabs, pkg):
    """private field of the metrics struct -> label of the harness projection, through the public snapshot name"""
    pre, names = EXPOSED[pkg]
    return {f: pre + pub for f, pub in tabs[pkg]["public"].items() if pub in names}


HARNESS_FUNCS = {"pkg/metrics": "metrics.", "pkg/sql/monitor": "monitor."}
KNOWN_RECORD = {"metrics.RecordTokenization", "metrics.RecordParse", "metrics.RecordPoolGet", "metrics.RecordPoolPut", "metrics.RecordASTPoolGet",
                "metrics.RecordASTPoolPut", "metrics.RecordStatementPoolGet", "metrics.RecordStatementPoolPut", "metrics.RecordExpressionPoolGet",
                "metrics.RecordExpressionPoolPut", "monitor.RecordTokenizerCall", "monitor.RecordParserCall", "monitor.RecordPoolHit", "monitor.RecordPoolMiss"}


# ------------------------------------------------------------------------------------------------
# shape diagnosis.  WHETHER a translated section has an accepted shape is decided by the model itself
# (Model.Metrics.role_ok evaluated by Coq on the regenerated programs: coq_shape_failures); python only says WHAT is
# wrong and aims the search.

def _norm(x):
    return json.dumps(x, sort_keys=True)


def coq_shape_failures(tabs):
    """{(pkg, func, field or None)} for which role_ok / known_locs is false on the regenerated programs; None if the
    evaluation itself failed (generated file does not compile: reported through the instance lemma)"""
    body = CASES_HDR
    for pkg in sorted(tabs):
        sh = gen10.short(pkg)
        body += "Definition bad_%s := Eval vm_compute in shape_failures %s_roles 0%%N %s_progs.\nPrint bad_%s.\n" % (sh, sh, sh, sh)
    ok, out, err = common.coq_cases("c10_shape", body)
    if not ok:
        return None
    bad = set()
    for pkg, t in tabs.items():
        m = re.search(r"bad_%s\s*=\s*(\[[^\]]*\])" % gen10.short(pkg), out)
        if not m:
            return None
        names = {i: f for f, i in t["fid"].items()}
        for x in re.findall(r"\d+", m.group(1)):
            i, l = divmod(int(x), 1000)
            bad.add((pkg, t["progs"][i]["func"], names.get(l)))
    return bad


def rmw_description(sec, role):
    """what is wrong with a read-modify-write section the model does not accept as a compare-and-swap retry loop"""
    ins = sec.get("instrs") or []
    ops = [i["op"] for i in ins]
    if sec["cond"] is not None:
        return "extreme value updated only under a condition on the arguments"
    if "cas" not in ops:
        return "extreme value not updated by a compare-and-swap loop (no compare-and-swap: a concurrent recording can overwrite a more extreme value)"
    if "store" in ops or "add" in ops:
        return "extreme value updated by a plain store on some path (a concurrent recording can overwrite a more extreme value)"
    first_load = ops.index("load") if "load" in ops else 0
    back = any(i["op"] in ("jmp", "jmpif") and i["t"] <= first_load and k > first_load for k, i in enumerate(ins))
    if not back:
        return "extreme value not updated by a compare-and-swap loop (no retry: a concurrent recording can overwrite a more extreme value)"
    return "extreme value update is not a compare-and-swap retry loop of the proved class (Model.Metrics.is_rmw_loop: the swap must replace the loaded value by the recorded size only where that improves, and leave only after a successful swap or when the loaded value is good enough)"


def section_defect(sec, role, coq_bad_here):
    """None if the section has the accepted shape for its role, else a short description"""
    if sec["kind"] == "unknown":
        return "statement not recognised by the translator: " + sec.get("text", "")
    if sec.get("plain"):
        return "non-atomic access outside the mutex"
    if role == "RCounter":
        return None if sec["kind"] == "add" else "counter updated by %s instead of an atomic add" % sec["kind"]
    if role == "RStamp":
        return None if sec["kind"] == "store" else "time stamp updated by %s" % sec["kind"]
    if sec["kind"] != "rmw":
        return "extreme value updated by %s" % sec["kind"]
    if coq_bad_here:
        return rmw_description(sec, role)
    return None


def diagnose(tabs, coq_bad):
    """list of (pkg, func, section, role, defect)"""
    out = []
    for pkg, t in tabs.items():
        roles = dict(t["roles"])
        for p in t["progs"]:
            flagged = set()
            for s in p["sections"]:
                role = roles.get(s["loc"])
                here = coq_bad is not None and (pkg, p["func"], s["loc"]) in coq_bad
                d = section_defect(s, role, here) if role else "location %s is not a field of the metrics struct" % s["loc"]
                if d:
                    out.append((pkg, p, s, role, d))
                    flagged.add(s["loc"])
            # the model rejects a (function, location) for which the description above found nothing: still a defect
            for (k, f, loc) in sorted(coq_bad or [], key=str):
                if k == pkg and f == p["func"] and loc not in flagged and loc is not None:
                    secs = [s for s in p["sections"] if s["loc"] == loc]
                    if secs:
                        out.append((pkg, p, secs[0], roles.get(loc), "the sections on %s do not have the shape proved exact for its role %s" % (loc, roles.get(loc))))
    return out


# ------------------------------------------------------------------------------------------------
# Coq-side helpers

CASES_HDR = ("From Coq Require Import List ZArith NArith.\nFrom GV Require Import Model.Metrics Gen.MetricsProg.\n"
             "Import ListNotations.\n")


def zl(xs):
    return "[" + "; ".join("(%d)%%Z" % int(x) for x in xs) + "]"


def witness_search(tabs, pkg, p, s, role):
    """ask the model for a two-goroutine schedule on which the regenerated section loses an update"""
    t = tabs[pkg]
    loc = t["fid"].get(s["loc"], 999)
    sec = "{| s_cond := CTrue; s_loc := %d%%N; s_body := %s |}" % (loc, gen10.body(s))
    nargs = len(p["params"] or []) + len(p.get("opaque") or [])
    pairs = []
    if role == "RMax":
        pairs = [(200, 100, 0, 200), (100, 200, 0, 200)]
    elif role == "RMin":
        pairs = [(100, 200, -1, 100), (200, 100, -1, 100)]
    else:
        pairs = [(1, 1, 0, 2), (3, 5, 0, 8)]
    k = min(8, len(s.get("instrs") or []) + 2)
    body = CASES_HDR
    for i, (a, b, init, want) in enumerate(pairs):
        body += "Definition w%d := Eval vm_compute in find_bad2 %d%%N (fun _ => (%d)%%Z) [%s] %s %s %d (%d)%%Z.\nPrint w%d.\n" % (
            i, loc, init, sec, zl([a] * nargs), zl([b] * nargs), k, want, i)
    ok, out, err = common.coq_cases("c10_witness", body)
    if not ok:
        return None
    for i, (a, b, init, want) in enumerate(pairs):
        m = re.search(r"w%d\s*=\s*Some\s*(\[[^\]]*\])" % i, out)
        if m:
            return {"values": [a, b], "init": init, "true_value": want, "schedule": [int(x) for x in re.findall(r"\d+", m.group(1))]}
    # no schedule loses an update among those on which both calls return: is there one after which a call never returns?
    body = CASES_HDR
    for i, (a, b, init, want) in enumerate(pairs):
        body += "Definition s%d := Eval vm_compute in find_spin2 (fun _ => (%d)%%Z) [%s] %s %s %d 80.\nPrint s%d.\n" % (
            i, init, sec, zl([a] * nargs), zl([b] * nargs), k, i)
    ok, out, err = common.coq_cases("c10_witness_spin", body)
    if not ok:
        return None
    for i, (a, b, init, want) in enumerate(pairs):
        m = re.search(r"s%d\s*=\s*Some\s*(\[[^\]]*\])" % i, out)
        if m:
            return {"values": [a, b], "init": init, "true_value": want, "schedule": [int(x) for x in re.findall(r"\d+", m.group(1))],
                    "never_returns": "after this schedule the two calls, each run alone for 80 more steps, have not both returned: a retry that cannot succeed any more"}
    return None


def seq_cases(tabs, rng, n):
    """random sequences of Record* calls: (harness request cases, coq terms, meta)"""
    cases = []
    for _ in range(n):
        calls = []
        for _ in range(rng.randint(1, 7)):
            pkg = rng.choice(sorted(tabs))
            progs = [p for p in tabs[pkg]["progs"] if HARNESS_FUNCS[pkg] + p["func"] in KNOWN_RECORD]
            if not progs:
                continue
            p = rng.choice(progs)
            args = []
            kinds = p.get("param_kinds") or ["int"] * len(p["params"] or [])
            for kind in kinds:       # by the parameter's type, not its name
                if kind == "error":
                    args.append(rng.choice([0, 0, 1, 2]))
                elif kind == "bool":
                    args.append(rng.choice([0, 1]))
                else:
                    args.append(rng.choice([0, 1, 7, 120, 4096, rng.randint(0, 10 ** 6)]))
            calls.append((pkg, p, args))
        if calls:
            cases.append(calls)
    return cases


def run_seq_correspondence(rp, tabs, rng, n):
    cases = seq_cases(tabs, rng, n)
    req = {"mode": "seq", "cases": [[{"f": HARNESS_FUNCS[pkg] + p["func"], "args": a} for pkg, p, a in cs] for cs in cases]}
    rc, out_, err_, hung = run_watch(common.stage_harness(), req, 120)
    if hung:
        note_hang("the sequential replay of Record* call sequences did not finish within 120 s")
        rp.violation({"kind": "hang", "mode": "seq", "cases": len(cases), "goroutines": blocked_goroutines(err_, running=True)[:6],
                      "explanation": "Record* calls made one after the other by a single goroutine did not return (watchdog 120 s)"}, "seq_hang", no_input=True)
        return 0
    if rc != 0 or not out_.strip():
        rp.violation({"kind": "harness", "detail": err_[-2000:]}, "seq_harness", no_input=True)
        return 0
    results = json.loads(out_)["results"]
    terms = []
    for cs, r in zip(cases, results):
        # one model memory per package: locations of the two structs are numbered independently, so check per package
        for pkg in sorted({c[0] for c in cs}):
            t = tabs[pkg]
            calls = ["(%s_%s, %s)" % (gen10.short(pkg), p["func"], zl(a + [0] * len(p.get("opaque") or []))) for k, p, a in cs if k == pkg]
            exp = ["(%d%%N, (%d)%%Z)" % (t["fid"][f], r["stats"][key]) for f, key in stat_fields(tabs, pkg).items() if f in t["fid"] and key in r["stats"]]
            init = "(fun l => if N.eqb l %d%%N then (-1)%%Z else 0%%Z)" % next((t["fid"][f] for f, r_ in t["roles"] if r_ == "RMin"), 9999)
            terms.append(("(%s, [%s], [%s])" % (init, "; ".join(calls), "; ".join(exp)), cs, r, pkg))
    body = CASES_HDR + "Definition cases : list (mem * list (list section * list Z) * list (loc * Z)) := [\n" + ";\n".join(t[0] for t in terms) + "].\n"
    body += "Definition bad := Eval vm_compute in bad_cases (fun c => seq_case_ok (fst (fst c)) (snd (fst c), snd c)) 0%N cases.\nPrint bad.\n"
    ok, out, err = common.coq_cases("c10_seq", body)
    if not ok:
        rp.obligation("correspondence: translated Record* programs run sequentially = GetStats/GetMetrics", False, err[-300:])
        rp.violation({"kind": "correspondence", "detail": err[-2000:], "note": "the sequential-run cases do not evaluate against the regenerated programs"},
                     "seq_cases_coq", no_input=True)
        return len(terms)
    bad = common.parse_nlist(out)
    rp.obligation("correspondence: translated Record* programs run sequentially = GetStats/GetMetrics on %d call sequences" % len(terms), not bad)
    for i in bad[:1]:
        _, cs, r, pkg = terms[i]
        # sequential totals are defined by the property itself: recompute the true values and see whether the implementation is wrong
        rp.violation({"kind": "correspondence", "package": pkg, "calls": [{"f": HARNESS_FUNCS[k] + p["func"], "args": a} for k, p, a in cs],
                      "implementation": r["stats"], "mode": "seq",
                      "explanation": "the program translated from the source, run sequentially in the model, gives other totals than the real functions: the translation (or the model of an atomic operation) misdescribes the code"},
                     "seq_mismatch_%d" % i, no_input=not seq_impl_wrong(cs, r))
    return len(terms)


def seq_true_totals(cs):
    """what the property prescribes for a sequential run of RecordTokenization / RecordParse calls (metrics package)"""
    ops = errs = byts = pops = perrs = stmts = 0
    sizes = []
    for pkg, p, a in cs:
        if pkg != "pkg/metrics":
            continue
        if p["func"] == "RecordTokenization":
            ops += 1; byts += a[1]; sizes.append(a[1]); errs += 1 if a[2] else 0
        elif p["func"] == "RecordParse":
            pops += 1; stmts += a[1]; perrs += 1 if a[2] else 0
    return {"metrics.TokenizeOperations": ops, "metrics.TokenizeErrors": errs, "metrics.TotalBytesProcessed": byts,
            "metrics.ParseOperations": pops, "metrics.ParseErrors": perrs, "metrics.StatementsCreated": stmts,
            "metrics.MinQuerySize": min(sizes) if sizes else -1, "metrics.MaxQuerySize": max(sizes) if sizes else 0,
            "metrics.ErrorsByType": errs + perrs}


def seq_impl_wrong(cs, r):
    want = seq_true_totals(cs)
    return any(r["stats"].get(k) != v for k, v in want.items())


# ------------------------------------------------------------------------------------------------
# race reports

def parse_races(stderr):
    """attribute every race-detector report / fatal concurrent-map error to the first library frame"""
    out = []
    blocks = re.split(r"(?m)^={18}\s*$", stderr)
    for b in blocks:
        if "WARNING: DATA RACE" not in b:
            continue
        frames = re.findall(r"(?m)^\s+(\S+)\(\)\n\s+(\S+?/pkg/\S+?\.go:\d+)", b)
        lib = [(f, w) for f, w in frames if "/pkg/" in w and "/harness-src/" not in w]
        acc = re.findall(r"(?m)^((?:Previous )?(?:[Ww]rite|[Rr]ead) at \S+ by \S+ \S+?):?$", b)
        def uniq(xs):
            seen, o = set(), []
            for x in xs:
                if x not in seen:
                    seen.add(x); o.append(x)
            return o
        # frames are innermost first: the first library frame of each stack is the access site
        out.append({"kind": "data race", "where": uniq([re.sub(r"^.*?/pkg/", "pkg/", w) for _, w in lib])[:4],
                    "funcs": uniq([f.split("/")[-1] for f, _ in lib])[:4], "accesses": acc[:2]})
    m = re.search(r"fatal error: (concurrent map [a-z ]+)", stderr)
    if m:
        frames = re.findall(r"(?m)^(\S+)\(.*\)\n\s+(\S+?/pkg/\S+?\.go:\d+)", stderr)
        lib = [(f, w) for f, w in frames if "/pkg/" in w and "/harness-src/" not in w]
        out.append({"kind": m.group(1), "where": [re.sub(r"^.*?/pkg/", "pkg/", w) for _, w in lib][:3], "funcs": [f.split("/")[-1] for f, _ in lib][:3]})
    return out


def workload(rng, tier):
    stmts = sqlgen.corpus_statements(limit=400)
    stmts = [s for s in stmts if len(s) < 1500]
    rng.shuffle(stmts)
    stmts = stmts[:40 if tier == "quick" else 150]
    stmts += sqlgen.generated_statements(rng, 25 if tier == "quick" else 120)
    stmts += ["SELEC 1", "SELECT * FORM t", "SELECT a FROM t WHERE id = 1 OR 1 = 1 -- x", "select  *  from users   where a=1 ;\t\n",
              "SELECT 'unterminated", "INSERT INTO t (a) VALUES (1); DROP TABLE t", "", "SELECT 1 UNION SELECT SLEEP(5)", ";", " ", "-- only a comment", ";;", "/* c */ ;"]
    return stmts


def wide_inputs(k=2400):
    """many distinct malformed statements, each with an offending token of its own: process-wide state that is keyed by
    what was seen so far (caches of messages/suggestions, interned names) only reaches its eviction / growth paths
    after many distinct keys"""
    shapes = ["SELECT a FROM t WHERE zq%d zr%d", "SELEC%d 1", "SELECT '''w%dx'''", "SELECT a FROM t ORDER zb%d", "INSERT INTO t VALUS%d (1)",
              "SELECT a FROM t JOIN u ON%d a = b"]
    out = []
    for i in range(k):
        sh = shapes[i % len(shapes)]
        out.append(sh % ((i,) * sh.count("%d")))
    return out


HUNG = -999      # exit code reported by run_mix when the watchdog fired


WATCH_WINDOW = 30     # seconds without any progress of the harness, after its normal time is over, that make a hang
WATCH_CAP = 900       # a run that is still making progress is given up after this many seconds
WATCH_LOG = []        # (mode, seconds, verdict) of every harness run, for the evidence


def run_watch(binp, req, watchdog, env=None, _retry=False):
    """the conc harness under a LOAD-ROBUST watchdog.  `watchdog` is the time the request normally needs with a wide
    margin on an idle machine; it never decides a hang by itself.  The harness prints "PROGRESS n" once a second
    (rounds / operations completed): past `watchdog` the run is a hang only if n has not moved for WATCH_WINDOW seconds
    (a slow machine keeps counting, a call that never returns does not); a run that still counts is given WATCH_CAP
    seconds.  A harness that never reported progress is re-run once with 8 x the limit before a hang is reported.
    On a hang the process gets SIGQUIT (GOTRACEBACK=all: the stacks of all goroutines) — returns (rc, stdout, stderr, hung)."""
    import threading, time as _t
    env = dict(env or os.environ, GOTRACEBACK="all")
    p = subprocess.Popen([binp, "conc"], stdin=subprocess.PIPE, stdout=subprocess.PIPE, stderr=subprocess.PIPE, text=True, env=env)
    out_parts, err_parts = [], []
    st = {"val": None, "changed": _t.time(), "seen": False}

    def rd_out():
        for line in p.stdout:
            out_parts.append(line)

    def rd_err():
        for line in p.stderr:
            if line.startswith("PROGRESS "):
                st["seen"] = True
                v = line.split()[1]
                if v != st["val"]:
                    st["val"], st["changed"] = v, _t.time()
                continue
            err_parts.append(line)
    th = [threading.Thread(target=rd_out, daemon=True), threading.Thread(target=rd_err, daemon=True)]
    for t in th:
        t.start()
    try:
        p.stdin.write(json.dumps(req))
        p.stdin.close()
    except BrokenPipeError:
        pass
    t0 = _t.time()
    window = min(WATCH_WINDOW, max(5, watchdog))
    hung, why = False, ""
    while p.poll() is None:
        _t.sleep(0.2)
        now = _t.time()
        if now - t0 <= watchdog:
            continue
        if now - st["changed"] > window:
            hung, why = True, "no progress for %d s (progress counter %s)" % (int(now - st["changed"]), st["val"])
            break
        if now - t0 > max(WATCH_CAP, watchdog):
            hung, why = True, "still running after %d s" % int(now - t0)
            break
    if hung:
        p.send_signal(signal.SIGQUIT)
        try:
            p.wait(timeout=60)
        except subprocess.TimeoutExpired:
            p.kill()
            p.wait()
    for t in th:
        t.join(timeout=10)
    out, err = "".join(out_parts), "".join(err_parts)
    WATCH_LOG.append({"mode": req.get("mode"), "n": req.get("n"), "seconds": round(_t.time() - t0, 1), "limit_s": watchdog,
                      "verdict": ("hang: " + why) if hung else "finished", "progress_reported": st["seen"]})
    if hung and not st["seen"] and not _retry and watchdog * 8 <= WATCH_CAP * 2:
        # no progress information at all (the harness died before its first report, or does not report): confirm once
        return run_watch(binp, req, min(WATCH_CAP, watchdog * 8), env=env, _retry=True)
    if hung:
        err = "watchdog: " + why + "\n" + err
    return p.returncode, out, err, hung


def blocked_goroutines(dump, running=False):
    """goroutines of a SIGQUIT dump that are blocked in a mutex operation (running=True: also those still running inside
    the library — a call that spins): [{wait, count, frames}] by library frames"""
    groups = {}
    for block in re.split(r"\n\s*\n(?=goroutine \d+)", dump):
        m = re.match(r"\s*goroutine \d+(?: gp=\S+ m=\S+(?: mp=\S+)?)? \[([^\]]*)\]", block)
        if not m:
            continue
        wait = m.group(1).split(",")[0]
        spinning = running and re.search(r"running|runnable", wait)
        if not re.search(r"Mutex|semacquire|sync\.Cond|chan |select", wait) and not spinning:
            continue
        frames = [re.sub(r"^.*?/pkg/", "pkg/", w) for w in re.findall(r"(?m)^\s+(\S+?/pkg/\S+?\.go:\d+)", block) if "/harness-src" not in w]
        funcs = [f.split("/")[-1] for f in re.findall(r"(?m)^(\S+)\(.*\)\n\s+\S+?/pkg/\S+?\.go:\d+", block)]
        if spinning and not frames:
            continue
        key = (wait, tuple(frames[:3]))
        g = groups.setdefault(key, {"wait": wait, "count": 0, "frames": frames[:3], "funcs": funcs[:3]})
        g["count"] += 1
    # goroutines blocked inside the library first (the harness itself waits on channels / wait groups)
    return sorted(groups.values(), key=lambda g: (not g["frames"], "utex" not in g["wait"], -g["count"], g["wait"], g["frames"]))


def run_mix(n, k, seed, inputs, ops=None, race=True, timeout=300):
    req = {"mode": "mix", "n": n, "ops_per_g": k, "seed": seed, "inputs": inputs}
    if ops:
        req["ops"] = ops
    env = dict(os.environ, GORACE="halt_on_error=0 exitcode=66")
    binp = common.stage_harness(race=race)
    if HANGS:
        timeout = min(timeout, 8)       # the calls are already known not to return: a few seconds, not a full watchdog
    rc, out, err, hung = run_watch(binp, req, timeout, env=env)
    res = None
    if out.strip() and not hung:
        try:
            res = json.loads(out.strip().splitlines()[-1])
        except ValueError:
            res = None
    return (HUNG if hung else rc), res, parse_races(err), err


# malformed statements: the tokenizer / parser record an error for them (the error breakdown takes its write lock)
FAILING_INPUTS = ["SELECT 'unterminated", "SELECT \"open", "SELEC 1", "SELECT * FORM t", "SELECT a FROM", "INSERT INTO t VALUES (", "SELECT 1 +", "SELECT @",
                  "SELECT `x", "UPDATE SET", "SELECT /* open", "SELECT 1e", "CREATE TABLE (", "SELECT 1 FROM t WHERE", "SELECT (1", "DROP"]


def hang_search(pkg, quick):
    """look for an execution that never finishes: goroutines hammer the operations that reach the package's mutexes
    (reads of the state + operations on malformed inputs, so that error paths take the write locks) under a watchdog"""
    ops = PKG_OPS.get(pkg) or None
    inputs = FAILING_INPUTS + ["SELECT 1", "SELECT a, b FROM t WHERE a = 1"]
    nc = cpus()
    for n in (4, nc):
        watchdog = 60 if quick else 120
        k = 20000
        rc, res, races, err = run_mix(n, k, common.seed() + n, inputs, ops=ops, race=False, timeout=watchdog)
        if rc == HUNG:
            return {"mode": "mix_watchdog", "n": n, "ops_per_g": k, "seed": common.seed() + n, "inputs": inputs, "ops": ops, "watchdog_s": watchdog,
                    "blocked_goroutines": blocked_goroutines(err)[:6], "goroutine_dump_head": err[:6000]}, 1
    return None, 2


# Once a call of the library has been seen not to return (a retry loop that cannot succeed any more, a deadlock), every
# later stage that makes the same calls would only sit out its own watchdog: they are skipped (and say so in the evidence).
HANGS = []


def note_hang(what):
    HANGS.append(what)


def rounds_watchdog(rounds):
    """barrier-released rounds take well under a millisecond each: 20 s + 1 s per 2000 rounds, at most 240 s"""
    return min(240, 20 + rounds // 2000)


def run_rounds(n, rounds, seed, values=None, timeout=None):
    """(result, stderr); result None = crashed or did not finish (stderr then says "did not finish" and names the
    goroutines that were still inside the library).  Never raises on a hang."""
    req = {"mode": "rounds", "n": n, "rounds": rounds, "seed": seed}
    if values:
        req["values"] = values
    if HANGS:
        return None, "skipped: " + HANGS[0]
    wd = timeout or rounds_watchdog(rounds)
    rc, out, err, hung = run_watch(common.stage_harness(), req, wd)
    if hung:
        gs = blocked_goroutines(err, running=True)
        msg = "fatal error: the barrier-released rounds did not finish (%s, normal time limit %d s: a recording call never returned); goroutines inside the library: %s" % (
            (err.splitlines() or ["watchdog"])[0], wd, "; ".join("%d x %s at %s (%s)" % (g["count"], g["wait"], g["frames"][0], (g["funcs"] or ["?"])[0]) for g in gs if g["frames"])[:600])
        note_hang("barrier-released concurrent recordings did not finish (%s)" % (err.splitlines() or ["watchdog"])[0])
        return None, msg
    if rc != 0 or not out.strip():
        return None, err
    return json.loads(out.strip().splitlines()[-1]), err


def cpus():
    return os.cpu_count() or 4


# ------------------------------------------------------------------------------------------------

def run(tier):
    rp = Report("C10", tier)
    rng = random.Random(common.seed())
    try:
        with common.Lock():
            static = common.stage_gotables()
            common.stage_harness()
            tabs, _ = gen10.emit_metrics(static)
            gt, _ = gen10.emit_globals(static)
            lt, _ = gen10.emit_lock_table(static)
            ok_inst, ok_props, _, logs = common.coq_stage(
                rp, ["theories/Inst/Inst_C10.vo", "theories/Proofs/MetricsP.vo", "theories/Proofs/ConcP.vo", "theories/Proofs/FootprintP.vo", "theories/Proofs/LockOrderP.vo"],
                "theories/Props/C10.v", PROPS, inst_names=INST)
            common.stage_harness(race=True)
    except common.StageError as e:
        return common.stage_fail(rp, e)
    import time as _time
    stage_t = {"last": _time.time()}
    stage_wall = {}

    def mark(name):
        now = _time.time()
        stage_wall[name] = round(stage_wall.get(name, 0) + now - stage_t["last"], 1)
        stage_t["last"] = now
    stage_t["last"] = rp_start = getattr(rp, "t0", stage_t["last"])
    mark("staging + Coq (tables, instance lemmas, Props)")
    kf = common.known_findings("C10")
    quick = tier == "quick"
    if not quick and ok_props:
        # independent re-check of the compiled property file and everything it depends on
        try:
            pc = common.run(["timeout", "1200", "coqchk", "-silent", "-o", "-R", "theories", "GV", "GV.Props.C10"], cwd=common.COQ, timeout=1300)
        except subprocess.TimeoutExpired:
            pc = subprocess.CompletedProcess([], 124, "", "coqchk did not finish within 1300 s")
        okc = pc.returncode == 0 and "* Axioms: <none>" in (pc.stdout + pc.stderr)
        rp.obligation("coqchk -o GV.Props.C10: accepted, no axioms, no assumed positivity/guardedness", okc, (pc.stdout + pc.stderr)[-300:])
        if not okc:
            rp.violation({"kind": "proof", "theorem": "coqchk GV.Props.C10", "log": (pc.stdout + pc.stderr)[-3000:]}, "coqchk_c10", no_input=True)
    nc = cpus()
    evals = 0

    # ---- translated programs: shape
    coq_bad = coq_shape_failures(tabs)
    rp.obligation("shape of every translated Record* section decided by the model (Model.Metrics.role_ok / is_rmw_loop evaluated on the regenerated programs)",
                  coq_bad is not None and not coq_bad, "" if coq_bad is None else json.dumps(sorted(map(str, coq_bad)))[:300])
    defects = diagnose(tabs, coq_bad)
    rp.cov["metrics_programs"] = {pkg: {p["func"]: [("%s:%s%s" % (s["loc"], s["kind"], "(cas-retry-loop)" if s["kind"] == "rmw" and not any(d[1] is p and d[2] is s for d in defects) else ""))
                                                    for s in p["sections"]] for p in t["progs"]} for pkg, t in tabs.items()}
    rp.cov["metrics_state"] = {pkg: {"variables": t.get("vars"), "found_by": "role: package-level struct variable whose fields the exported Record* functions update with sync/atomic"} for pkg, t in tabs.items()}
    for pkg, t in tabs.items():
        if not t.get("vars") or not t["progs"]:
            rp.violation({"kind": "table-gap", "theorem": "Inst_C10.%s_progs_ok" % gen10.short(pkg), "package": pkg,
                          "translator_notes": static.get("metrics_notes") or [],
                          "explanation": "the translator found no metrics state in %s (no package-level struct variable updated with sync/atomic by an exported Record* function): "
                                         "nothing ties the model of the metrics protocol to this package any more" % pkg},
                         "metrics_state_" + gen10.short(pkg), no_input=True)
    unknown_funcs = sorted({HARNESS_FUNCS[pkg] + p["func"] for pkg, t in tabs.items() for p in t["progs"]} - KNOWN_RECORD)
    if unknown_funcs:
        rp.cov["notes"].append("Record functions translated and proved about but not driven by the harness (added after the harness was written): %s" % unknown_funcs)
    for pkg, p, s, role, d in defects:
        name = "%s_%s_%s" % (gen10.short(pkg), p["func"], s["loc"])
        base = {"kind": "table-gap", "theorem": "Inst_C10.%s_progs_ok" % gen10.short(pkg), "package": pkg, "func": p["func"], "field": s["loc"],
                "role": role, "where": s["pos"], "defect": d, "translated_section": s}
        w = witness_search(tabs, pkg, p, s, role) if s["kind"] == "rmw" and ok_inst is not None else None
        if w:
            base["model_witness"] = w     # the model's own refutation: a two-goroutine schedule that loses the update
            if w.get("never_returns"):
                d = "a lost compare-and-swap is retried without refreshing the value it expects (the reload does not go into the register the next swap compares with): the call spins for ever once it loses to another recording"
                base["defect"] = d
        found = None
        if w and pkg == "pkg/metrics" and p["func"] == "RecordTokenization" and role in ("RMax", "RMin") and not HANGS:
            # the model's witness schedule as a real two-goroutine attempt (barrier-released, many rounds)
            base["model_witness"] = w
            for attempt in range(3 if quick else 10):
                vals = w["values"] if attempt % 2 == 0 else list(reversed(w["values"]))
                res, rerr = run_rounds(2, 20000 if quick else 200000, common.seed() + attempt, values=vals)
                evals += 1
                if res is None and "did not finish" in (rerr or ""):
                    found = {"mode": "rounds", "n": 2, "values": vals, "rounds": 20000 if quick else 200000, "seed": common.seed() + attempt, "hang": rerr}
                    break
                if res and res["failed_rounds"]:
                    found = {"mode": "rounds", "n": 2, "values": vals, "rounds": res["rounds"], "seed": common.seed() + attempt,
                             "failed_rounds": res["failed_rounds"], "fail_count": res["fail_count"], "first": res["first"][:1]}
                    break
        if not found and not HANGS:
            for n in (2, 4, max(2, nc // 2)):
                res, rerr = run_rounds(n, 20000 if quick else 200000, common.seed())
                evals += 1
                if res is None and "did not finish" in (rerr or ""):
                    found = {"mode": "rounds", "n": n, "rounds": 20000 if quick else 200000, "seed": common.seed(), "hang": rerr}
                    break
                if res and res["failed_rounds"]:
                    found = {"mode": "rounds", "n": n, "rounds": res["rounds"], "seed": common.seed(), "failed_rounds": res["failed_rounds"],
                             "fail_count": res["fail_count"], "first": res["first"][:1]}
                    break
        if found:
            base.update(found)
            if found.get("hang"):
                base["explanation"] = "%s — reproduced on the implementation: barrier-released concurrent recordings never finish (a recording call does not return): %s" % (d, found["hang"][:700])
            else:
                base["explanation"] = "%s — reproduced on the implementation: after %d of %d barrier-released rounds the totals reported by GetStats differ from the true values" % (d, found["failed_rounds"], found["rounds"])
        else:
            base["explanation"] = d + " — the instance lemma no longer holds for the regenerated program" + ("; the model loses an update on the schedule in model_witness" if w else "") + (
                "; not tried on the implementation: " + HANGS[0] if HANGS else "")
            if w:
                base["model_witness"] = w
        rp.violation(base, "shape_" + name, no_input=not found)
    mark("metrics programs: shape, model witness, reproduction")
    # ---- hypothesis of min_exact: recorded sizes are lengths
    callers = static.get("metrics_callers") or []
    neg = [c for c in callers if not c["nonneg"]]
    rp.obligation("every library call site of metrics.RecordTokenization passes a length as the query size (%d sites): sizes are >= 0, never the -1 sentinel" % len(callers), not neg and bool(callers),
                  json.dumps(neg)[:300])
    rp.cov["record_tokenization_call_sites"] = callers
    for c in neg[:2]:
        rp.violation({"kind": "table-gap", "theorem": "C10_metrics_totals_exact (hypothesis 0 <= recorded size)", "call_site": c,
                      "explanation": "RecordTokenization is called with a size that is not syntactically a length: a negative size (or the 'not set' sentinel -1) makes the smallest-query metric wrong"},
                     "size_arg_" + re.sub(r"\W+", "_", c["pos"]), no_input=True)

    # ---- lock discipline: the acquisition table (Lock / RLock sites with may-held sets) must admit a rank
    rp.cov["lock_order"] = {"mutexes": {m: lt["rank"][m] for m in lt["muts"]}, "acquisition_sites": len(lt["acqs"]), "distinct_rows": len(lt["rows"]),
                            "nested_sites": [{"mutex": a["cell"], "mode": a["mode"], "may_held": a["may_held"], "func": a["func"], "pos": a["pos"]} for a in lt["acqs"] if a["may_held"]],
                            "sites": [{"mutex": a["cell"], "mode": a["mode"], "func": a["func"], "pos": a["pos"]} for a in lt["acqs"]],
                            "notes": static.get("acq_notes") or []}
    rp.obligation("lock discipline: a rank on the %d mutexes reachable from package-level state puts every one of the %d Lock/RLock sites strictly above everything that may be held there" % (len(lt["muts"]), len(lt["acqs"])),
                  not lt["bad"], json.dumps([list(k) for k in lt["bad"]])[:300])
    lock_hang = False
    by_mutex = {}
    for key in lt["bad"]:
        # one report per mutex that is re-acquired, one per cycle of the order (named after its first mutex)
        comp = next((c for c in lt["comps"] if key[0] in c), None)
        by_mutex.setdefault(key[0] if (key[0] in key[2] or not comp) else comp[0], []).append(key)
    for mutex, keys in sorted(by_mutex.items()):
        pkgc = mutex.split(".")[0]
        rows = [{"mutex": a["cell"], "mode": a["mode"], "may_held": a["may_held"], "func": a["func"], "pos": a["pos"], "reached_from": a.get("entries")}
                for k in keys for a in lt["where"][k]]
        reacq = [r for r in rows if any(h.rsplit(":", 1)[0] == r["mutex"] for h in r["may_held"])]
        what = ("%s is locked (%s) at %s in %s while it may already be held (%s): sync mutexes are not re-entrant, and a second RLock behind a waiting Lock blocks for ever (writer preference)" % (
                    mutex, reacq[0]["mode"], reacq[0]["pos"], reacq[0]["func"], ", ".join(reacq[0]["may_held"]))
                if reacq else
                "%s is locked at %s in %s while %s may be held, and the opposite order occurs too: no rank orders the mutexes %s" % (
                    rows[0]["mutex"], rows[0]["pos"], rows[0]["func"], ", ".join(rows[0]["may_held"]), [c for c in lt["comps"] if mutex in c][:1]))
        base = {"kind": "table-gap", "theorem": "Inst_C10.lock_order_ok (C10_no_deadlock_by_lock_order)", "mutex": mutex, "rows": rows[:8],
                "model_witness": "Props.C10.C10_reentrant_read_lock_refuted" if reacq else "Props.C10.C10_lock_order_inversion_refuted"}
        found = None
        if not HANGS:
            found, _ = hang_search(pkgc, quick)
            evals += 1
        if found:
            base.update(found)
            lock_hang = True
            if not HANGS:
                note_hang("goroutines hammering the operations that reach %s did not finish" % mutex)
            bg = found["blocked_goroutines"]
            base["explanation"] = what + " — reproduced on the implementation: %d goroutines running %s did not finish within %d s; blocked: %s" % (
                found["n"], found["ops"] or "all operations", found["watchdog_s"],
                "; ".join("%d x %s at %s" % (g["count"], g["wait"], g["frames"][0] if g["frames"] else "?") for g in bg[:4]))
        else:
            base["explanation"] = what + " — the lock-order instance lemma no longer holds for the regenerated acquisition table"
        rp.violation(base, "lockorder_" + re.sub(r"\W+", "_", mutex), no_input=not found)
    # ---- no lock leaked to the caller: no entry point may return while a mutex it took may still be held
    rp.cov["lock_order"]["entry_points_with_mutex_operations"] = len(lt["exits"])
    rp.obligation("no entry point of the library returns to its caller holding a mutex (%d entry points that touch a mutex; every return path unlocks or the unlock is deferred)" % len(lt["exits"]),
                  not lt["leaks"], json.dumps(lt["leaks"])[:300])
    leaks_by_mutex = {}
    for e in lt["leaks"]:
        for h in e["held"]:
            leaks_by_mutex.setdefault(h.rsplit(":", 1)[0], []).append(e)
    for mutex, es in sorted(leaks_by_mutex.items()):
        # one report per leaked mutex: a private function that forgets to unlock leaks through every entry point that reaches it
        pkgc = mutex.split(".")[0]
        e = es[0]
        rets = sorted((e.get("returns") or {}).items())
        base = {"kind": "table-gap", "theorem": "Inst_C10.no_lock_leak_ok (C10_no_lock_leak_outside_holds_nothing)", "mutex": mutex,
                "entry_points": [{"func": x["func"], "may_still_hold": x["held"], "returns_holding": [{"return_at": pos, "held": h} for pos, h in sorted((x.get("returns") or {}).items())][:4]} for x in es[:8]],
                "entry_points_total": len(es), "model_witness": "Props.C10.C10_leaked_lock_blocks",
                "acquired_at": [{"mutex": a["cell"], "mode": a["mode"], "func": a["func"], "pos": a["pos"]} for a in lt["acqs"] if a["cell"] == mutex][:8]}
        what = "%s may return to its caller%s while %s is still held (no unlock on that path, none deferred%s): nobody can release it any more, every later Lock on it waits for ever" % (
            e["func"], (" at " + ", ".join(p_ for p_, _ in rets[:3])) if rets else "", ", ".join(h for h in e["held"] if h.startswith(mutex)),
            "; %d entry points in all" % len(es) if len(es) > 1 else "")
        found = None
        if not HANGS:
            found, _ = hang_search(pkgc, quick)
            evals += 1
        if found:
            base.update(found)
            lock_hang = True
            if not HANGS:
                note_hang("goroutines hammering the operations that reach %s did not finish" % mutex)
            bg = found["blocked_goroutines"]
            base["explanation"] = what + " — reproduced on the implementation: %d goroutines running %s did not finish within %d s; blocked: %s" % (
                found["n"], found["ops"] or "all operations", found["watchdog_s"],
                "; ".join("%d x %s at %s" % (g["count"], g["wait"], g["frames"][0] if g["frames"] else "?") for g in bg[:4]))
        else:
            base["explanation"] = what + " — the instance lemma no longer holds for the regenerated exit table"
        rp.violation(base, "lockleak_" + re.sub(r"\W+", "_", mutex), no_input=not found)
    mark("lock order / lock leaks and hang searches")
    # ---- footprint table of package-level state
    bad_cells, known_cells = gen10.unprotected_pairs(gt)
    classes = {}
    for c in gt["cells"]:
        k = gt["info"].get(c, {}).get("class", "?")
        classes[k] = classes.get(k, 0) + 1
    written = sorted({a["cell"] for a in gt["acc"] if a["write"] and not a["init"] and a["kind"] in ("plain", "escape")})
    rp.cov["footprint"] = {"cells": len(gt["cells"]), "access_sites": len(gt["acc"]), "distinct_site_descriptions": len(gt["rows"]), "cell_classes": classes,
                           "cells_written_outside_init_by_plain_stores": {c: sorted({h for a in gt["acc"] if a["cell"] == c and a["write"] and not a["init"] for h in (a["held"] or ["once:" + a.get("once", "")])}) for c in written},
                           "escapes_to_external_functions": sorted({"%s -> %s" % (a["cell"], a.get("callee")) for a in gt["acc"] if a["kind"] == "escape"}),
                           "notes": static.get("access_notes") or []}
    for k, cell in gt["known"]:
        if cell in known_cells:
            rp.known(k["key"], k["what"])
        else:
            rp.cov["notes"].append("stale known finding (cell is protected now): " + k["key"])
    for k, cell in gt["stale"]:
        rp.cov["notes"].append("stale known finding (cell no longer exists): " + k["key"])
    race_hits = {}
    # one report per package-level variable (its cells are listed), at most 4 targeted searches
    roots = {}
    for cell in sorted(bad_cells):
        roots.setdefault(".".join(cell.split(".")[:2]), []).append(cell)
    searches = 0
    for root, cells_of_root in sorted(roots.items()):
        cell = cells_of_root[0]
        pairs = bad_cells[cell]
        a, b = pairs[0]
        wa = [x for x in gt["where"][a]][:3]
        wb = [x for x in gt["where"][b]][:3]
        pkgc = cell.split(".")[0]
        base = {"kind": "table-gap", "theorem": "Inst_C10.globals_ok", "cell": cell, "class": gt["info"].get(cell, {}).get("class"),
                "type": gt["info"].get(cell, {}).get("type"),
                "access_1": {"write": a[1], "kind": a[2], "held": list(a[3]), "once": a[4], "sites": [{"func": x["func"], "pos": x["pos"]} for x in wa]},
                "access_2": {"write": b[1], "kind": b[2], "held": list(b[3]), "once": b[4], "sites": [{"func": x["func"], "pos": x["pos"]} for x in wb]},
                "unprotected_pairs": sum(len(bad_cells[c]) for c in cells_of_root), "variable": root, "cells": cells_of_root[:40]}
        # aim the race detector at it: hammer the operations that reach the package
        ops = PKG_OPS.get(pkgc)
        files = {x["pos"].split(":")[0] for c_ in cells_of_root for pr in bad_cells[c_][:3] for k_ in pr for x in gt["where"][k_][:3]}
        found = None
        inputs_t = workload(random.Random(common.seed()), "quick")[:30]
        searches += 1
        for n in ((4, nc) if searches <= 4 and not HANGS else ()):
            rc, res, races, err = run_mix(n, 300, common.seed() + n, inputs_t, ops=ops, timeout=120)
            if rc == HUNG:
                note_hang("a goroutine mix aimed at %s did not finish" % cell)
                break
            evals += 1
            hit = [r for r in races if any(w.split(":")[0] in files for w in r["where"])]
            if hit:
                found = {"mode": "mix", "n": n, "ops_per_g": 300, "seed": common.seed() + n, "inputs": inputs_t, "ops": ops, "report": hit[0]}
                race_hits[cell] = hit[0]
                break
        if not found and searches <= 4:
            # second aim: many distinct malformed inputs (state keyed by what was seen so far: caches reach their eviction paths)
            wide = wide_inputs()
            rc, res, races, err = run_mix(nc, 1500, common.seed() + 7, wide, ops=ops)
            evals += 1
            hit = [r for r in races if any(w.split(":")[0] in files for w in r["where"])]
            if hit:
                found = {"mode": "mix", "n": nc, "ops_per_g": 1500, "seed": common.seed() + 7, "inputs_generator": "wide_inputs(2400)", "ops": ops, "report": hit[0]}
                race_hits[cell] = hit[0]
        if found:
            base.update(found)
            base["explanation"] = "unsynchronised access to package-level state %s — %s reported at %s while %d goroutines ran %s" % (
                cell, found["report"]["kind"], ", ".join(found["report"]["where"][:2]), found["n"], ops or "all operations")
        else:
            base["explanation"] = ("package-level state %s is accessed without a common mutex / Once / atomic operation (%s at %s vs %s at %s): the footprint instance lemma no longer holds" % (
                cell, "write" if a[1] else "read", wa[0]["pos"] if wa else "?", "write" if b[1] else "read", wb[0]["pos"] if wb else "?"))
        rp.violation(base, "footprint_" + re.sub(r"\W+", "_", root if len(cells_of_root) > 1 else cell), no_input=not found)
    mark("footprint table and aimed race searches")
    if not ok_inst and not defects and not bad_cells and not lt["bad"] and not lt["leaks"]:
        rp.violation({"kind": "proof", "theorem": "Inst_C10", "log": logs["inst"][-3000:]}, "inst_c10", no_input=True)
    if ok_inst and not ok_props:
        rp.violation({"kind": "proof", "theorem": "Props/C10.v", "log": logs["props"][-3000:]}, "props_c10", no_input=True)

    # ---- sequential correspondence of the translated programs (validates the translator against the real functions)
    if ok_inst is not False or True:
        evals += run_seq_correspondence(rp, tabs, rng, 120 if quick else 1200)

    mark("sequential correspondence (model vs GetStats)")
    # ---- fixed / known findings: witnesses
    for k in kf:
        w = k.get("witness") or {}
        if HANGS and w.get("mode") in ("rounds", "mix"):
            rp.cov["notes"].append("witness of %s not replayed: %s" % (k["key"], HANGS[0]))
            continue
        if w.get("mode") == "rounds":
            res, err = run_rounds(w["n"], w["rounds"] if not quick else min(w["rounds"], 30000), common.seed(), values=w.get("values"))
            evals += 1
            flds = ["metrics." + f for f in k["signature"].get("public_fields", [])]
            fails = bool(res is None or (res["failed_rounds"] and (not flds or any(f in res["fail_count"] for f in flds))))
        elif w.get("mode") == "mix":
            rc, res, races, err = run_mix(w["n"], w["ops_per_g"], common.seed(), w["inputs"], ops=w.get("ops"))
            evals += 1
            fails = bool(rc != 0 or races or res is None or res["mismatches"])
        else:
            continue
        if k["status"] == "fixed" and fails:
            rp.violation({"kind": "regression", "key": k["key"], "witness": w, "result": res, "stderr": (err or "")[-1500:],
                          "explanation": "a repaired defect is back: " + k["what"], **{kk: vv for kk, vv in w.items()}}, "regressed_" + k["key"])
        elif k["status"] == "known":
            if fails:
                rp.known(k["key"], k["what"])
            else:
                rp.cov["notes"].append("stale known finding (witness passes now): " + k["key"])

    mark("witnesses of fixed / known findings")
    # ---- barrier-released single-record rounds: totals after quiescence
    total_rounds = 4 * 10 ** 4 if quick else 10 ** 6
    plan = [(2, total_rounds // 2), (min(4, nc), total_rounds // 4), (max(2, nc // 2), total_rounds // 8), (nc, total_rounds // 16), (4 * nc, max(200, total_rounds // 100))]
    rounds_done, rounds_samples = 0, []
    for n, r in plan:
        if HANGS:
            rp.cov["notes"].append("barrier-released rounds not run (n=%d and larger): %s" % (n, HANGS[0]))
            break
        res, err = run_rounds(n, r, common.seed() + n)
        evals += 1
        if res is None and "did not finish" in (err or ""):
            if not any("shape_" in v for v in rp.violations):
                rp.violation({"kind": "hang", "mode": "rounds", "n": n, "rounds": r, "seed": common.seed() + n, "hang": err[:1500],
                              "explanation": "barrier-released concurrent recordings never finish (a recording call does not return): " + err[:700]}, "rounds_hang_n%d" % n)
            continue
        if res is None:
            fatal = parse_races(err or "")
            if not any("rounds_crash" in v for v in rp.violations):
                rp.violation({"kind": "crash", "mode": "rounds", "n": n, "rounds": r, "seed": common.seed() + n, "report": fatal[:2], "stderr": (err or "")[:1500],
                              "explanation": "the process died during barrier-released concurrent recordings (%s)" % (fatal[0]["kind"] + " at " + ", ".join(fatal[0]["where"][:2]) if fatal else "see stderr")},
                             "rounds_crash_n%d" % n)
            continue
        rounds_done += res["rounds"]
        rounds_samples.append({"n": n, "rounds": res["rounds"], "failed_rounds": res["failed_rounds"], "ms": res["ms"]})
        if res["failed_rounds"] and not any("shape_" in v for v in rp.violations):
            rp.violation({"kind": "oracle", "mode": "rounds", "n": n, "rounds": res["rounds"], "seed": common.seed() + n, "failed_rounds": res["failed_rounds"],
                          "fail_count": res["fail_count"], "first": res["first"][:2],
                          "explanation": "after quiescence the totals reported by GetStats/GetMetrics differ from the true values (n goroutines each made exactly one recording per round)"},
                         "totals_n%d" % n)
    rp.cov["barrier_rounds"] = rounds_samples

    mark("barrier-released rounds")
    # ---- goroutine mixes under the race detector: every result = the sequential answer, no race report
    inputs = workload(rng, tier)
    k = 400 if quick else 20000
    mixes = []
    seen = set()
    race_files = {w.split(":")[0] for h in race_hits.values() for w in h["where"][:2]}
    for n in [2, nc, 4 * nc]:
        if HANGS and not lock_hang:
            rp.cov["notes"].append("goroutine mixes not run (n=%d and larger): %s" % (n, HANGS[0]))
            break
        kk = max(20, k * 2 // n) if n > 8 else k
        # a mix normally takes seconds (quick) / a few minutes (thorough); once a lock-order violation hung a search, do not wait long again
        rc, res, races, err = run_mix(n, kk, common.seed() + n, inputs, timeout=(15 if lock_hang else (600 if quick else 1500)))
        evals += (res or {}).get("calls", 0)
        if rc == HUNG:
            if not lock_hang:
                bg = blocked_goroutines(err)
                rp.violation({"kind": "hang", "mode": "mix", "n": n, "ops_per_g": kk, "seed": common.seed() + n, "inputs": inputs, "blocked_goroutines": bg[:6],
                              "goroutine_dump_head": err[:6000],
                              "explanation": "%d goroutines running mixed public operations did not finish (watchdog); blocked: %s" % (
                                  n, "; ".join("%d x %s at %s" % (g["count"], g["wait"], g["frames"][0] if g["frames"] else "?") for g in bg[:4]))},
                             "mix_hang_n%d" % n)
            mixes.append({"n": n, "ops_per_goroutine": kk, "exit": "watchdog"})
            note_hang("a goroutine mix did not finish")
            if lock_hang:
                break      # the hang is already reported with the lock-order rows: the larger mixes would only hang again
            continue
        mixes.append({"n": n, "ops_per_goroutine": kk, "exit": rc, "races": len(races), "mismatches": (res or {}).get("mismatches"),
                      "calls": (res or {}).get("calls"), "ms": (res or {}).get("ms"), "op_count": (res or {}).get("op_count")})
        for r in races:
            sig = (r["kind"], tuple(r["where"][:1]))
            if sig in seen:
                continue
            seen.add(sig)
            if r["where"] and r["where"][0].split(":")[0] in race_files:
                continue   # already reported with the footprint table entry
            if sum(1 for v in rp.violations if "/race_" in v) >= 5:
                rp.cov["notes"].append("further race reports suppressed (5 distinct locations already reported)")
                break
            hit = [x for x in kf if x["status"] == "known" and x["signature"].get("kind") == "race" and any(x["signature"].get("where", "#") in w for w in r["where"])]
            if hit:
                rp.known(hit[0]["key"], hit[0]["what"])
                continue
            rp.violation({"kind": "race", "mode": "mix", "n": n, "ops_per_g": kk, "seed": common.seed() + n, "inputs": inputs, "report": r,
                          "explanation": "%s on library state at %s (%s) while %d goroutines ran mixed public operations" % (r["kind"], ", ".join(r["where"][:2]), ", ".join(r["funcs"][:2]), n)},
                         "race_%s" % re.sub(r"\W+", "_", (r["where"] or ["unknown"])[0]))
        if res is None:
            if not races:
                rp.violation({"kind": "crash", "mode": "mix", "n": n, "ops_per_g": kk, "seed": common.seed() + n, "inputs": inputs, "stderr": err[-3000:],
                              "explanation": "the process died while %d goroutines ran mixed public operations" % n}, "mix_crash_n%d" % n)
            continue
        if res["mismatches"]:
            rp.violation({"kind": "oracle", "mode": "mix", "n": n, "ops_per_g": kk, "seed": common.seed() + n, "inputs": inputs, "first": res["first"][:3],
                          "explanation": "%d of %d concurrent calls returned something else than the same call returns when run alone" % (res["mismatches"], res["calls"])},
                         "mix_result_n%d" % n)
        if res["bad_totals"] and not any("shape_" in v for v in rp.violations):
            rp.violation({"kind": "oracle", "mode": "mix", "n": n, "ops_per_g": kk, "seed": common.seed() + n, "inputs": inputs,
                          "want": res["totals_want"], "got": res["totals_got"], "fields": res["bad_totals"],
                          "explanation": "metrics totals after quiescence differ from the sum of what the same calls record when run alone"},
                         "mix_totals_n%d" % n)
        if res.get("nondeterministic_alone"):
            rp.cov["notes"].append("operations not deterministic when run alone (excluded from comparison): %s" % res["nondeterministic_alone"][:3])
    rp.cov["mixes"] = mixes
    mark("goroutine mixes under the race detector")
    rp.cov["stage_wall_s"] = stage_wall
    rp.cov["harness_runs"] = WATCH_LOG[-60:]

    rp.cov["evaluations"] = evals + rounds_done
    rp.cov["distinct_nontrivial"] = len({i for i in inputs if len(i) > 10}) + len(rounds_samples)
    rp.cov["rule"] = ("proof obligations over the programs/tables regenerated from the source; sequential replay of random Record* call sequences (model vs GetStats); "
                      "barrier-released rounds with n in {2,4,cores/2,cores,4*cores} goroutines, one recording each per round, seeded sizes 1..100000 and errors, totals compared after quiescence; "
                      "race-detector mixes with n in {2,cores,4*cores} over %d shared inputs (corpus + generated + malformed), 10 operation kinds, every result compared with the sequential table; "
                      "non-trivial = distinct workload input longer than 10 bytes / distinct round configuration" % len(inputs))
    rp.cov["samples"] = [inputs[0][:200], rounds_samples[:1], mixes[:1]]
    rp.cov["cores"] = nc
    rp.cov["notes"].append("the race detector only sees the schedules that happened: its silence is supporting evidence, not proof; the proofs are over the models tied to the source by the regenerated tables")
    rp.assumptions = ["sync/atomic operations are sequentially consistent single steps; a critical section under the struct's mutex is one atomic step (mutual exclusion of sync.Mutex)",
                      "lock discipline: the acquisition table is complete for Lock/RLock calls on mutexes reachable from package-level state through field/pointer paths and static calls (calls through function values / interface methods made while a lock may be held are listed in evidence lock_order.notes); mutexes of objects that are not package-level state, channels, sync.Cond and sync.WaitGroup are outside the model",
                      "metrics are enabled for the whole run (the disabled => return prologue of every Record function is recognised by the translator and not modelled)",
                      "errorsByType is abstracted to its total; durations/time stamps are opaque per-call values"]
    return rp.finish()


def replay(path):
    d = json.load(open(path))
    print(json.dumps({k: (v if not isinstance(v, (str, list)) or len(str(v)) < 400 else str(v)[:400] + "...") for k, v in d.items()}, indent=1))
    mode = d.get("mode")
    if mode == "rounds":
        del HANGS[:]
        res, err = run_rounds(d["n"], d["rounds"], d.get("seed", 1), values=d.get("values"))
        print(json.dumps(res) if res is not None else (err or "")[:1500])
        return 1 if (res is None or res["failed_rounds"]) else 0      # not finishing within the watchdog = fails
    if mode == "mix_watchdog":
        rc, res, races, err = run_mix(d["n"], d["ops_per_g"], d.get("seed", 1), d["inputs"], ops=d.get("ops"), race=False, timeout=d.get("watchdog_s", 60))
        print(json.dumps({"exit": "watchdog: did not finish" if rc == HUNG else rc, "blocked_goroutines": blocked_goroutines(err)[:6] if rc == HUNG else []}, indent=1))
        return 1 if (rc != 0 or res is None) else 0
    if mode == "mix":
        rc, res, races, err = run_mix(d["n"], d["ops_per_g"], d.get("seed", 1), d["inputs"] if d.get("inputs") is not None else wide_inputs(), ops=d.get("ops"))
        print(json.dumps({"exit": rc, "races": races[:3], "mismatches": (res or {}).get("mismatches"), "bad_totals": (res or {}).get("bad_totals")}))
        return 1 if (rc != 0 or races or res is None or res["mismatches"] or res["bad_totals"]) else 0
    if mode == "seq":
        req = {"mode": "seq", "cases": [d["calls"]]}
        rc, out_, err_, hung = run_watch(common.stage_harness(), req, 120)
        print("did not finish within 120 s" if hung else out_[:2000])
        return 1 if hung else 2
    return 2
