"""C19 — CLI verdicts match the library; files are never left half-written."""
import concurrent.futures, json, os, random, re, shutil, signal, subprocess, tempfile
import common
from common import Report, log

MANIFEST = dict(
    technique='Coq proofs over (a) a file-system/syscall/crash-point model with the in-place write protocol regenerated from the strace of the built binary on every run (instance lemma by vm_compute) and (b) a branch-by-branch model of the exit-status / write / report decisions of validate, format, lint, parse; both tied to the real gosqlx binary built from the working tree by end-to-end runs (flag matrix, RLIMIT_FSIZE sweep over every byte offset, kill at every byte offset)',
    text='FileRepl: every protocol of the temp-file+rename shape is atomic at every crash point (call index x byte offset) for all old/new contents (shape_atomic, replace_atomic), a write failure followed by clean-up keeps the old file, success leaves exactly the new content; the truncate-then-write shape is refuted by witness and characterised (content = first k bytes). The protocol the current binary follows is abstracted from its syscall trace into Gen/WriteProto.v and the decidable shape hypothesis is discharged by complete evaluation. Cli: exit status is zero iff every input is accepted and no failing-severity finding exists, --check never writes, print / -i / --check are mutually consistent, reports name exactly the failing inputs; the model is compared with the real binary over file sets x flags and with library verdicts computed by the Go harness.',
    note=common.BASE_NOTE + "Assumes strace shows every system call that can change a file (open/write/rename/unlink/truncate/chmod families are traced, any link/copy/vectored-write call on the scratch directory is reported as unmodelled); durability across power loss (fsync ordering) is outside the model; the kernel's RLIMIT_FSIZE semantics (short write up to the limit, then EFBIG or SIGXFSZ) is the write-failure injector.",
    design='6/C19')

TRACE_SET = ("open,openat,creat,write,pwrite64,writev,pwritev,pwritev2,rename,renameat,renameat2,fsync,fdatasync,"
             "ftruncate,truncate,close,chmod,fchmod,fchmodat,unlink,unlinkat,link,linkat,symlink,symlinkat,"
             "copy_file_range,sendfile")


class Unmodelled(Exception):
    pass


# ------------------------------------------------------------------------------------------------
# staging: the real binary, built from REPO's current working tree

def stage_cli():
    sd = common.stage_dir()
    binp = os.path.join(sd, "gosqlx")
    if os.path.exists(binp):
        return binp
    p = common.run(["go", "build", "-o", binp + ".tmp", "./cmd/gosqlx"], cwd=common.REPO, env=common.GOENV, timeout=900)
    if p.returncode != 0:
        raise common.StageError("gosqlx-build", p.stderr[-3000:], tree_caused=True)
    os.replace(binp + ".tmp", binp)
    return binp


class Scratch:
    """a private scratch directory under the stage dir (never inside /repo or tracked dirs), removed on exit"""
    def __enter__(self):
        base = os.path.join(common.BUILD, "scratch")
        os.makedirs(base, exist_ok=True)
        self.dir = os.path.realpath(tempfile.mkdtemp(prefix="c19-", dir=base))
        self.n = 0
        return self
    def __exit__(self, *a):
        shutil.rmtree(self.dir, ignore_errors=True)
    def sub(self):
        self.n += 1
        d = os.path.join(self.dir, "d%06d" % self.n)
        os.makedirs(d)
        return d


CLEAN_ENV = {"PATH": "/usr/bin:/bin", "HOME": "/nonexistent", "LANG": "C"}


def _limit_wrapper(binp, args, fsize):
    """argv that runs the binary with RLIMIT_FSIZE = fsize bytes and SIGXFSZ ignored: the write that crosses the
    limit is cut short at the limit and the next one fails with EFBIG (byte-granular write failure)."""
    q = " ".join("'%s'" % a.replace("'", "'\\''") for a in [binp] + args)
    return ["/bin/sh", "-c", 'trap "" XFSZ; exec prlimit --fsize=%d:%d -- %s' % (fsize, fsize, q)]


def run_cli(binp, args, cwd, stdin=None, fsize=None, timeout=60):
    """runs the binary; stdout/stderr are pipes (not subject to the file-size limit). Returns (rc, out, err)."""
    argv = [binp] + args if fsize is None else _limit_wrapper(binp, args, fsize)
    p = subprocess.run(argv, cwd=cwd, env=CLEAN_ENV, timeout=timeout,
                       stdin=subprocess.DEVNULL if stdin is None else None,
                       input=stdin, stdout=subprocess.PIPE, stderr=subprocess.PIPE)
    return p.returncode, p.stdout, p.stderr


# ------------------------------------------------------------------------------------------------
# strace -> protocol steps

def _unhex(s):
    return bytes(int(x, 16) for x in re.findall(r"\\x([0-9a-f]{2})", s))


def _split_args(s):
    out, depth, cur, inq = [], 0, "", False
    for ch in s:
        if ch == '"':
            inq = not inq
        if not inq:
            if ch in "<{[(":
                depth += 1
            elif ch in ">}])":
                depth -= 1
            elif ch == "," and depth == 0:
                out.append(cur.strip()); cur = ""
                continue
        cur += ch
    if cur.strip():
        out.append(cur.strip())
    return out


def _fdarg(a):
    m = re.match(r"^(-?\d+|AT_FDCWD)(?:<(.*)>)?$", a)
    if not m:
        return None, None
    return m.group(1), (_unhex(m.group(2)).decode("utf-8", "replace") if m.group(2) is not None else None)


def _strarg(a):
    m = re.match(r'^"(.*)"(\.\.\.)?$', a)
    if not m:
        return None
    if m.group(2):
        raise Unmodelled("strace truncated a string argument")
    return _unhex(m.group(1))


def parse_trace(text):
    """-> list of (syscall, [args], ret:int, raw) for completed calls, in completion order"""
    recs, pending = [], {}
    for line in text.splitlines():
        m = re.match(r"^(\d+)\s+(.*)$", line)
        if not m:
            continue
        pid, rest = m.group(1), m.group(2)
        if rest.startswith("+++") or rest.startswith("---"):
            continue
        if rest.endswith("<unfinished ...>"):
            pending[pid] = rest[:-len("<unfinished ...>")]
            continue
        m2 = re.match(r"^<\.\.\. (\w+) resumed>(.*)$", rest)
        if m2:
            rest = pending.pop(pid, m2.group(1) + "(") + m2.group(2)
        m3 = re.match(r"^(\w+)\((.*)\)\s+=\s+(-?\d+|\?)(.*)$", rest)
        if not m3:
            continue
        name, args, ret = m3.group(1), m3.group(2), m3.group(3)
        recs.append((name, _split_args(args), -1 if ret == "?" else int(ret), rest))
    return recs


def abstract_trace(text, scratch, target):
    """strace text -> (steps, names).  steps: tuples ('OpenTrunc', pid, mode) ... over path ids (1 = target);
    only successful calls on paths inside the scratch directory are kept."""
    ids, names = {}, {}
    def pid_of(path):
        path = os.path.normpath(path)
        if not (path + "/").startswith(scratch + "/"):
            return None
        rel = os.path.relpath(path, scratch)
        if rel == target:
            return 1
        if rel not in ids:
            ids[rel] = len(ids) + 2
            names[ids[rel]] = rel
        return ids[rel]
    def join(dirarg, rel):
        _, dpath = _fdarg(dirarg)
        rel = rel.decode("utf-8", "replace")
        return rel if os.path.isabs(rel) else os.path.join(dpath or scratch, rel)
    wfd = {}    # fd -> offset, for descriptors opened for writing on scratch paths
    steps = []
    for name, a, ret, raw in parse_trace(text):
        if ret < 0:
            continue
        if name in ("open", "openat", "creat"):
            if name == "openat":
                path, flags, mode = join(a[0], _strarg(a[1])), a[2], (a[3] if len(a) > 3 else "0")
            elif name == "open":
                path, flags, mode = join("AT_FDCWD", _strarg(a[0])), a[1], (a[2] if len(a) > 2 else "0")
            else:
                path, flags, mode = join("AT_FDCWD", _strarg(a[0])), "O_WRONLY|O_CREAT|O_TRUNC", a[1]
            p = pid_of(path)
            if p is None:
                continue
            fl = set(flags.split("|"))
            if not ({"O_WRONLY", "O_RDWR"} & fl):
                continue
            if "O_APPEND" in fl:
                raise Unmodelled("O_APPEND open of a scratch path: " + raw[:200])
            m = int(mode, 8) if re.match(r"^0[0-7]*$", mode) else 0
            if "O_TRUNC" in fl:
                steps.append(("OpenTrunc", p, m))
            elif "O_EXCL" in fl and "O_CREAT" in fl:
                steps.append(("CreateExcl", p, m))
            else:
                steps.append(("OpenWr", p))
            wfd[ret] = 0
        elif name in ("write", "pwrite64"):
            fd, path = _fdarg(a[0])
            p = pid_of(path) if path else None
            if p is None:
                continue
            data = _strarg(a[1])[:ret]
            off = int(a[3]) if name == "pwrite64" else wfd.get(int(fd), 0)
            if ret > 0:
                steps.append(("WriteAt", p, off, data))
            if name == "write":
                wfd[int(fd)] = off + ret
        elif name in ("fsync", "fdatasync", "close", "ftruncate", "fchmod"):
            fd, path = _fdarg(a[0])
            p = pid_of(path) if path else None
            if p is None:
                continue
            if name == "close":
                if int(fd) in wfd:
                    del wfd[int(fd)]
                    steps.append(("Close", p))
            elif name == "ftruncate":
                steps.append(("Ftruncate", p, int(a[1])))
            elif name == "fchmod":
                steps.append(("Chmod", p, int(a[1], 8)))
            else:
                steps.append(("Fsync", p))
        elif name in ("chmod", "fchmodat", "truncate", "unlink", "unlinkat"):
            if name in ("fchmodat", "unlinkat"):
                path, rest = join(a[0], _strarg(a[1])), a[2:]
            else:
                path, rest = join("AT_FDCWD", _strarg(a[0])), a[1:]
            p = pid_of(path)
            if p is None:
                continue
            if name in ("chmod", "fchmodat"):
                steps.append(("Chmod", p, int(rest[0], 8)))
            elif name == "truncate":
                steps.append(("Ftruncate", p, int(rest[0])))
            else:
                steps.append(("Unlink", p))
        elif name in ("rename", "renameat", "renameat2"):
            if name == "rename":
                src, dst = join("AT_FDCWD", _strarg(a[0])), join("AT_FDCWD", _strarg(a[1]))
            else:
                src, dst = join(a[0], _strarg(a[1])), join(a[2], _strarg(a[3]))
                if name == "renameat2" and a[4] not in ("0", "RENAME_NOREPLACE"):
                    raise Unmodelled("renameat2 with flags: " + raw[:200])
            ps, pd = pid_of(src), pid_of(dst)
            if ps is None and pd is None:
                continue
            if ps is None or pd is None:
                raise Unmodelled("rename across the scratch directory boundary: " + raw[:200])
            steps.append(("Rename", ps, pd))
        else:
            # vectored writes, links, copies: not modelled; only a problem when they name a scratch path
            if scratch.encode().hex() in "".join(re.findall(r"\\x([0-9a-f]{2})", raw)):
                raise Unmodelled("unmodelled system call on the scratch directory: " + raw[:200])
    return steps, names


def trace_cli(binp, args, cwd, fsize=None, kill=None, timeout=60):
    """runs the binary under strace; kill=(syscall, n): SIGKILL is delivered when a thread enters its n-th call of
    that system call (before the call takes effect).  Returns (rc, out, err, trace_text)"""
    tf = os.path.join(os.path.dirname(cwd), "trace-%s.txt" % os.path.basename(cwd))
    argv = [binp] + args if fsize is None else _limit_wrapper(binp, args, fsize)
    cmd = ["strace", "-f", "-y", "-xx", "-s", "4000000", "-e", "trace=" + TRACE_SET]
    if kill:
        cmd += ["-e", "inject=%s:signal=SIGKILL:when=%d" % kill]
    cmd += ["-o", tf, "--"] + argv
    p = subprocess.run(cmd, cwd=cwd, env=CLEAN_ENV, timeout=timeout, stdin=subprocess.DEVNULL,
                       stdout=subprocess.PIPE, stderr=subprocess.PIPE)
    try:
        text = open(tf, errors="replace").read()
    except OSError:
        text = ""
    try:
        os.remove(tf)
    except OSError:
        pass
    return p.returncode, p.stdout, p.stderr, text


KILL_CALLS = ["openat", "write", "fchmod", "fsync", "close", "renameat", "unlinkat", "exit_group"]


def syscall_counts(text):
    c = {}
    for name, _, _, _ in parse_trace(text):
        c[name] = c.get(name, 0) + 1
    c["exit_group"] = 1
    return c


# ------------------------------------------------------------------------------------------------
# Coq emission

def coq_bytes(b):
    return "[" + "; ".join(str(x) for x in b) + "]"


def coq_step(st):
    k = st[0]
    if k in ("OpenTrunc", "CreateExcl", "Chmod"):
        return "%s %d %d" % (k, st[1], st[2])
    if k in ("OpenWr", "Fsync", "Close", "Unlink"):
        return "%s %d" % (k, st[1])
    if k == "WriteAt":
        return "WriteAt %d %d%%nat %s" % (st[1], st[2], coq_bytes(st[3]))
    if k == "Ftruncate":
        return "Ftruncate %d %d%%nat" % (st[1], st[2])
    if k == "Rename":
        return "Rename %d %d" % (st[1], st[2])
    raise ValueError(k)


def coq_steps(steps):
    return "[" + ";\n     ".join(coq_step(s) for s in steps) + "]"


def step_json(st):
    return [x.decode("latin1") if isinstance(x, bytes) else x for x in st]


GEN_HDR = ("(* GENERATED by lib/c19.py on every run from the system-call trace (strace -f -y) of the gosqlx binary built from\n"
           "   /repo's current working tree — do not edit.  Path 1 is the file being rewritten in place, paths 2.. are the\n"
           "   other names the writer used inside the scratch directory, in order of first use. *)\n"
           "From Coq Require Import List NArith.\nFrom GV Require Import Model.FileRepl.\nImport ListNotations.\nLocal Open Scope N_scope.\n\n")


def emit_writeproto(obs):
    """obs: {writer: {old, new, ok_steps, fails: [(k, mode, steps)]}} for writers 'fmt' and 'lint'"""
    body = GEN_HDR
    for w in ("fmt", "lint"):
        o = obs[w]
        body += "(* writer: gosqlx %s *)\n" % " ".join(o["args"])
        body += "Definition %s_old : bytes := %s.\n" % (w, coq_bytes(o["old"]))
        body += "Definition %s_new : bytes := %s.\n" % (w, coq_bytes(o["new"]))
        body += "Definition %s_ok : list step :=\n    %s.\n" % (w, coq_steps(o["ok_steps"]))
        body += "(* runs in which the write failed (fail: EFBIG after k bytes, then clean-up) or the process was killed (kill: SIGXFSZ at byte k) *)\n"
        body += "Definition %s_fail : list (list step) :=\n  [%s].\n\n" % (
            w, ";\n   ".join("(* k=%d %s *) %s" % (k, mode, coq_steps(st)) for k, mode, st in o["fails"]))
    return common.write_if_changed(os.path.join(common.GEN, "WriteProto.v"), body)


# ------------------------------------------------------------------------------------------------
# the in-place writers under test

FMT_INPUTS = [
    b"select a,b from t where x=1\n",
    b"select u.id, u.name, count(o.id) from users u left join orders o on o.user_id = u.id where u.active = true group by u.id, u.name order by 3 desc limit 10;\n",
    b"insert into t (a, b) values (1, 'x'), (2, 'y');\nupdate t set a = a + 1 where b = 'x';\n",
]
LINT_INPUTS = [
    b"select a  from t   \n",
    b"select id,   name from users   \nwhere  id = 1  \n\n\n\norder by name\n",
    b"SELECT a\nFROM t\nwhere a in (select b   from u)   \n",
]
WRITERS = {
    "fmt": dict(args=["format", "-i", "t.sql"], inputs=FMT_INPUTS),
    "lint": dict(args=["lint", "--auto-fix", "t.sql"], inputs=LINT_INPUTS),
}


def touching(steps):
    return [s for s in steps if (s[0] == "Rename" and 1 in (s[1], s[2])) or
            (s[0] not in ("Rename", "Fsync", "Close", "OpenWr") and s[1] == 1)]


def classify(steps):
    """python mirror of the Coq shape predicates, for messages only"""
    t = touching(steps)
    if not t:
        return "untouched"
    if t[0][0] == "OpenTrunc":
        return "truncate-then-write"
    if t[0][0] == "Rename" and t[0][2] == 1 and t[0][1] != 1:
        return "temp+rename"
    return "other"


def prepare(d, old, mode=0o644):
    path = os.path.join(d, "t.sql")
    with open(path, "wb") as f:
        f.write(old)
    os.chmod(path, mode)
    return path


def read_state(d):
    try:
        cur = open(os.path.join(d, "t.sql"), "rb").read()
    except OSError:
        cur = None
    return cur, sorted(x for x in os.listdir(d) if x != "t.sql")


def crash_run(binp, sc, args, old, k):
    """write failure after k bytes (RLIMIT_FSIZE = k, EFBIG)"""
    d = sc.sub()
    prepare(d, old)
    rc, out, err = run_cli(binp, args, d, fsize=k)
    cur, extra = read_state(d)
    shutil.rmtree(d, ignore_errors=True)
    return dict(k=k, inj="efbig", rc=rc, cur=cur, extra=extra, err=err[-300:].decode("utf-8", "replace"))


def kill_run(binp, sc, args, old, kill, fsize=None):
    """SIGKILL on entry of the n-th call of one system call (optionally on top of a write cut at fsize bytes)"""
    d = sc.sub()
    prepare(d, old)
    rc, out, err, text = trace_cli(binp, args, d, fsize=fsize, kill=kill)
    cur, extra = read_state(d)
    try:
        steps, _ = abstract_trace(text, d, "t.sql")
    except Unmodelled:
        steps = None
    shutil.rmtree(d, ignore_errors=True)
    return dict(k=fsize, inj="kill", kill=list(kill), rc=rc, killed=(rc in (-9, 137)), cur=cur, extra=extra, steps=steps, err="")


def observe_writer(binp, sc, w, old, traced_ks):
    """successful traced run + traced failing runs at a few limits"""
    args = WRITERS[w]["args"]
    d = sc.sub()
    prepare(d, old, 0o640)
    rc, out, err, text = trace_cli(binp, args, d)
    new, extra = read_state(d)
    mode_after = os.stat(os.path.join(d, "t.sql")).st_mode & 0o777 if new is not None else None
    steps, names = abstract_trace(text, d, "t.sql")
    res = dict(args=args, old=old, new=new, rc=rc, ok_steps=steps, names=names, extra=extra, mode_after=mode_after,
               counts=syscall_counts(text), fails=[], cases=[(old, steps, new)])
    if new is None or new == old:
        return res
    for k in traced_ks(len(new)):
        d = sc.sub()
        prepare(d, old, 0o640)
        rc2, _, _, text2 = trace_cli(binp, args, d, fsize=k)
        cur, _ = read_state(d)
        st2, _ = abstract_trace(text2, d, "t.sql")
        res["fails"].append((k, "efbig", st2))
        res["cases"].append((old, st2, cur))
        if k == traced_ks(len(new))[1]:
            res["fail_counts"] = (k, syscall_counts(text2))
    return res


def crash_violation(rp, w, args, old, new, r, shape):
    what = ("a write failure after %d bytes" % r["k"]) if r["inj"] == "efbig" else \
           ("SIGKILL at the %s call #%d%s" % (r["kill"][0], r["kill"][1], "" if r["k"] is None else " after a write cut at %d bytes" % r["k"]))
    rp.violation({"kind": "crash", "property": "C19", "writer": w, "args": args, "old": old.decode("latin1"),
                  "new": new.decode("latin1"), "k": r["k"], "inj": r["inj"], "kill": r.get("kill"),
                  "on_disk": None if r["cur"] is None else r["cur"].decode("latin1"), "exit": r["rc"], "stderr": r["err"],
                  "replay_cmd": "bin/check C19 --replay <this file>",
                  "explanation": "after %s the file on disk is neither the complete original nor the complete new content "
                                 "(observed protocol shape of this writer: %s)" % (what, shape)},
                 "crash_%s_%s_%s" % (w, r["inj"], r["k"] if r["inj"] == "efbig" else "%s%d" % tuple(r["kill"])))


def file_replacement(rp, binp, sc, tier):
    """part 1: protocol observation -> Gen/WriteProto.v -> Coq; crash sweeps; syscall model vs real file system.
    Returns (evaluations, nontrivial, samples) or None when the check cannot continue."""
    thorough = tier != "quick"
    def traced_ks(n):
        ks = [0, n // 2, n - 1]
        return [x for i, x in enumerate(ks) if x not in ks[:i]]
    obs, unmodelled = {}, None
    try:
        for w in ("fmt", "lint"):
            obs[w] = observe_writer(binp, sc, w, WRITERS[w]["inputs"][0], traced_ks)
    except Unmodelled as e:
        unmodelled = str(e)
    if unmodelled or any(o["new"] is None or o["new"] == o["old"] for o in obs.values()):
        rp.obligation("protocol observation", False, unmodelled or "an in-place writer did not rewrite its probe file")
        rp.violation({"kind": "correspondence", "broken": "syscall trace abstraction", "detail": unmodelled,
                      "observed": {w: dict(rc=o["rc"], changed=o["new"] != o["old"]) for w, o in obs.items()}},
                     "protocol_observation", no_input=True)
        return None
    with common.Lock():
        emit_writeproto(obs)
        ok_inst, ok_props, _, logs = common.coq_stage(
            rp, ["theories/Proofs/FileReplP.vo", "theories/Inst/Inst_C19.vo"], "theories/Props/C19.v",
            PROP_THEOREMS, inst_names=INST_LEMMAS)
    shapes = {w: classify(obs[w]["ok_steps"]) for w in obs}
    rp.cov["observed_protocol"] = {w: dict(shape=shapes[w], calls=[step_json(s)[:3] for s in obs[w]["ok_steps"]],
                                           failing_runs=[(k, m, [s[0] for s in st]) for k, m, st in obs[w]["fails"]],
                                           mode_before="0640", mode_after="%04o" % obs[w]["mode_after"]) for w in obs}

    # ---- crash points (a): a write failure at every byte offset of the output ---------------------------
    inputs = {w: list(WRITERS[w]["inputs"]) for w in WRITERS}
    if thorough:
        inputs["fmt"] += [("select c%d, c%d + 1 from t%d where c%d > %d;\n" % (i, i + 1, i, i, i)).encode() * (1 + i % 3) for i in range(6)]
        inputs["lint"] += [("select  c%d from   t%d   \n" % (i, i)).encode() * (1 + i) for i in range(6)]
    jobs, pairs = [], []
    for w in ("fmt", "lint"):
        for old in inputs[w]:
            d = sc.sub()
            prepare(d, old)
            run_cli(binp, WRITERS[w]["args"], d)
            new, _ = read_state(d)
            shutil.rmtree(d, ignore_errors=True)
            if new is None or new == old:
                rp.cov["notes"].append("writer %s left input unchanged (no crash points): %r" % (w, old[:40]))
                continue
            pairs.append((w, old, new))
            jobs += [(w, old, new, k) for k in range(0, len(new) + 2)]
    with concurrent.futures.ThreadPoolExecutor(max_workers=8) as ex:
        results = list(ex.map(lambda j: (j, crash_run(binp, sc, WRITERS[j[0]]["args"], j[1], j[3])), jobs))
    witnesses, n_mid, garbage, silent = {}, 0, 0, 0
    for (w, old, new, k), r in results:
        if r["cur"] != old and r["cur"] != new:
            witnesses.setdefault((w, "efbig"), (old, new, r))      # smallest k first
            continue
        if k >= len(new) and r["cur"] != new:
            witnesses.setdefault((w, "efbig-nolimit"), (old, new, r))
        if 0 < k < len(new):
            n_mid += 1
        if r["extra"]:
            garbage += 1
        if k < len(new) and r["rc"] == 0:
            silent += 1
    # ---- crash points (b): SIGKILL on entry of every system call of the run, and of runs whose write is cut ---
    kjobs = []
    for w in ("fmt", "lint"):
        o = obs[w]
        for name in KILL_CALLS:
            for n in range(1, o["counts"].get(name, 0) + 1):
                kjobs.append((w, o["old"], o["new"], (name, n), None))
        ks = traced_ks(len(o["new"])) if not thorough else list(range(0, len(o["new"])))
        fk, fc = o.get("fail_counts", (None, {}))
        for k in ks:
            for name in ("write", "close", "unlinkat"):
                for n in range(1, fc.get(name, 0) + 2):
                    kjobs.append((w, o["old"], o["new"], (name, n), k))
    with concurrent.futures.ThreadPoolExecutor(max_workers=8) as ex:
        kresults = list(ex.map(lambda j: (j, kill_run(binp, sc, WRITERS[j[0]]["args"], j[1], j[3], j[4])), kjobs))
    kill_points, n_killed, cases = set(), 0, []
    for (w, old, new, kill, k), r in kresults:
        if r["cur"] != old and r["cur"] != new:
            witnesses.setdefault((w, "kill"), (old, new, r))
            continue
        if r["killed"]:
            n_killed += 1
            if r["steps"] is not None:
                kill_points.add((w, tuple((s[0], len(s[3]) if s[0] == "WriteAt" else 0) for s in r["steps"])))
                if len(cases) < 60 or thorough:
                    cases.append((old, r["steps"], r["cur"]))
    for (w, inj), (old, new, r) in sorted(witnesses.items()):
        crash_violation(rp, w, WRITERS[w]["args"], old, new, r, shapes[w])
    n_runs = len(results) + len(kresults)
    rp.obligation("crash sweep: the file is the complete old or the complete new content after a write failure at every byte offset "
                  "(%d runs) and after SIGKILL at every system call (%d runs, %d killed, %d distinct crash points)"
                  % (len(results), len(kresults), n_killed, len(kill_points)), not witnesses)
    rp.cov.update(crash_runs_efbig=len(results), crash_runs_mid_write=n_mid, kill_runs=len(kresults), kill_runs_killed=n_killed,
                  kill_points_distinct=len(kill_points), temp_files_left_after_handled_failure=garbage,
                  write_failures_with_exit_0=silent, crash_inputs=len(pairs))
    if not ok_inst and not witnesses:
        rp.violation({"kind": "proof", "theorem": "Inst_C19 (the observed protocol has the proved-atomic shape)", "shapes": shapes,
                      "log": logs["inst"][-3000:]}, "inst_c19", no_input=True)
    if ok_inst and not ok_props:
        rp.violation({"kind": "proof", "theorem": "Props/C19.v", "log": logs["props"][-3000:]}, "props_c19", no_input=True)

    # ---- model of the system calls vs the real file system, on the traced runs ----------------------------
    cases = [c for w in obs for c in obs[w]["cases"]] + cases
    bad, okc, errc = [], True, ""
    for sh in [cases[i:i + 400] for i in range(0, len(cases), 400)]:
        body = ("From Coq Require Import List NArith.\nFrom GV Require Import Model.FileRepl.\nImport ListNotations.\nOpen Scope N_scope.\n"
                "Definition cases : list (bytes * list step * option bytes) := [\n" +
                ";\n".join("(%s, %s, %s)" % (coq_bytes(o), coq_steps(st), "None" if seen is None else "Some " + coq_bytes(seen))
                           for o, st, seen in sh) +
                "].\nDefinition bad := Eval vm_compute in bad_idx run_case_ok 0 cases.\nPrint bad.\n")
        ok1, outc, errc = common.coq_cases("c19_fs_cases", body)
        okc = okc and ok1
        bad += [sh[i] for i in common.parse_nlist(outc)] if ok1 else sh
    rp.obligation("correspondence: Coq run(observed calls) = file content on disk, %d traced runs (successful, failed and killed)" % len(cases),
                  okc and not bad, errc[-300:] if not okc else "")
    if not okc or bad:
        rp.violation({"kind": "correspondence", "broken": "FileRepl.run vs real file system", "detail": errc[-2000:],
                      "bad_cases": [dict(old=o.decode("latin1"), steps=[step_json(s) for s in st], seen=None if seen is None else seen.decode("latin1")) for o, st, seen in bad[:5]]},
                     "fs_model_mismatch", no_input=True)
    rp.cov["fs_model_cases"] = len(cases)
    samples = [dict(writer=w, old=old.decode("latin1")[:80], k=k, inj="efbig", exit=r["rc"],
                    on_disk_is="old" if r["cur"] == old else "new" if r["cur"] == new else "OTHER") for (w, old, new, k), r in results[3:5]]
    samples += [dict(writer=w, kill=list(kill), cut_at=k, killed=r["killed"], calls_completed=None if r["steps"] is None else [s[0] for s in r["steps"]],
                     on_disk_is="old" if r["cur"] == old else "new" if r["cur"] == new else "OTHER") for (w, old, new, kill, k), r in kresults[-2:]]
    return n_runs + len(cases), n_mid + len(kill_points), samples


def run(tier):
    rp = Report("C19", tier)
    try:
        with common.Lock():
            binp = stage_cli()
    except common.StageError as e:
        return common.stage_fail(rp, e)
    with Scratch() as sc:
        r1 = file_replacement(rp, binp, sc, tier)
        if r1 is None:
            return rp.finish()
    ev, nt, samples = r1
    rp.cov["evaluations"] = ev
    rp.cov["distinct_nontrivial"] = nt
    rp.cov["rule"] = ("crash run = one execution of an in-place command (format -i / lint --auto-fix) on a file it rewrites, with a write failure injected "
                      "(RLIMIT_FSIZE=k, every k in 0..|output|+1) or SIGKILL delivered on entry of a system call (every call of the run; for cut writes the calls of the failing run); "
                      "non-trivial = the write is cut strictly inside the output (0<k<|output|) or the process was killed at a distinct point of the protocol")
    rp.cov["samples"] = samples
    rp.assumptions = ["strace reports every system call that changes a file in the scratch directory (unmodelled families are flagged)",
                      "RLIMIT_FSIZE injects the write failure: the kernel cuts the write at the limit, the next write fails with EFBIG (SIGXFSZ ignored)",
                      "durability across power loss is outside the model (Fsync is a no-op on the visible state)"]
    return rp.finish()


INST_LEMMAS = ["Inst_C19.fmt_ok_atomic", "Inst_C19.lint_ok_atomic", "Inst_C19.fmt_fail_untouched", "Inst_C19.lint_fail_untouched"]
PROP_THEOREMS = ["Props.C19.C19_replace_atomic", "Props.C19.C19_replace_success", "Props.C19.C19_replace_write_failure",
                 "Props.C19.C19_shape_atomic", "Props.C19.C19_untouched_keeps",
                 "Props.C19.C19_writefile_crash_prefix", "Props.C19.C19_writefile_refuted", "Props.C19.C19_trunc_shape_loses_old",
                 "Props.C19.C19_observed_format_atomic", "Props.C19.C19_observed_lint_atomic",
                 "Props.C19.C19_observed_failures_keep_old"]


def replay(path):
    d = json.load(open(path))
    if d.get("kind") == "crash":
        binp = stage_cli()
        with Scratch() as sc:
            old, new = d["old"].encode("latin1"), d["new"].encode("latin1")
            if d.get("inj") == "kill":
                r = kill_run(binp, sc, d["args"], old, tuple(d["kill"]), d.get("k"))
            else:
                r = crash_run(binp, sc, d["args"], old, d["k"])
        state = "old" if r["cur"] == old else "new" if r["cur"] == new else "neither"
        print(json.dumps({"k": d["k"], "inj": d.get("inj"), "exit": r["rc"], "on_disk": state,
                          "content": None if r["cur"] is None else r["cur"].decode("latin1")}))
        return 0 if state != "neither" else 1
    return 2
