"""C19 — CLI verdicts match the library; files are never left half-written."""
import concurrent.futures, json, os, random, re, shutil, signal, subprocess, tempfile
import common
from common import Report, log

MANIFEST = dict(
    technique='Coq proofs over (a) a file-system/syscall/crash-point model with the in-place write protocol regenerated from the strace of the built binary on every run (instance lemma by vm_compute) and (b) a branch-by-branch model of the exit-status / write / report decisions of validate, format, lint, parse; both tied to the real gosqlx binary built from the working tree by end-to-end runs (flag matrix, RLIMIT_FSIZE sweep over every byte offset, kill at every byte offset)',
    text='FileRepl: every protocol of the temp-file+rename shape is atomic at every crash point (call index x byte offset) for all old/new contents (shape_atomic, replace_atomic), a write failure followed by clean-up keeps the old file, success leaves exactly the new content; the truncate-then-write shape is refuted by witness and characterised (content = first k bytes). The protocol the current binary follows is abstracted from its syscall trace into Gen/WriteProto.v and the decidable shape hypothesis is discharged by complete evaluation. Cli: exit status is zero iff every input is accepted and no failing-severity finding exists, --check never writes, print / -i / --check are mutually consistent, reports name exactly the failing inputs; the model is compared with the real binary over file sets x flags and with library verdicts computed by the Go harness.',
    note=common.BASE_NOTE + "Assumes strace shows every system call that can change a file (open/write/rename/unlink/truncate/chmod families are traced, any link/copy/vectored-write call on the scratch directory is reported as unmodelled); durability across power loss (fsync ordering) is outside the model; the kernel's RLIMIT_FSIZE semantics (short write up to the limit, then EFBIG or SIGXFSZ) is the write-failure injector.",
    design='6/C19')

TRACE_SET = ("open,openat,creat,write,pwrite64,writev,pwritev,pwritev2,rename,renameat,renameat2,fsync,fdatasync,"
             "ftruncate,truncate,close,chmod,fchmod,fchmodat,unlink,unlinkat,link,linkat,symlink,symlinkat,"
             "copy_file_range,sendfile")


class Unmodelled(Exception):
    pass


# ------------------------------------------------------------------------------------------------
# staging: the real binary, built from REPO's current working tree

def stage_cli():
    sd = common.stage_dir()
    binp = os.path.join(sd, "gosqlx")
    if os.path.exists(binp):
        return binp
    p = common.run(["go", "build", "-o", binp + ".tmp", "./cmd/gosqlx"], cwd=common.REPO, env=common.GOENV, timeout=900)
    if p.returncode != 0:
        raise common.StageError("gosqlx-build", p.stderr[-3000:], tree_caused=True)
    os.replace(binp + ".tmp", binp)
    return binp


class Scratch:
    """a private scratch directory under the stage dir (never inside /repo or tracked dirs), removed on exit"""
    def __enter__(self):
        base = os.path.join(common.BUILD, "scratch")
        os.makedirs(base, exist_ok=True)
        self.dir = os.path.realpath(tempfile.mkdtemp(prefix="c19-", dir=base))
        self.n = 0
        return self
    def __exit__(self, *a):
        shutil.rmtree(self.dir, ignore_errors=True)
    def sub(self):
        self.n += 1
        d = os.path.join(self.dir, "d%06d" % self.n)
        os.makedirs(d)
        return d


CLEAN_ENV = {"PATH": "/usr/bin:/bin", "HOME": "/nonexistent", "LANG": "C"}


def _limit_wrapper(binp, args, fsize):
    """argv that runs the binary with RLIMIT_FSIZE = fsize bytes and SIGXFSZ ignored: the write that crosses the
    limit is cut short at the limit and the next one fails with EFBIG (byte-granular write failure)."""
    q = " ".join("'%s'" % a.replace("'", "'\\''") for a in [binp] + args)
    return ["/bin/sh", "-c", 'trap "" XFSZ; exec prlimit --fsize=%d:%d -- %s' % (fsize, fsize, q)]


def run_cli(binp, args, cwd, stdin=None, fsize=None, timeout=60):
    """runs the binary; stdout/stderr are pipes (not subject to the file-size limit). Returns (rc, out, err)."""
    argv = [binp] + args if fsize is None else _limit_wrapper(binp, args, fsize)
    p = subprocess.run(argv, cwd=cwd, env=CLEAN_ENV, timeout=timeout,
                       stdin=subprocess.DEVNULL if stdin is None else None,
                       input=stdin, stdout=subprocess.PIPE, stderr=subprocess.PIPE)
    return p.returncode, p.stdout, p.stderr


# ------------------------------------------------------------------------------------------------
# strace -> protocol steps

def _unhex(s):
    return bytes(int(x, 16) for x in re.findall(r"\\x([0-9a-f]{2})", s))


def _split_args(s):
    out, depth, cur, inq = [], 0, "", False
    for ch in s:
        if ch == '"':
            inq = not inq
        if not inq:
            if ch in "<{[(":
                depth += 1
            elif ch in ">}])":
                depth -= 1
            elif ch == "," and depth == 0:
                out.append(cur.strip()); cur = ""
                continue
        cur += ch
    if cur.strip():
        out.append(cur.strip())
    return out


def _fdarg(a):
    m = re.match(r"^(-?\d+|AT_FDCWD)(?:<(.*)>)?$", a)
    if not m:
        return None, None
    return m.group(1), (_unhex(m.group(2)).decode("utf-8", "replace") if m.group(2) is not None else None)


def _strarg(a):
    m = re.match(r'^"(.*)"(\.\.\.)?$', a)
    if not m:
        return None
    if m.group(2):
        raise Unmodelled("strace truncated a string argument")
    return _unhex(m.group(1))


def parse_trace(text):
    """-> list of (syscall, [args], ret:int, raw) for completed calls, in completion order"""
    recs, pending = [], {}
    for line in text.splitlines():
        m = re.match(r"^(\d+)\s+(.*)$", line)
        if not m:
            continue
        pid, rest = m.group(1), m.group(2)
        if rest.startswith("+++") or rest.startswith("---"):
            continue
        if rest.endswith("<unfinished ...>"):
            pending[pid] = rest[:-len("<unfinished ...>")]
            continue
        m2 = re.match(r"^<\.\.\. (\w+) resumed>(.*)$", rest)
        if m2:
            rest = pending.pop(pid, m2.group(1) + "(") + m2.group(2)
        m3 = re.match(r"^(\w+)\((.*)\)\s+=\s+(-?\d+|\?)(.*)$", rest)
        if not m3:
            continue
        name, args, ret = m3.group(1), m3.group(2), m3.group(3)
        recs.append((name, _split_args(args), -1 if ret == "?" else int(ret), rest))
    return recs


def abstract_trace(text, scratch, target):
    """strace text -> (steps, names).  steps: tuples ('OpenTrunc', pid, mode) ... over path ids (1 = target);
    only successful calls on paths inside the scratch directory are kept."""
    ids, names = {}, {}
    def pid_of(path):
        path = os.path.normpath(path)
        if not (path + "/").startswith(scratch + "/"):
            return None
        rel = os.path.relpath(path, scratch)
        if rel == target:
            return 1
        if rel not in ids:
            ids[rel] = len(ids) + 2
            names[ids[rel]] = rel
        return ids[rel]
    def join(dirarg, rel):
        _, dpath = _fdarg(dirarg)
        rel = rel.decode("utf-8", "replace")
        return rel if os.path.isabs(rel) else os.path.join(dpath or scratch, rel)
    wfd = {}    # fd -> offset, for descriptors opened for writing on scratch paths
    steps = []
    for name, a, ret, raw in parse_trace(text):
        if ret < 0:
            continue
        if name in ("open", "openat", "creat"):
            if name == "openat":
                path, flags, mode = join(a[0], _strarg(a[1])), a[2], (a[3] if len(a) > 3 else "0")
            elif name == "open":
                path, flags, mode = join("AT_FDCWD", _strarg(a[0])), a[1], (a[2] if len(a) > 2 else "0")
            else:
                path, flags, mode = join("AT_FDCWD", _strarg(a[0])), "O_WRONLY|O_CREAT|O_TRUNC", a[1]
            p = pid_of(path)
            if p is None:
                continue
            fl = set(flags.split("|"))
            if not ({"O_WRONLY", "O_RDWR"} & fl):
                continue
            if "O_APPEND" in fl:
                raise Unmodelled("O_APPEND open of a scratch path: " + raw[:200])
            m = int(mode, 8) if re.match(r"^0[0-7]*$", mode) else 0
            if "O_TRUNC" in fl:
                steps.append(("OpenTrunc", p, m))
            elif "O_EXCL" in fl and "O_CREAT" in fl:
                steps.append(("CreateExcl", p, m))
            else:
                steps.append(("OpenWr", p))
            wfd[ret] = 0
        elif name in ("write", "pwrite64"):
            fd, path = _fdarg(a[0])
            p = pid_of(path) if path else None
            if p is None:
                continue
            data = _strarg(a[1])[:ret]
            off = int(a[3]) if name == "pwrite64" else wfd.get(int(fd), 0)
            if ret > 0:
                steps.append(("WriteAt", p, off, data))
            if name == "write":
                wfd[int(fd)] = off + ret
        elif name in ("fsync", "fdatasync", "close", "ftruncate", "fchmod"):
            fd, path = _fdarg(a[0])
            p = pid_of(path) if path else None
            if p is None:
                continue
            if name == "close":
                if int(fd) in wfd:
                    del wfd[int(fd)]
                    steps.append(("Close", p))
            elif name == "ftruncate":
                steps.append(("Ftruncate", p, int(a[1])))
            elif name == "fchmod":
                steps.append(("Chmod", p, int(a[1], 8)))
            else:
                steps.append(("Fsync", p))
        elif name in ("chmod", "fchmodat", "truncate", "unlink", "unlinkat"):
            if name in ("fchmodat", "unlinkat"):
                path, rest = join(a[0], _strarg(a[1])), a[2:]
            else:
                path, rest = join("AT_FDCWD", _strarg(a[0])), a[1:]
            p = pid_of(path)
            if p is None:
                continue
            if name in ("chmod", "fchmodat"):
                steps.append(("Chmod", p, int(rest[0], 8)))
            elif name == "truncate":
                steps.append(("Ftruncate", p, int(rest[0])))
            else:
                steps.append(("Unlink", p))
        elif name in ("rename", "renameat", "renameat2"):
            if name == "rename":
                src, dst = join("AT_FDCWD", _strarg(a[0])), join("AT_FDCWD", _strarg(a[1]))
            else:
                src, dst = join(a[0], _strarg(a[1])), join(a[2], _strarg(a[3]))
                if name == "renameat2" and a[4] not in ("0", "RENAME_NOREPLACE"):
                    raise Unmodelled("renameat2 with flags: " + raw[:200])
            ps, pd = pid_of(src), pid_of(dst)
            if ps is None and pd is None:
                continue
            if ps is None or pd is None:
                raise Unmodelled("rename across the scratch directory boundary: " + raw[:200])
            steps.append(("Rename", ps, pd))
        else:
            # vectored writes, links, copies: not modelled; only a problem when they name a scratch path
            if scratch.encode().hex() in "".join(re.findall(r"\\x([0-9a-f]{2})", raw)):
                raise Unmodelled("unmodelled system call on the scratch directory: " + raw[:200])
    return steps, names


def trace_cli(binp, args, cwd, fsize=None, kill=None, timeout=60):
    """runs the binary under strace; kill=(syscall, n): SIGKILL is delivered when a thread enters its n-th call of
    that system call (before the call takes effect).  Returns (rc, out, err, trace_text)"""
    tf = os.path.join(os.path.dirname(cwd), "trace-%s.txt" % os.path.basename(cwd))
    argv = [binp] + args if fsize is None else _limit_wrapper(binp, args, fsize)
    cmd = ["strace", "-f", "-y", "-xx", "-s", "4000000", "-e", "trace=" + TRACE_SET]
    if kill:
        cmd += ["-e", "inject=%s:signal=SIGKILL:when=%d" % kill]
    cmd += ["-o", tf, "--"] + argv
    p = subprocess.run(cmd, cwd=cwd, env=CLEAN_ENV, timeout=timeout, stdin=subprocess.DEVNULL,
                       stdout=subprocess.PIPE, stderr=subprocess.PIPE)
    try:
        text = open(tf, errors="replace").read()
    except OSError:
        text = ""
    try:
        os.remove(tf)
    except OSError:
        pass
    return p.returncode, p.stdout, p.stderr, text


KILL_CALLS = ["openat", "write", "fchmod", "fsync", "close", "renameat", "unlinkat", "exit_group"]


def syscall_counts(text):
    c = {}
    for name, _, _, _ in parse_trace(text):
        c[name] = c.get(name, 0) + 1
    c["exit_group"] = 1
    return c


# ------------------------------------------------------------------------------------------------
# Coq emission

def coq_bytes(b):
    return "[" + "; ".join(str(x) for x in b) + "]"


def coq_step(st):
    k = st[0]
    if k in ("OpenTrunc", "CreateExcl", "Chmod"):
        return "%s %d %d" % (k, st[1], st[2])
    if k in ("OpenWr", "Fsync", "Close", "Unlink"):
        return "%s %d" % (k, st[1])
    if k == "WriteAt":
        return "WriteAt %d %d%%nat %s" % (st[1], st[2], coq_bytes(st[3]))
    if k == "Ftruncate":
        return "Ftruncate %d %d%%nat" % (st[1], st[2])
    if k == "Rename":
        return "Rename %d %d" % (st[1], st[2])
    raise ValueError(k)


def coq_steps(steps):
    return "[" + ";\n     ".join(coq_step(s) for s in steps) + "]"


def step_json(st):
    return [x.decode("latin1") if isinstance(x, bytes) else x for x in st]


GEN_HDR = ("(* GENERATED by lib/c19.py on every run from the system-call trace (strace -f -y) of the gosqlx binary built from\n"
           "   /repo's current working tree — do not edit.  Path 1 is the file being rewritten in place, paths 2.. are the\n"
           "   other names the writer used inside the scratch directory, in order of first use. *)\n"
           "From Coq Require Import List NArith.\nFrom GV Require Import Model.FileRepl.\nImport ListNotations.\nLocal Open Scope N_scope.\n\n")


def emit_writeproto(obs):
    """obs: {writer: {old, new, ok_steps, fails: [(k, mode, steps)]}} for writers 'fmt' and 'lint'"""
    body = GEN_HDR
    for w in ("fmt", "lint"):
        o = obs[w]
        body += "(* writer: gosqlx %s *)\n" % " ".join(o["args"])
        body += "Definition %s_old : bytes := %s.\n" % (w, coq_bytes(o["old"]))
        body += "Definition %s_new : bytes := %s.\n" % (w, coq_bytes(o["new"]))
        body += "Definition %s_ok : list step :=\n    %s.\n" % (w, coq_steps(o["ok_steps"]))
        body += "(* runs in which the write failed (fail: EFBIG after k bytes, then clean-up) or the process was killed (kill: SIGXFSZ at byte k) *)\n"
        body += "Definition %s_fail : list (list step) :=\n  [%s].\n\n" % (
            w, ";\n   ".join("(* k=%d %s *) %s" % (k, mode, coq_steps(st)) for k, mode, st in o["fails"]))
    return common.write_if_changed(os.path.join(common.GEN, "WriteProto.v"), body)


# ------------------------------------------------------------------------------------------------
# the in-place writers under test

FMT_INPUTS = [
    b"select a,b from t where x=1\n",
    b"select u.id, u.name, count(o.id) from users u left join orders o on o.user_id = u.id where u.active = true group by u.id, u.name order by 3 desc limit 10;\n",
    b"insert into t (a, b) values (1, 'x'), (2, 'y');\nupdate t set a = a + 1 where b = 'x';\n",
]
LINT_INPUTS = [
    b"select a  from t   \n",
    b"select id,   name from users   \nwhere  id = 1  \n\n\n\norder by name\n",
    b"SELECT a\nFROM t\nwhere a in (select b   from u)   \n",
]
WRITERS = {
    "fmt": dict(args=["format", "-i", "t.sql"], inputs=FMT_INPUTS),
    "lint": dict(args=["lint", "--auto-fix", "t.sql"], inputs=LINT_INPUTS),
}


def touching(steps):
    return [s for s in steps if (s[0] == "Rename" and 1 in (s[1], s[2])) or
            (s[0] not in ("Rename", "Fsync", "Close", "OpenWr") and s[1] == 1)]


def classify(steps):
    """python mirror of the Coq shape predicates, for messages only"""
    t = touching(steps)
    if not t:
        return "untouched"
    if t[0][0] == "OpenTrunc":
        return "truncate-then-write"
    if t[0][0] == "Rename" and t[0][2] == 1 and t[0][1] != 1:
        return "temp+rename"
    return "other"


def prepare(d, old, mode=0o644):
    path = os.path.join(d, "t.sql")
    with open(path, "wb") as f:
        f.write(old)
    os.chmod(path, mode)
    return path


def read_state(d):
    try:
        cur = open(os.path.join(d, "t.sql"), "rb").read()
    except OSError:
        cur = None
    return cur, sorted(x for x in os.listdir(d) if x != "t.sql")


def crash_run(binp, sc, args, old, k):
    """write failure after k bytes (RLIMIT_FSIZE = k, EFBIG)"""
    d = sc.sub()
    prepare(d, old)
    rc, out, err = run_cli(binp, args, d, fsize=k)
    cur, extra = read_state(d)
    shutil.rmtree(d, ignore_errors=True)
    return dict(k=k, inj="efbig", rc=rc, cur=cur, extra=extra, err=err[-300:].decode("utf-8", "replace"))


def kill_run(binp, sc, args, old, kill, fsize=None):
    """SIGKILL on entry of the n-th call of one system call (optionally on top of a write cut at fsize bytes)"""
    d = sc.sub()
    prepare(d, old)
    rc, out, err, text = trace_cli(binp, args, d, fsize=fsize, kill=kill)
    cur, extra = read_state(d)
    try:
        steps, _ = abstract_trace(text, d, "t.sql")
    except Unmodelled:
        steps = None
    shutil.rmtree(d, ignore_errors=True)
    return dict(k=fsize, inj="kill", kill=list(kill), rc=rc, killed=(rc in (-9, 137)), cur=cur, extra=extra, steps=steps, err="")


def observe_writer(binp, sc, w, old, traced_ks):
    """successful traced run + traced failing runs at a few limits"""
    args = WRITERS[w]["args"]
    d = sc.sub()
    prepare(d, old, 0o640)
    rc, out, err, text = trace_cli(binp, args, d)
    new, extra = read_state(d)
    mode_after = os.stat(os.path.join(d, "t.sql")).st_mode & 0o777 if new is not None else None
    steps, names = abstract_trace(text, d, "t.sql")
    res = dict(args=args, old=old, new=new, rc=rc, ok_steps=steps, names=names, extra=extra, mode_after=mode_after,
               counts=syscall_counts(text), fails=[], cases=[(old, steps, new)])
    if new is None or new == old:
        return res
    for k in traced_ks(len(new)):
        d = sc.sub()
        prepare(d, old, 0o640)
        rc2, _, _, text2 = trace_cli(binp, args, d, fsize=k)
        cur, _ = read_state(d)
        st2, _ = abstract_trace(text2, d, "t.sql")
        res["fails"].append((k, "efbig", st2))
        res["cases"].append((old, st2, cur))
        if k == traced_ks(len(new))[1]:
            res["fail_counts"] = (k, syscall_counts(text2))
    return res


def crash_violation(rp, w, args, old, new, r, shape):
    what = ("a write failure after %d bytes" % r["k"]) if r["inj"] == "efbig" else \
           ("SIGKILL at the %s call #%d%s" % (r["kill"][0], r["kill"][1], "" if r["k"] is None else " after a write cut at %d bytes" % r["k"]))
    rp.violation({"kind": "crash", "property": "C19", "writer": w, "args": args, "old": old.decode("latin1"),
                  "new": new.decode("latin1"), "k": r["k"], "inj": r["inj"], "kill": r.get("kill"),
                  "on_disk": None if r["cur"] is None else r["cur"].decode("latin1"), "exit": r["rc"], "stderr": r["err"],
                  "replay_cmd": "bin/check C19 --replay <this file>",
                  "explanation": "after %s the file on disk is neither the complete original nor the complete new content "
                                 "(observed protocol shape of this writer: %s)" % (what, shape)},
                 "crash_%s_%s_%s" % (w, r["inj"], r["k"] if r["inj"] == "efbig" else "%s%d" % tuple(r["kill"])))


def file_replacement(rp, binp, sc, tier):
    """part 1: protocol observation -> Gen/WriteProto.v -> Coq; crash sweeps; syscall model vs real file system.
    Returns (evaluations, nontrivial, samples) or None when the check cannot continue."""
    thorough = tier != "quick"
    def traced_ks(n):
        ks = [0, n // 2, n - 1]
        return [x for i, x in enumerate(ks) if x not in ks[:i]]
    obs, unmodelled = {}, None
    try:
        for w in ("fmt", "lint"):
            obs[w] = observe_writer(binp, sc, w, WRITERS[w]["inputs"][0], traced_ks)
    except Unmodelled as e:
        unmodelled = str(e)
    if unmodelled or any(o["new"] is None or o["new"] == o["old"] for o in obs.values()):
        rp.obligation("protocol observation", False, unmodelled or "an in-place writer did not rewrite its probe file")
        rp.violation({"kind": "correspondence", "broken": "syscall trace abstraction", "detail": unmodelled,
                      "observed": {w: dict(rc=o["rc"], changed=o["new"] != o["old"]) for w, o in obs.items()}},
                     "protocol_observation", no_input=True)
        return None
    with common.Lock():
        emit_writeproto(obs)
        ok_inst, ok_props, _, logs = common.coq_stage(
            rp, ["theories/Proofs/FileReplP.vo", "theories/Proofs/CliP.vo", "theories/Inst/Inst_C19.vo"], "theories/Props/C19.v",
            PROP_THEOREMS, inst_names=INST_LEMMAS)
    shapes = {w: classify(obs[w]["ok_steps"]) for w in obs}
    rp.cov["observed_protocol"] = {w: dict(shape=shapes[w], calls=[step_json(s)[:3] for s in obs[w]["ok_steps"]],
                                           failing_runs=[(k, m, [s[0] for s in st]) for k, m, st in obs[w]["fails"]],
                                           mode_before="0640", mode_after="%04o" % obs[w]["mode_after"]) for w in obs}

    # ---- crash points (a): a write failure at every byte offset of the output ---------------------------
    inputs = {w: list(WRITERS[w]["inputs"]) for w in WRITERS}
    if thorough:
        inputs["fmt"] += [("select c%d, c%d + 1 from t%d where c%d > %d;\n" % (i, i + 1, i, i, i)).encode() * (1 + i % 3) for i in range(6)]
        inputs["lint"] += [("select  c%d from   t%d   \n" % (i, i)).encode() * (1 + i) for i in range(6)]
        inputs["fmt"].append(b"".join(b"select c%d, c%d + 1 as next_c, 'text %d' as label from table_%d where c%d between %d and %d;\n" % (i, i, i, i, i, i, i + 10) for i in range(24)))
        inputs["lint"].append(b"".join(b"select  c%d,   c%d from   table_%d where c%d = %d   \n" % (i, i + 1, i, i, i) for i in range(40)))
    jobs, pairs = [], []
    for w in ("fmt", "lint"):
        for old in inputs[w]:
            d = sc.sub()
            prepare(d, old)
            run_cli(binp, WRITERS[w]["args"], d)
            new, _ = read_state(d)
            shutil.rmtree(d, ignore_errors=True)
            if new is None or new == old:
                rp.cov["notes"].append("writer %s left input unchanged (no crash points): %r" % (w, old[:40]))
                continue
            pairs.append((w, old, new))
            jobs += [(w, old, new, k) for k in range(0, len(new) + 2)]
    with concurrent.futures.ThreadPoolExecutor(max_workers=8) as ex:
        results = list(ex.map(lambda j: (j, crash_run(binp, sc, WRITERS[j[0]]["args"], j[1], j[3])), jobs))
    witnesses, n_mid, garbage, silent = {}, 0, 0, 0
    for (w, old, new, k), r in results:
        if r["cur"] != old and r["cur"] != new:
            witnesses.setdefault((w, "efbig"), (old, new, r))      # smallest k first
            continue
        if k >= len(new) and r["cur"] != new:
            witnesses.setdefault((w, "efbig-nolimit"), (old, new, r))
        if 0 < k < len(new):
            n_mid += 1
        if r["extra"]:
            garbage += 1
        if k < len(new) and r["rc"] == 0:
            silent += 1
    # ---- crash points (b): SIGKILL on entry of every system call of the run, and of runs whose write is cut ---
    kjobs = []
    for w in ("fmt", "lint"):
        o = obs[w]
        for name in KILL_CALLS:
            for n in range(1, o["counts"].get(name, 0) + 1):
                kjobs.append((w, o["old"], o["new"], (name, n), None))
        ks = traced_ks(len(o["new"])) if not thorough else list(range(0, len(o["new"])))
        fk, fc = o.get("fail_counts", (None, {}))
        for k in ks:
            for name in ("write", "close", "unlinkat"):
                for n in range(1, fc.get(name, 0) + 2):
                    kjobs.append((w, o["old"], o["new"], (name, n), k))
    with concurrent.futures.ThreadPoolExecutor(max_workers=8) as ex:
        kresults = list(ex.map(lambda j: (j, kill_run(binp, sc, WRITERS[j[0]]["args"], j[1], j[3], j[4])), kjobs))
    kill_points, n_killed, cases = set(), 0, []
    for (w, old, new, kill, k), r in kresults:
        if r["cur"] != old and r["cur"] != new:
            witnesses.setdefault((w, "kill"), (old, new, r))
            continue
        if r["killed"]:
            n_killed += 1
            if r["steps"] is not None:
                kill_points.add((w, tuple((s[0], len(s[3]) if s[0] == "WriteAt" else 0) for s in r["steps"])))
                if len(cases) < 60 or thorough:
                    cases.append((old, r["steps"], r["cur"]))
    for (w, inj), (old, new, r) in sorted(witnesses.items()):
        k = known_match(writer=w)
        if k:
            rp.known(k["key"], k["what"])
            del witnesses[(w, inj)]
            continue
        crash_violation(rp, w, WRITERS[w]["args"], old, new, r, shapes[w])
    n_runs = len(results) + len(kresults)
    rp.obligation("crash sweep: the file is the complete old or the complete new content after a write failure at every byte offset "
                  "(%d runs) and after SIGKILL at every system call (%d runs, %d killed, %d distinct crash points)"
                  % (len(results), len(kresults), n_killed, len(kill_points)), not witnesses)
    rp.cov.update(crash_runs_efbig=len(results), crash_runs_mid_write=n_mid, kill_runs=len(kresults), kill_runs_killed=n_killed,
                  kill_points_distinct=len(kill_points), temp_files_left_after_handled_failure=garbage,
                  write_failures_with_exit_0=silent, crash_inputs=len(pairs))
    if not ok_inst and not witnesses:
        rp.violation({"kind": "proof", "theorem": "Inst_C19 (the observed protocol has the proved-atomic shape)", "shapes": shapes,
                      "log": logs["inst"][-3000:]}, "inst_c19", no_input=True)
    if ok_inst and not ok_props:
        rp.violation({"kind": "proof", "theorem": "Props/C19.v", "log": logs["props"][-3000:]}, "props_c19", no_input=True)

    # ---- model of the system calls vs the real file system, on the traced runs ----------------------------
    cases = [c for w in obs for c in obs[w]["cases"]] + cases
    bad, okc, errc = [], True, ""
    for sh in [cases[i:i + 400] for i in range(0, len(cases), 400)]:
        body = ("From Coq Require Import List NArith.\nFrom GV Require Import Model.FileRepl.\nImport ListNotations.\nOpen Scope N_scope.\n"
                "Definition cases : list (bytes * list step * option bytes) := [\n" +
                ";\n".join("(%s, %s, %s)" % (coq_bytes(o), coq_steps(st), "None" if seen is None else "Some " + coq_bytes(seen))
                           for o, st, seen in sh) +
                "].\nDefinition bad := Eval vm_compute in bad_idx run_case_ok 0 cases.\nPrint bad.\n")
        ok1, outc, errc = common.coq_cases("c19_fs_cases", body)
        okc = okc and ok1
        bad += [sh[i] for i in common.parse_nlist(outc)] if ok1 else sh
    rp.obligation("correspondence: Coq run(observed calls) = file content on disk, %d traced runs (successful, failed and killed)" % len(cases),
                  okc and not bad, errc[-300:] if not okc else "")
    if not okc or bad:
        rp.violation({"kind": "correspondence", "broken": "FileRepl.run vs real file system", "detail": errc[-2000:],
                      "bad_cases": [dict(old=o.decode("latin1"), steps=[step_json(s) for s in st], seen=None if seen is None else seen.decode("latin1")) for o, st, seen in bad[:5]]},
                     "fs_model_mismatch", no_input=True)
    rp.cov["fs_model_cases"] = len(cases)
    samples = [dict(writer=w, old=old.decode("latin1")[:80], k=k, inj="efbig", exit=r["rc"],
                    on_disk_is="old" if r["cur"] == old else "new" if r["cur"] == new else "OTHER") for (w, old, new, k), r in results[3:5]]
    samples += [dict(writer=w, kill=list(kill), cut_at=k, killed=r["killed"], calls_completed=None if r["steps"] is None else [s[0] for s in r["steps"]],
                     on_disk_is="old" if r["cur"] == old else "new" if r["cur"] == new else "OTHER") for (w, old, new, kill, k), r in kresults[-2:]]
    return n_runs + len(cases), n_mid + len(kill_points), samples


# ------------------------------------------------------------------------------------------------
# part 2: verdict matrix — the real binary vs the Coq verdict model vs library verdicts (Go harness)

VALID = ["select a,b from t where x=1\n", "select 1", "insert into t (a) values (1)\n",
         "select u.id from users u join orders o on o.uid = u.id where o.total > 10 order by 1\n", "SELECT a FROM t\n"]
INVALID = ["select from where\n", "selec 1\n", "select * from (\n", "select 'unterminated\n"]
EDGE = ["", "  \n", "-- only a comment\n", "select 1;;\n", ";\n"]
LINTY = ["select a  from t   \n", "\tselect 1\n    \tfrom t\n", "SELECT a FROM t\n\n\n\nWHERE a = 1\n", "select " + ", ".join("col%d" % i for i in range(12)) + " from t\n"]
INLINE = ["select 1", "select from", "SELECT\n1", "select a,b from t", "select 1;;", "select  a from t  "]
MISSING = None      # a file argument that does not exist


def looks_like_sql(t):
    up = t.strip().upper()
    return any(up.startswith(k + " ") or up.startswith(k + "\n") or up.startswith(k + "\t") or up == k for k in
               ["SELECT", "INSERT", "UPDATE", "DELETE", "CREATE", "DROP", "ALTER", "TRUNCATE", "WITH", "MERGE", "EXPLAIN", "ANALYZE", "SHOW", "DESCRIBE", "DESC"])


def ensure_nl(b):
    return b if b.endswith("\n") else b + "\n"


class Lib:
    """library facts from the Go harness, keyed by (text, indent, uppercase, compact, max_length)"""
    def __init__(self):
        self.want, self.facts = set(), {}
    @staticmethod
    def key(text, o=None):
        o = o or {}
        return (text, o.get("indent", 2), o.get("uppercase", True), o.get("compact", False), o.get("max_length", 100))
    def need(self, text, o=None):
        if text is not None:
            self.want.add(self.key(text, o))
            self.want.add(self.key(text.strip(), o))
    def fetch(self):
        todo = sorted(k for k in self.want if k not in self.facts)
        if not todo:
            return
        inp = "".join(json.dumps(dict(sql=k[0], indent=k[1], uppercase=k[2], compact=k[3], max_length=k[4])) + "\n" for k in todo)
        p = common.vh(["cli"], input=inp, timeout=900)
        lines = [l for l in p.stdout.splitlines() if l.strip()]
        if p.returncode != 0 or len(lines) != len(todo):
            raise common.StageError("harness-cli", (p.stderr or p.stdout)[-2000:], tree_caused=True)
        for k, l in zip(todo, lines):
            self.facts[k] = json.loads(l)
    def get(self, text, o=None):
        return self.facts[self.key(text, o)]


def fmt_opts(fl):
    return dict(indent=fl.get("indent", 2), uppercase=not fl.get("no_uppercase", False), compact=fl.get("compact", False))


def scenario_argv(sc):
    cmd, fl = sc["cmd"], sc["flags"]
    a = [cmd]
    if cmd == "validate":
        if fl.get("fmt"):
            a += ["--output-format", fl["fmt"]]
        if fl.get("strict"):
            a += ["--strict"]
        if fl.get("stats"):
            a += ["--stats"]
        if fl.get("quiet"):
            a += ["--quiet"]
        if fl.get("outfile"):
            a += ["--output-file", fl["outfile"]]
    elif cmd == "format":
        if fl.get("inplace"):
            a += ["-i"]
        if fl.get("check"):
            a += ["--check"]
        if fl.get("compact"):
            a += ["--compact"]
        if fl.get("no_uppercase"):
            a += ["--no-uppercase"]
        if fl.get("uppercase_flag"):
            a += ["--uppercase"]
        if fl.get("indent", 2) != 2:
            a += ["--indent", str(fl["indent"])]
        if fl.get("output"):
            a += ["-o", fl["output"]]
    elif cmd == "lint":
        if fl.get("fix"):
            a += ["--auto-fix"]
        if fl.get("failwarn"):
            a += ["--fail-on-warn"]
        if fl.get("max_length"):
            a += ["--max-length", str(fl["max_length"])]
    elif cmd == "parse":
        if fl.get("fmt"):
            a += ["-f", fl["fmt"]]
        if fl.get("tokens"):
            a += ["--tokens"]
        if fl.get("tree"):
            a += ["--tree"]
    if sc["kind"] == "files":
        a += sc.get("_names") or ["f%d.sql" % i for i in range(len(sc["texts"]))]
    elif sc["kind"] == "inline":
        a += [sc["texts"][0]]
    return a


def spelled_names(d, n, mode):
    """other spellings of the same files f0.sql .. f(n-1).sql in directory d: with ./, through the parent directory,
    through a sub-directory, absolute"""
    base = os.path.basename(d.rstrip("/"))
    forms = [lambda f: "./" + f, lambda f: "../%s/%s" % (base, f), lambda f: "sub/../" + f, lambda f: os.path.join(d, f), lambda f: f]
    return [forms[(i + mode) % len(forms)]("f%d.sql" % i) for i in range(n)]


def run_scenario(binp, scr, sc):
    d = scr.sub()
    before = {}
    sc = dict(sc)
    if sc["kind"] == "files" and sc["flags"].get("spell") is not None:
        os.makedirs(os.path.join(d, "sub"), exist_ok=True)
        sc["_names"] = spelled_names(d, len(sc["texts"]), sc["flags"]["spell"])
    if sc["kind"] == "files":
        for i, t in enumerate(sc["texts"]):
            if t is not None:
                with open(os.path.join(d, "f%d.sql" % i), "wb") as f:
                    f.write(t.encode())
                before["f%d.sql" % i] = t.encode()
    stdin = sc["texts"][0].encode() if sc["kind"] == "stdin" else None
    if sc["kind"] == "stdin":
        # a pipe on stdin (possibly empty)
        rc, out, err = run_cli(binp, scenario_argv(sc), d, stdin=stdin, fsize=sc.get("fsize"))
    else:
        rc, out, err = run_cli_tty(binp, scenario_argv(sc), d, fsize=sc.get("fsize"))
    after = {}
    for fn in sorted(os.listdir(d)):
        pth = os.path.join(d, fn)
        if os.path.isfile(pth):
            after[fn] = open(pth, "rb").read()
    shutil.rmtree(d, ignore_errors=True)
    return dict(rc=rc, out=out, err=err, before=before, after=after, cwd=d, names=sc.get("_names"))


def v_outcome(lib, text, strict):
    if text is None:
        return False
    if text == "":
        return True
    f = lib.get(text)
    return f["strict_ok"] if strict else f["pipeline_ok"]


def lib_accepts(lib, text, strict):
    """library verdict for the oracle; None: the library entry points disagree with each other (C07's matter) or the
    input is empty (the CLI documents empty input as valid)"""
    if text is None:
        return False
    if text.strip() == "":
        return None
    f = lib.get(text)
    if strict:
        return f["strict_ok"]
    if f["gosqlx_validate"] != f["parser_validate"]:
        return None
    return f["gosqlx_validate"]


STDIN_MAX = 10 * 1024 * 1024


def stdin_refused(t):
    return t == "" or "\0" in t[:512] or len(t.encode()) > STDIN_MAX


def cq_input(kind, items, stdin_none=False):
    if kind == "none":
        return "INone"
    if kind == "stdin":
        return "(IStdin None)" if stdin_none else "(IStdin (Some %s))" % items[0]
    if kind == "inline":
        return "(IInline %s)" % items[0]
    return "(IFiles [%s])" % "; ".join(items)


def cq_bool(b):
    return "true" if b else "false"


def cq_b(t):
    return coq_bytes(t if isinstance(t, bytes) else t.encode())


def cq_observed(rc, stdout, writes, outf):
    return "(mkO %d %s [%s] %s)" % (rc, "None" if stdout is None else "(Some %s)" % cq_b(stdout),
                                    "; ".join("(%d%%nat, %s)" % (i, cq_b(b)) for i, b in writes),
                                    "None" if outf is None else "(Some %s)" % cq_b(outf))


def judge(sc, r, lib):
    """-> (coq_case, [oracle failure strings]).  The oracle is phrased in terms of the property text and of library
    verdicts only; the Coq case carries the model's inputs (from the library facts) and the observed behaviour."""
    cmd, fl, kind, texts = sc["cmd"], sc["flags"], sc["kind"], sc["texts"]
    bad = []
    rc = r["rc"]
    if rc not in (0, 1):
        bad.append("exit status %s is neither 0 nor 1" % rc)
    nfiles = len(texts) if kind == "files" else 0
    writes = [(i, r["after"].get("f%d.sql" % i)) for i in range(nfiles)
              if texts[i] is not None and r["after"].get("f%d.sql" % i) != texts[i].encode()]
    writes = [(i, b if b is not None else b"<deleted>") for i, b in writes]
    for i in range(nfiles):
        if texts[i] is None and ("f%d.sql" % i) in r["after"]:
            bad.append("a missing input file was created")
    extra = sorted(k for k in r["after"] if not re.match(r"^f\d+\.sql$", k))
    refused = kind == "stdin" and stdin_refused(texts[0])

    if cmd == "validate":
        strict = bool(fl.get("strict"))
        fmt = fl.get("fmt") or "text"
        fmtn = {"text": 0, "json": 1, "sarif": 2}.get(fmt, 3)
        outfile = fl.get("outfile")
        out_ok = not (outfile and outfile.startswith("nodir/"))
        if kind == "inline" and not strict and fmtn == 0:
            outs = [lib.get(texts[0])["parser_validate"]]
        elif kind == "inline":
            outs = [v_outcome(lib, texts[0].strip(), strict)]
        elif kind in ("files", "stdin") and not refused:
            outs = [v_outcome(lib, t, strict) for t in texts]
        else:
            outs = []
        # observed report
        rep, rep_valid, rep_src = None, True, None
        names = {"files": ["f%d.sql" % i for i in range(nfiles)], "stdin": ["stdin"], "inline": [texts[0]] if texts else [], "none": []}[kind]
        if fmtn in (1, 2) and outs and not (kind != "stdin" and fmtn == 3):
            rep_src = r["after"].get(outfile) if (outfile and out_ok) else (r["out"] if not outfile else None)
            if outfile and out_ok and r["out"].strip():
                bad.append("report requested into a file but something was printed on stdout")
        if rep_src is not None:
            try:
                doc = json.loads(rep_src.decode("utf-8"))
                if fmtn == 1:
                    got = [e["file"] for e in doc.get("errors", [])]
                    rep_valid = bool(doc["results"]["valid"])
                    if (doc["status"] == "failure") != (not rep_valid):
                        bad.append("JSON report: status and results.valid disagree")
                    if doc["results"]["invalid_files"] != len(got) or doc["results"]["total_files"] != len(outs):
                        bad.append("JSON report: counters do not match errors[] / the number of inputs")
                else:
                    if doc.get("version") != "2.1.0" or not isinstance(doc.get("runs"), list) or len(doc["runs"]) != 1:
                        raise ValueError("not a SARIF 2.1.0 document with one run")
                    rules = {x["id"] for x in doc["runs"][0]["tool"]["driver"]["rules"]}
                    got = []
                    for res in doc["runs"][0]["results"]:
                        if res["ruleId"] not in rules or res.get("level") not in ("error", "warning", "note"):
                            bad.append("SARIF result with unknown rule or level")
                        got.append(res["locations"][0]["physicalLocation"]["artifactLocation"]["uri"])
                    rep_valid = not got
                idx = []
                for g in got:
                    m = [i for i, n in enumerate(names) if n == g or n.replace("\\", "/") == g]
                    if not m and r.get("names"):
                        # the inputs were given under other spellings of their paths: the report names an input when
                        # its entry resolves, from the working directory, to that input's file
                        def res(x):
                            x = x[7:] if x.startswith("file://") else x
                            return os.path.normpath(os.path.join(r["cwd"], x))
                        m = [i for i, n in enumerate(r["names"]) if res(n) == res(g)]
                    idx.append(m[0] if m else 999)
                rep = sorted(idx)
                if len(set(idx)) != len(idx):
                    bad.append("report names an input twice")
            except Exception as e:      # malformed report
                bad.append("machine-readable report is not well-formed: %s" % str(e)[:120])
                rep = [998]
        # oracle: exit status vs library
        well_formed = fmtn != 3 and out_ok and outs
        if well_formed:
            verdicts = [lib_accepts(lib, t.strip() if kind == "inline" else t, strict) for t in texts]
            if None not in verdicts:
                if (rc == 0) != all(verdicts):
                    bad.append("exit status %d but library accepts=%s" % (rc, verdicts))
                if rep is not None and rep != [i for i, v in enumerate(verdicts) if not v]:
                    bad.append("report names inputs %s, the library rejects %s" % (rep, [i for i, v in enumerate(verdicts) if not v]))
        if writes or (extra and extra != [outfile]):
            bad.append("validate modified or created files: %s %s" % (writes, extra))
        case = "CValidate (mkV %d %s) %s %d %s %s" % (
            fmtn, cq_bool(out_ok), cq_input(kind, ["VValid" if o else "VInvalid" for o in outs], refused), rc,
            "None" if rep is None else "(Some [%s])" % "; ".join("%d%%nat" % i for i in rep), cq_bool(rep_valid if fmtn == 1 else not any(not o for o in outs)))
        return case, bad

    if cmd == "format":
        o = fmt_opts(fl)
        output = fl.get("output")
        out_ok = not (output and output.startswith("nodir/"))
        inplace, check = bool(fl.get("inplace")), bool(fl.get("check"))
        def outcome(t, wok):
            if t is None:
                return None
            if t == "" and kind == "files":
                return ("", "", wok)
            f = lib.get(t, o)
            return (t, f["fmt"], wok) if f["fmt_ok"] else None
        if kind == "files":
            outs = [outcome(t, (sc.get("fsize") is None) if inplace else out_ok) for t in texts]
        elif kind in ("stdin", "inline") and not refused:
            outs = [outcome(texts[0], out_ok)]
        else:
            outs = []
        items = ["FFail" if x is None else "(FOk %s %s %s)" % (cq_b(x[0]), cq_b(x[1]), cq_bool(x[2])) for x in outs]
        stdout = None if (check and kind == "files") or fl.get("verbose") else r["out"]
        outf = r["after"].get(output) if output else None
        # oracle
        if check and (writes or extra):
            bad.append("--check modified or created files: %s %s" % ([i for i, _ in writes], extra))
        if not inplace and writes:
            bad.append("input files were modified without -i: %s" % [i for i, _ in writes])
        for i, b in writes:
            f = outs[i]
            if f is None:
                bad.append("file %d was rewritten although its processing failed" % i)
            elif b != f[1].encode():
                bad.append("file %d was rewritten with something else than the formatted text" % i)
        if outs and out_ok and sc.get("fsize") is None and not (kind == "stdin" and inplace):
            good = all(x is not None and (not check or x[0] == x[1]) for x in outs)
            if (rc == 0) != good:
                bad.append("exit status %d but formatting ok=%s, needs formatting=%s" % (rc, [x is not None for x in outs], [x is not None and x[0] != x[1] for x in outs]))
        case = "CFormat (mkF %s %s %s) %s %s" % (cq_bool(inplace), cq_bool(check), cq_bool(bool(output)), cq_input(kind, items, refused),
                                              cq_observed(rc, stdout, writes, outf))
        return case, bad

    if cmd == "lint":
        o = dict(max_length=fl.get("max_length", 100))
        fix, failwarn = bool(fl.get("fix")), bool(fl.get("failwarn"))
        def outcome(t):
            if t is None:
                return None
            f = lib.get(t, o)
            return (t, [v["severity"] for v in f["violations"]], f["fixed"])
        outs = [] if (kind == "none" or refused) else [outcome(t) for t in texts]
        sevmap = {"error": "SErr", "warning": "SWarn", "info": "SInfo"}
        items = ["LReadErr" if x is None else "(LOk %s [%s] %s true)" % (cq_b(x[0]), "; ".join(sevmap[s] for s in x[1]), cq_b(x[2])) for x in outs]
        if not fix and (writes or extra):
            bad.append("lint without --auto-fix modified or created files")
        for i, b in writes:
            f = outs[i]
            if f is None or not f[1] or b != f[2].encode():
                bad.append("file %d was rewritten with something else than the auto-fixed text of a file with findings" % i)
        if outs:
            sevs = [s for x in outs if x is not None for s in x[1]]
            good = all(x is not None for x in outs) and "error" not in sevs and not (failwarn and "warning" in sevs)
            if (rc == 0) != good:
                bad.append("exit status %d but read errors=%s severities=%s fail-on-warn=%s" % (rc, [x is None for x in outs], sorted(set(sevs)), failwarn))
        case = "CLint (mkL %s %s) %s %s" % (cq_bool(fix), cq_bool(failwarn), cq_input(kind, items, refused), cq_observed(rc, None, writes, None))
        return case, bad

    if cmd == "parse":
        tokens = bool(fl.get("tokens"))
        def outcome(t, is_file):
            if t is None or (is_file and t == ""):
                return False
            f = lib.get(t)
            return f["tokenize_ok"] if tokens else f["pipeline_ok"]
        if kind == "files":
            outs = [outcome(t, True) for t in texts]
        elif kind == "inline":
            outs = [looks_like_sql(texts[0]) and outcome(texts[0].strip(), False)]
        elif kind == "stdin" and not refused:
            outs = [outcome(texts[0], False)]
        else:
            outs = []
        if writes or extra:
            bad.append("parse modified or created files")
        if rc == 0 and fl.get("fmt") == "json":
            try:
                json.loads(r["out"].decode("utf-8"))
            except Exception as e:
                bad.append("parse -f json printed something that is not JSON: %s" % str(e)[:100])
        if len(outs) == 1 and not tokens:
            t = texts[0].strip() if kind == "inline" else texts[0]
            v = lib_accepts(lib, t, False)
            if kind == "inline" and not looks_like_sql(texts[0]):
                v = None
            if v is not None and (rc == 0) != v:
                bad.append("exit status %d but library accepts=%s" % (rc, v))
        case = "CParse %s %d" % (cq_input(kind, ["PAccept" if x else "PReject" for x in outs], refused), rc)
        return case, bad
    raise ValueError(cmd)


def run_cli_tty(binp, args, cwd, fsize=None, timeout=60):
    """runs the binary with a terminal on stdin (a pty), so that 'no piped input' paths are taken"""
    import pty
    master, slave = pty.openpty()
    try:
        argv = [binp] + args if fsize is None else _limit_wrapper(binp, args, fsize)
        p = subprocess.run(argv, cwd=cwd, env=CLEAN_ENV, timeout=timeout, stdin=slave, stdout=subprocess.PIPE, stderr=subprocess.PIPE)
    finally:
        os.close(master)
        os.close(slave)
    return p.returncode, p.stdout, p.stderr


def build_scenarios(tier, rng):
    S = []
    def add(cmd, kind, texts, **flags):
        fsize = flags.pop("fsize", None)
        sc = dict(cmd=cmd, kind=kind, texts=list(texts), flags=flags)
        if fsize is not None:
            sc["fsize"] = fsize
        S.append(sc)
    V, I, E, L = VALID, INVALID, EDGE, LINTY
    sets = [[V[0]], [I[0]], [E[0]], [V[0], V[1]], [V[0], I[0]], [I[0], V[0], E[0]], [V[1], I[1], V[2], I[2]], [E[1]], [E[2]], [E[3]],
            [MISSING], [V[0], MISSING], [V[4]], [I[3], V[3]], [E[0], E[0]], [E[4]]]
    if tier != "quick":
        import sqlgen
        pool = V + I + E + L + [s + "\n" for s in sqlgen.corpus_statements()[:60] if len(s) < 300] + [s for s in sqlgen.SPECIAL if len(s) < 300][:40]
        for _ in range(120):
            sets.append([rng.choice(pool) for _ in range(rng.randint(1, 4))])
    # validate
    for fs in sets:
        for fmt in (None, "json", "sarif"):
            for strict in (False, True):
                add("validate", "files", fs, fmt=fmt, strict=strict)
    for mode in range(5):
        for fmt in ("sarif", "json"):
            add("validate", "files", [I[0], V[0], I[1], V[1], I[2]], fmt=fmt, spell=mode)
    # characters that are special to the output routines (printf verbs, JSON escapes) in the rejected text, whose source
    # line the error message quotes, and in inline SQL (which the reports name as the input)
    PCT = ["select id from t where name like '50%\n", "select 100 %d %s %v from\n", "select a from t where b like 'x%'\n", "select \"q%x\" from where\n",
           "select 'back\\slash' from where\n", "select 'tab\there' from where\n"]
    for fmt in ("json", "sarif", None):
        add("validate", "files", [PCT[0], PCT[2], PCT[1]], fmt=fmt)
        add("validate", "files", [PCT[3], PCT[4], PCT[5]], fmt=fmt)
        for t in PCT:
            add("validate", "inline", [t.strip()], fmt=fmt)
            add("validate", "stdin", [t], fmt=fmt)
    # piped input beyond the documented stdin limit is refused, never judged by a prefix of it (the prefix here is valid SQL)
    big = "SELECT 1" + " " * STDIN_MAX + "\n"
    for cmdn in ("validate", "format", "lint", "parse"):
        add(cmdn, "stdin", [big])
    # machine-readable reports stay well-formed whatever else is asked for (statistics)
    for fmt in ("json", "sarif"):
        add("validate", "files", [I[0], V[0]], fmt=fmt, stats=True)
        add("validate", "stdin", [I[1]], fmt=fmt, stats=True)
    add("validate", "files", sets[4], fmt="xml")
    add("validate", "files", sets[4], fmt="json", outfile="rep.json")
    add("validate", "files", sets[4], fmt="sarif", outfile="rep.sarif")
    add("validate", "files", sets[4], fmt="json", outfile="nodir/rep.json")
    add("validate", "files", sets[4], quiet=True)
    add("validate", "files", sets[3], fmt=None, outfile="rep.txt")
    for t in V[:2] + I[:2] + E + ["\0binary"]:
        for fmt in (None, "json", "sarif", "xml"):
            for strict in (False, True):
                add("validate", "stdin", [t], fmt=fmt, strict=strict)
    for t in INLINE:
        for fmt in (None, "json", "sarif", "xml"):
            for strict in (False, True):
                add("validate", "inline", [t], fmt=fmt, strict=strict)
    add("validate", "none", [])
    if tier != "quick":
        for t in rng.sample(pool, 60):
            add("validate", "stdin", [t], fmt=rng.choice([None, "json", "sarif"]), strict=rng.random() < 0.5)
            add("format", "stdin", [t], **rng.choice([dict(), dict(check=True), dict(compact=True), dict(no_uppercase=True, check=True)]))
            add("lint", "stdin", [t], **rng.choice([dict(), dict(fix=True), dict(failwarn=True)]))
            add("parse", "stdin", [t], **rng.choice([dict(), dict(fmt="json"), dict(tokens=True)]))
            if looks_like_sql(t) and len(t) < 200 and "\0" not in t:
                add("validate", "inline", [t], fmt=rng.choice([None, "json", "sarif"]), strict=rng.random() < 0.5)
                add("format", "inline", [t], **rng.choice([dict(), dict(check=True), dict(compact=True)]))
                add("parse", "inline", [t], **rng.choice([dict(), dict(fmt="json")]))
    # format
    fsets = sets + [[lib_fixed] for lib_fixed in ["SELECT\n1", "SELECT\n1\n"]]
    # other line-end conventions (CRLF, lone CR, mixed): what is printed, what -i writes and what --check says must agree
    fsets += [["select a,b\r\nfrom t\r\nwhere x=1\r\n"], ["SELECT a\r\nFROM t\r\n"], ["SELECT\r\n  a\r\nFROM\r\n  t\r\n", "select 1\r\n"],
              ["select a\rfrom t\r"], ["select a\r\nfrom t\nwhere b = 1\r\n"]]
    fflags = [dict(), dict(inplace=True), dict(check=True), dict(inplace=True, check=True), dict(output="out.sql"),
              dict(compact=True), dict(no_uppercase=True), dict(indent=4), dict(compact=True, inplace=True), dict(compact=True, check=True),
              dict(no_uppercase=True, inplace=True), dict(no_uppercase=True, check=True), dict(check=True, output="out.sql"),
              dict(output="nodir/out.sql"), dict(indent=4, check=True), dict(uppercase_flag=True, compact=True)]
    for fs in fsets:
        for fl in (fflags if tier != "quick" or len(fs) <= 2 else fflags[:5]):
            add("format", "files", fs, **fl)
    add("format", "files", [V[0]], inplace=True, fsize=5)
    add("format", "files", [V[0], V[3]], inplace=True, fsize=0)
    for t in V[:3] + I[:2] + E + ["SELECT\n1", "\0x"]:
        for fl in (dict(), dict(check=True), dict(inplace=True), dict(output="out.sql"), dict(compact=True), dict(compact=True, check=True), dict(no_uppercase=True)):
            add("format", "stdin", [t], **fl)
    for t in INLINE:
        for fl in (dict(), dict(check=True), dict(inplace=True), dict(output="out.sql"), dict(compact=True, check=True), dict(indent=4)):
            add("format", "inline", [t], **fl)
    add("format", "none", [])
    # lint
    lsets = [[L[0]], [L[1]], [L[2]], [L[3]], [V[4]], [L[0], V[4], L[1]], [MISSING], [L[0], MISSING], [E[0]], [V[0], I[0]], [E[1]],
             # the file with the failing finding in every position (first, middle, last) among clean ones
             [L[1], V[4]], [V[4], L[1]], [L[1], V[4], V[4]], [V[4], L[1], V[4]], [L[0], V[4]], [L[2], V[4], V[4]], [L[1], L[0], V[4]]]
    if tier != "quick":
        lsets += [s for s in sets[16:76]]
    for fs in lsets:
        for fl in (dict(), dict(fix=True), dict(failwarn=True), dict(fix=True, failwarn=True), dict(max_length=30), dict(max_length=30, fix=True)):
            add("lint", "files", fs, **fl)
    for t in L + [V[4], E[0]]:
        for fl in (dict(), dict(fix=True), dict(failwarn=True)):
            add("lint", "stdin", [t], **fl)
    for t in INLINE:
        for fl in (dict(), dict(fix=True), dict(failwarn=True)):
            add("lint", "inline", [t], **fl)
    add("lint", "none", [])
    # parse
    for t in V + I + E + [MISSING]:
        for fl in (dict(), dict(fmt="json"), dict(tokens=True), dict(tree=True), dict(fmt="yaml"), dict(tokens=True, fmt="json")):
            add("parse", "files", [t], **fl)
    add("parse", "files", [V[0], V[1]])
    for t in V[:2] + I[:2] + E + ["-- c\nselect 1\n", "f0.sql", "values (1)\n"]:
        for fl in (dict(), dict(fmt="json"), dict(tokens=True)):
            add("parse", "stdin", [t], **fl)
    for t in INLINE:
        for fl in (dict(), dict(fmt="json"), dict(tokens=True)):
            add("parse", "inline", [t], **fl)
    add("parse", "none", [])
    return S


def sc_name(sc):
    return "%s %s %s %s" % (sc["cmd"], " ".join(scenario_argv(sc)[1:])[:80], sc["kind"], [None if t is None else t[:24] for t in sc["texts"]])


def verdict_matrix(rp, binp, scr, tier, rng):
    scenarios = build_scenarios(tier, rng)
    lib = Lib()
    for sc in scenarios:
        o = fmt_opts(sc["flags"]) if sc["cmd"] == "format" else dict(max_length=sc["flags"].get("max_length", 100)) if sc["cmd"] == "lint" else None
        for t in sc["texts"]:
            lib.need(t, o)
            lib.need(t, None)
    lib.fetch()
    with concurrent.futures.ThreadPoolExecutor(max_workers=8) as ex:
        results = list(ex.map(lambda sc: run_scenario(binp, scr, sc), scenarios))
    cases, failures = [], []
    for sc, r in zip(scenarios, results):
        case, bad = judge(sc, r, lib)
        cases.append(case)
        if bad:
            failures.append((sc, r, bad))
    # the model, evaluated by Coq on the same runs
    mism = []
    okc = True
    for base in range(0, len(cases), 300):
        sh = cases[base:base + 300]
        body = ("From Coq Require Import List NArith.\nFrom GV Require Import Model.FileRepl Model.Cli.\nImport ListNotations.\nOpen Scope N_scope.\n"
                "Definition cases : list cli_case := [\n" + ";\n".join(sh) + "].\n"
                "Definition bad := Eval vm_compute in bad_idx cli_case_ok 0 cases.\nPrint bad.\n")
        ok1, outc, errc = common.coq_cases("c19_cli_cases_%d" % (base // 300), body)
        if not ok1:
            okc = False
            rp.violation({"kind": "correspondence", "broken": "Cli model cases do not compile", "detail": errc[-2000:]}, "cli_cases_coq", no_input=True)
            break
        mism += [base + i for i in common.parse_nlist(outc)]
    return scenarios, results, failures, mism, okc


def known_match(sc=None, writer=None):
    """a 'known' (unrepaired) finding whose narrow signature matches this failure, or None.
    verdict failures: signature {kind: input_shape, command, flag (a flag that must be on the command line, '' = any),
    input_kind (optional)}; crash failures: signature {kind: call_site, writer}"""
    for k in common.known_findings("C19"):
        if k.get("status") != "known":
            continue
        sg = k.get("signature", {})
        if sc is not None and sg.get("kind") == "input_shape" and sg.get("command") == sc["cmd"]:
            argv = scenario_argv(sc)
            if (not sg.get("flag") or any(f in argv for f in sg["flag"].split())) and sg.get("input_kind", sc["kind"]) == sc["kind"]:
                return k
        if writer is not None and sg.get("kind") == "call_site" and sg.get("writer") == writer:
            return k
    return None


def report_matrix(rp, scenarios, results, failures, mism, okc):
    failing_idx = {id(sc) for sc, _, _ in failures}
    known = [(sc, r, bad, known_match(sc=sc)) for sc, r, bad in failures]
    for key in sorted({k["key"] for _, _, _, k in known if k}):
        rp.known(key, [k["what"] for _, _, _, k in known if k and k["key"] == key][0])
    failures = [(sc, r, bad) for sc, r, bad, k in known if not k]
    rp.obligation("oracle: exit status / writes / reports of the real binary agree with the library verdicts on %d runs" % len(scenarios), not failures)
    rp.obligation("correspondence: Coq verdict model = real binary (status, files written, stdout, report) on %d runs" % len(scenarios), okc and not mism)
    seen = set()
    # one replay per (command, input kind, kind of failure): the smallest failing scenario (fewest inputs, fewest flags, shortest texts)
    failures = sorted(failures, key=lambda f: (len(f[0]["texts"]), sum(1 for v in f[0]["flags"].values() if v), sum(len(t or "") for t in f[0]["texts"])))
    for sc, r, bad in failures:
        sig = (sc["cmd"], sc["kind"], re.sub(r"[\d\[\]]+.*$", "", bad[0])[:40])
        if sig in seen:
            continue
        seen.add(sig)
        rp.violation({"kind": "verdict", "property": "C19", "scenario": sc, "argv": scenario_argv(sc), "exit": r["rc"],
                      "stdout": r["out"][-1500:].decode("utf-8", "replace"), "stderr": r["err"][-600:].decode("utf-8", "replace"),
                      "failed": bad, "replay_cmd": "bin/check C19 --replay <this file>"},
                     "verdict_%s_%s_%d" % (sc["cmd"], sc["kind"], len(rp.violations)))
    only_model = [i for i in mism if id(scenarios[i]) not in failing_idx]
    for i in only_model[:5]:
        sc, r = scenarios[i], results[i]
        rp.violation({"kind": "correspondence", "property": "C19", "broken": "Model/Cli.v does not predict the binary's behaviour on this run; the implementation-side oracle found no property violation on it",
                      "scenario": sc, "argv": scenario_argv(sc), "exit": r["rc"], "stdout": r["out"][-800:].decode("utf-8", "replace"),
                      "files_after": {k: v.decode("utf-8", "replace")[:200] for k, v in r["after"].items()}},
                     "cli_model_mismatch_%d" % i, no_input=True)


def run(tier):
    rp = Report("C19", tier)
    rng = random.Random(common.seed())
    try:
        with common.Lock():
            binp = stage_cli()
            common.stage_harness()
    except common.StageError as e:
        return common.stage_fail(rp, e)
    with Scratch() as sc:
        r1 = file_replacement(rp, binp, sc, tier)
        if r1 is None:
            return rp.finish()
        try:
            scenarios, results, failures, mism, okc = verdict_matrix(rp, binp, sc, tier, rng)
        except common.StageError as e:
            return common.stage_fail(rp, e)
    report_matrix(rp, scenarios, results, failures, mism, okc)
    replay_known(rp, binp)
    ev, nt, samples = r1
    kinds = {}
    for s_ in scenarios:
        k = (s_["cmd"], s_["kind"])
        kinds[k] = kinds.get(k, 0) + 1
    nontrivial = {(s_["cmd"], s_["kind"], tuple(sorted(k for k, v in s_["flags"].items() if v)), tuple(s_["texts"]))
                  for s_ in scenarios if s_["kind"] != "none" and (len(s_["texts"]) > 1 or any(s_["flags"].values()))}
    rp.cov["evaluations"] = ev + len(scenarios)
    rp.cov["distinct_nontrivial"] = nt + len(nontrivial)
    rp.cov["matrix_runs"] = len(scenarios)
    rp.cov["matrix_distribution"] = {"%s/%s" % k: v for k, v in sorted(kinds.items())}
    rp.cov["matrix_exit_nonzero"] = sum(1 for r in results if r["rc"] != 0)
    rp.cov["matrix_runs_with_file_rewritten"] = sum(1 for r in results if any(r["after"].get(k) != v for k, v in r["before"].items()))
    rp.cov["rule"] = ("crash run = one execution of an in-place command (format -i / lint --auto-fix) on a file it rewrites, with a write failure injected "
                      "(RLIMIT_FSIZE=k, every k in 0..|output|+1) or SIGKILL delivered on entry of a system call (every call of the run; for cut writes the calls of the failing run); "
                      "non-trivial = the write is cut strictly inside the output (0<k<|output|) or the process was killed at a distinct point of the protocol. "
                      "matrix run = one execution of validate/format/lint/parse on a file set / stdin / inline SQL with a flag combination; "
                      "non-trivial = has an input and (several inputs or at least one flag); distinct = distinct (command, input kind, flags, texts)")
    rp.cov["samples"] = samples + [dict(argv=scenario_argv(s_), kind=s_["kind"], exit=r["rc"]) for s_, r in list(zip(scenarios, results))[5:8]]
    rp.assumptions = ["strace reports every system call that changes a file in the scratch directory (unmodelled families are flagged)",
                      "RLIMIT_FSIZE injects the write failure: the kernel cuts the write at the limit, the next write fails with EFBIG (SIGXFSZ ignored)",
                      "durability across power loss is outside the model (Fsync is a no-op on the visible state)",
                      "library verdicts come from the Go harness (gosqlx.Validate / parser.Validate / tokenizer+parser pipeline with and without strict mode, "
                      "cmd.NewSQLFormatter, the linter with the rule set of `gosqlx lint`); inputs on which the library's own entry points disagree are "
                      "excluded from the accept/reject comparison (property C07) but still compared with the model"]
    return rp.finish()


INST_LEMMAS = ["Inst_C19.fmt_ok_atomic", "Inst_C19.lint_ok_atomic", "Inst_C19.fmt_fail_untouched", "Inst_C19.lint_fail_untouched"]
PROP_THEOREMS = ["Props.C19.C19_replace_atomic", "Props.C19.C19_replace_success", "Props.C19.C19_replace_write_failure",
                 "Props.C19.C19_shape_atomic", "Props.C19.C19_untouched_keeps",
                 "Props.C19.C19_writefile_crash_prefix", "Props.C19.C19_writefile_refuted", "Props.C19.C19_trunc_shape_loses_old",
                 "Props.C19.C19_observed_format_atomic", "Props.C19.C19_observed_lint_atomic",
                 "Props.C19.C19_observed_failures_keep_old",
                 "Props.C19.C19_exit_validate_zero_accepts", "Props.C19.C19_exit_validate_zero_iff", "Props.C19.C19_report_names_exactly_failing",
                 "Props.C19.C19_report_exists_iff", "Props.C19.C19_report_valid_iff_exit", "Props.C19.C19_exit_format_zero_iff",
                 "Props.C19.C19_exit_format_zero_iff_one", "Props.C19.C19_check_never_writes", "Props.C19.C19_format_only_on_success",
                 "Props.C19.C19_format_triangle", "Props.C19.C19_format_triangle_one", "Props.C19.C19_exit_lint_zero_iff",
                 "Props.C19.C19_lint_no_fix_never_writes", "Props.C19.C19_lint_only_on_success", "Props.C19.C19_exit_parse_zero_iff"]


def replay_witness(binp, w):
    """-> list of failure strings (empty: the witness passes on the current tree)"""
    if w.get("kind") == "crash":
        with Scratch() as sc:
            old, new = w["old"].encode("latin1"), w["new"].encode("latin1")
            r = kill_run(binp, sc, w["args"], old, tuple(w["kill"]), w.get("k")) if w.get("inj") == "kill" else crash_run(binp, sc, w["args"], old, w["k"])
        return [] if r["cur"] in (old, new) else ["file on disk is neither old nor new: %r" % r["cur"]]
    sc = w["scenario"]
    lib = Lib()
    o = fmt_opts(sc["flags"]) if sc["cmd"] == "format" else dict(max_length=sc["flags"].get("max_length", 100)) if sc["cmd"] == "lint" else None
    for t in sc["texts"]:
        lib.need(t, o)
        lib.need(t, None)
    lib.fetch()
    with Scratch() as scr:
        r = run_scenario(binp, scr, sc)
    return judge(sc, r, lib)[1]


def replay_known(rp, binp):
    """witnesses of the recorded findings: a fixed one must pass (else the defect is back), a known one should still fail"""
    for k in common.known_findings("C19"):
        ws = k["witness"] if isinstance(k.get("witness"), list) else [k["witness"]]
        fails = [(w, f) for w in ws for f in [replay_witness(binp, w)] if f]
        if k["status"] == "fixed":
            rp.obligation("fixed finding stays fixed: %s (%s)" % (k["key"], k.get("commit")), not fails)
            for w, f in fails[:1]:
                rp.violation(dict(w, property="C19", regression_of=k["key"], commit=k.get("commit"), failed=f,
                                  explanation="the witness of a repaired defect fails again: " + k["what"]),
                             "regression_%s" % k["key"])
        else:
            if fails:
                rp.known(k["key"], k["what"])
            else:
                rp.cov["notes"].append("stale known finding (witness passes now): %s" % k["key"])


def replay(path):
    d = json.load(open(path))
    if d.get("kind") == "crash":
        binp = stage_cli()
        with Scratch() as sc:
            old, new = d["old"].encode("latin1"), d["new"].encode("latin1")
            if d.get("inj") == "kill":
                r = kill_run(binp, sc, d["args"], old, tuple(d["kill"]), d.get("k"))
            else:
                r = crash_run(binp, sc, d["args"], old, d["k"])
        state = "old" if r["cur"] == old else "new" if r["cur"] == new else "neither"
        print(json.dumps({"k": d["k"], "inj": d.get("inj"), "exit": r["rc"], "on_disk": state,
                          "content": None if r["cur"] is None else r["cur"].decode("latin1")}))
        return 0 if state != "neither" else 1
    if d.get("kind") in ("verdict", "correspondence") and d.get("scenario"):
        binp = stage_cli()
        sc = d["scenario"]
        lib = Lib()
        o = fmt_opts(sc["flags"]) if sc["cmd"] == "format" else dict(max_length=sc["flags"].get("max_length", 100)) if sc["cmd"] == "lint" else None
        for t in sc["texts"]:
            lib.need(t, o)
            lib.need(t, None)
        lib.fetch()
        with Scratch() as scr:
            r = run_scenario(binp, scr, sc)
        case, bad = judge(sc, r, lib)
        print(json.dumps({"argv": scenario_argv(sc), "exit": r["rc"], "failed": bad}))
        return 1 if bad else 0
    return 2
