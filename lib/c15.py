"""C15 — extracted tables, columns and functions are exactly those referenced."""
import json, os, random, time
import common, gen, sqlgen, qast, qgen
from common import Report, log

MANIFEST = dict(
    technique='Coq proof over a faithful model of pkg/gosqlx/extract.go on query trees traversed with the regenerated Children() table (instance lemma by vm_compute) + reference-grammar specification (what a generator wrote) + model-vs-implementation correspondence on reflected real trees + generator-knowledge oracle',
    text='Theorems C15_tables_exact / columns_exact / functions_exact / *_qualified_exact / no_alias_no_synthetic are proved for EVERY statement of the reference grammar (any nesting and ANY DEPTH - structural induction, no bound - of sub-queries, CTEs, set operations, joins, DML targets, MERGE, and the statements that carry a query or an expression without being queries: CREATE [OR REPLACE] VIEW / MATERIALIZED VIEW ... AS query, CREATE INDEX ... WHERE, CREATE TABLE with DEFAULT / CHECK, EXPLAIN query; the names such a statement defines or designates are not positions), C15_dedup and C15_collect_visits_linear for every tree; the model is tied to the code on every run by (i) the Children() table regenerated for C14 (every slot a prescribed tree uses must be returned), (ii) evaluation of the model on the reflective dump of real parsed trees against the real ExtractX output, (iii) prescribed tree = real parsed tree for generated statements, (iv) both correspondences also on flat operator chains of 160 (quick) / 400 (thorough) operands (OR, AND, +, ||, UNION ALL; distinct names in the first operands, every layout), which are trees as deep as they are long. C15_explain_query_dropped_refuted records the defect the extended grammar exposed (EXPLAIN query: the parser dropped the query; repaired in /repo c61589e). An implementation-side oracle checks exact set equality against what the generator placed (every table position incl. grafted UPDATE..FROM / DELETE..USING / MERGE sub-query sources, depth <= 4, decoys, duplicates, layouts), duplicate-freeness, ExtractMetadata agreement, tree immutability and a per-call time budget.',
    note=common.BASE_NOTE + "C15: the reference grammar is a subset of SQL (listed in design/C15.md); statements outside it are covered by the correspondence only. Names a DDL statement defines or designates (view / index / table name, view column list, index keys and indexed table, column definitions) are not table / column positions (decision, design/C15.md). CTE names referenced in FROM count as written table positions (prescribed). Unicode case mapping of names is not modelled.",
    design='6/C15')

BUDGET_NS = 400_000_000     # per extraction call; the repaired collectors need microseconds
THEOREMS = ["Props.C15.C15_tables_exact", "Props.C15.C15_columns_exact", "Props.C15.C15_functions_exact",
            "Props.C15.C15_tables_qualified_exact", "Props.C15.C15_columns_qualified_exact",
            "Props.C15.C15_no_alias_no_synthetic", "Props.C15.C15_dedup", "Props.C15.C15_collect_visits_linear",
            "Props.C15.C15_traversal_complete", "Props.C15.C15_collect_visits_exponential_refuted",
            "Props.C15.C15_explain_query_dropped_refuted"]

# keyword decoys the reference grammar does not contain (niladic keyword functions): oracle only
KEYWORD_DECOYS = [
    ("SELECT CURRENT_DATE FROM t1", "CURRENT_DATE"),
    ("SELECT CURRENT_TIMESTAMP FROM t1", "CURRENT_TIMESTAMP"),
    ("SELECT a FROM t1 WHERE b < CURRENT_TIME", "CURRENT_TIME"),
    ("SELECT DEFAULT FROM t1", "DEFAULT"),
]

PREAMBLE = ("From Coq Require Import List String NArith Bool.\n"
            "From GV Require Import Model.Walk Model.QAst Model.Extract Model.QRef Model.QCase Gen.ChildrenTable Gen.QSlots.\n"
            "Import ListNotations.\nLocal Open Scope string_scope.\nLocal Open Scope list_scope.\n")


def qname_term(q):
    return "(mkQ %s %s %s)" % tuple(qast.cstr(x) for x in q)


def xcase_term(r, tb, unknown):
    trees = qast.clist([qast.qn_term(t, tb, unknown) for t in r["tree"]])
    sl = lambda l: qast.clist([qast.cstr(x) for x in l])
    return "(mkX %s %s %s %s %s %s)" % (trees, sl(r["tables"]), sl(r["columns"]), sl(r["functions"]),
                                        qast.clist([qname_term(q) for q in r["qtables"]]),
                                        qast.clist([qname_term(q) for q in r["qcolumns"]]))


def rcase_term(stmt, r, tb, unknown):
    w = qgen.written(stmt)
    sl = lambda l: qast.clist([qast.cstr(x) for x in l])
    pairs = qast.clist(["(%s, %s)" % (qast.cstr(a), qast.cstr(b)) for a, b in w["qcolumns"]])
    return "(mkR %s (%s) %s %s %s)" % (qgen.coq_stmt(stmt), qast.qn_term(r["tree"][0], tb, unknown),
                                       sl(w["tables"]), pairs, sl(w["functions"]))


def oracle(r, want):
    """implementation-side check of one result against what the generator wrote; returns list of failures"""
    bad = []
    if r.get("panic"):
        return ["panic"]
    if r.get("timed_out"):
        return ["time:>%dms (the extraction calls did not return; abandoned)" % (r["max_ns"] // 1_000_000)]
    got_qc = sorted({(q[1], q[2]) for q in r["qcolumns"]})
    if any(q[0] for q in r["qcolumns"]):
        bad.append("qcolumns:schema-set")
    def diff(name, got, exp):
        got, exp = list(got), list(exp)
        if sorted(got) != sorted(exp):
            extra = sorted(set(map(str, got)) - set(map(str, exp)))
            missing = sorted(set(map(str, exp)) - set(map(str, got)))
            bad.append("%s:extra=%s:missing=%s" % (name, extra, missing))
    diff("tables", r["tables"], want["tables"])
    diff("columns", r["columns"], want["columns"])
    # names that MAY be reported as functions (a niladic keyword function is a function call if the parser says so)
    opt = set(want.get("functions_optional") or [])
    diff("functions", [f for f in r["functions"] if f not in opt or f in want["functions"]], want["functions"])
    diff("qcolumns", got_qc, [tuple(x) for x in want["qcolumns"]])
    # qualified tables: the written name split at its dots
    def split(n):
        p = n.split(".")
        return {1: ("", "", p[0]), 2: (p[0], "", p[-1]), 3: tuple(p)}.get(len(p), ("", "", n))
    diff("qtables", [tuple(q) for q in r["qtables"]], [split(n) for n in want["tables"]])
    for d in r.get("dups") or []:
        bad.append("duplicate:" + d)
    for d in r.get("metadiff") or []:
        bad.append("metadata:" + d)
    if not r.get("tree_same", True):
        bad.append("tree-modified")
    if r.get("max_ns", 0) > BUDGET_NS:
        bad.append("time:%dms" % (r["max_ns"] // 1_000_000))
    return bad


def signature_of(fail, inp):
    """narrow class of an oracle failure, matched against known_findings.d/C15.json"""
    if fail.startswith("time"):
        return {"kind": "cost", "analysis": "extract"}
    name = fail.split(":")[0]
    shape = inp.get("shape", "")
    if shape.startswith("niladic_keyword:") and name in ("columns", "qcolumns"):
        kw = shape.split(":")[1]
        # only "the keyword itself is reported as a column, nothing else wrong"
        if fail in ("columns:extra=['%s']:missing=[]" % kw, "qcolumns:extra=[\"('', '%s')\"]:missing=[]" % kw):
            return {"kind": "input_shape", "analysis": "columns", "shape": "niladic_keyword"}
    return {"kind": "context", "analysis": name, "shape": shape}


def probe_niladic(rp):
    """does the parser build a bare FunctionCall for CURRENT_DATE?  Then the reference grammar's MNiladic
    (prescribed as exactly that, Model/QRef.ast_niladic) is generated; otherwise it is left to the decoy oracle."""
    pr = run_harness([{"id": 0, "sql": "SELECT CURRENT_DATE FROM t1"}], rp, "probe")
    rep = "rejected"
    if pr and pr[0]["accepted"] and pr[0].get("tree"):
        def find(n):
            if n.get("s", {}).get("Name", "").upper() == "CURRENT_DATE":
                return n
            for k in n.get("k", []):
                f = find(k)
                if f:
                    return f
        n = find(pr[0]["tree"][0])
        rep = (n["t"] + ("" if not n.get("k") else "+children")) if n else "other"
    rp.cov["niladic_keyword_representation"] = rep
    return rep == "FunctionCall"


def run_harness(inputs, rp, tag):
    inp = "".join(json.dumps(i) + "\n" for i in inputs)
    p = common.vh(["extract"], input=inp, timeout=1500)
    res = [json.loads(l) for l in p.stdout.splitlines() if l.strip()]
    if p.returncode != 0 or len(res) != len(inputs):
        rp.violation({"kind": "harness", "detail": p.stderr[-2000:], "got": len(res), "want": len(inputs)},
                     "extract_harness_" + tag, no_input=True)
        return None
    return res


def witness_regressions(rp):
    """replay the witnesses of known_findings.d/C15.json on the implementation: a fixed one must pass"""
    for k in common.known_findings("C15"):
        w = k.get("witness")
        if not w or "sql" not in w:
            continue
        wr = run_harness([dict(w, id=0)], rp, "witness")
        if not wr or not wr[0]["accepted"]:
            continue
        fails = oracle(wr[0], w["want"])
        if k["status"] == "fixed" and fails:
            rp.violation({"kind": "regression", "known_key": k["key"], "input": w, "failure": fails,
                          "explanation": "a defect recorded as fixed is back"}, "regression_" + k["key"])
        if k["status"] == "known" and not fails:
            rp.cov["notes"].append("stale known finding (witness passes now): " + k["key"])


def run(tier):
    rp = Report("C15", tier)
    rng = random.Random(common.seed())
    quick = tier == "quick"
    try:
        with common.Lock():
            tables = common.stage_tables()
            ct, _ = gen.emit_children(tables)
            tb, _ = qast.emit_qslots(ct)
            ok_inst, ok_props, _, logs = common.coq_stage(
                rp, ["theories/Inst/Inst_C15.vo", "theories/Proofs/ExtractP.vo", "theories/Model/QCase.vo"],
                "theories/Props/C15.v", THEOREMS, inst_names=["Inst_C15.em_covers_ok"])
    except common.StageError as e:
        if e.stage == "qslots":         # a modelled node type / field is gone: is a repaired defect back?  (failing input for the report)
            witness_regressions(rp)
        return common.stage_fail(rp, e)
    known = {json.dumps(k["signature"], sort_keys=True): k for k in common.known_findings("C15") if k.get("status") == "known"}

    # ---- inputs ----
    g = qgen.Gen(rng, niladic=probe_niladic(rp))
    lays = qgen.layouts(rng)
    ref = []                    # (stmt, layout index, harness input)
    n_ref = 400 if quick else 2500
    for i in range(n_ref):
        st = g.statement(i % 5)
        for li, L in enumerate(lays):
            d = qgen.harness_input(st, L)
            d["want"] = qgen.written(st)
            d["want"]["qcolumns"] = [list(x) for x in d["want"]["qcolumns"]]
            ref.append((st, li, d))
    cost = [("union_chain", qgen.union_chain(22 if quick else 40)), ("cte_nest", qgen.cte_nest(20 if quick else 30)),
            ("derived_join_nest", qgen.derived_join_nest(20 if quick else 30))]
    for name, st in cost:
        d = qgen.harness_input(st, qgen.PLAIN)
        d["sql"] = d["sql"].replace(" FROM ", "\nFROM ")
        d["want"] = qgen.written(st)
        d["want"]["qcolumns"] = [list(x) for x in d["want"]["qcolumns"]]
        d["shape"] = name
        d["nodump"] = True      # the canonical dumper does not share sub-trees: exponential on the DAG the parser builds
        ref.append((st, 1, d))
    decoys = []
    for sql, kw in KEYWORD_DECOYS:
        decoys.append({"sql": sql, "shape": "niladic_keyword:" + kw,
                       "want": {"tables": ["t1"], "columns": [c for c in ["a", "b"] if (" %s " % c) in sql.replace(",", " ")],
                                "qcolumns": [["", c] for c in ["a", "b"] if (" %s " % c) in sql.replace(",", " ")], "functions": [],
                                "functions_optional": [kw]}})
    # flat operator chains: the parser reads UNION / AND / OR / + / || chains in loops, one tree level per operator, so a
    # chain of k operands is a tree of depth k although nothing is nested in the text (no nesting limit applies): names
    # written in the first operands sit deepest
    kk = 160 if quick else 450
    late = []       # flat chains go LAST: a traversal that re-visits sub-trees never returns on them (harness deadline, the rest is skipped)
    def wide(shape, sql, tables, columns, functions):
        late.append({"sql": sql, "shape": "flat_chain:" + shape, "nodump": True,
                       "want": {"tables": tables, "columns": columns, "qcolumns": [["", c] for c in columns], "functions": functions}})
    wide("union_all", "SELECT k1 FROM s1.t4 UNION ALL SELECT Price FROM s2.t5" + " UNION ALL SELECT a FROM t1" * kk,
         ["s1.t4", "s2.t5", "t1"], ["k1", "Price", "a"], [])
    wide("and", "SELECT a FROM t1 WHERE UPPER(name) = 'x' AND k1 = 1" + " AND a = 1" * kk, ["t1"], ["a", "name", "k1"], ["UPPER"])
    wide("or", "SELECT a FROM t1 WHERE lower(name) = 'x' OR k1 = 1" + " OR a = 1" * kk, ["t1"], ["a", "name", "k1"], ["lower"])
    wide("plus", "SELECT f(id) + amount" + " + a" * kk + " FROM t1", ["t1"], ["id", "amount", "a"], ["f"])
    wide("concat", "SELECT g(name) || c" + " || a" * kk + " FROM t1", ["t1"], ["name", "c", "a"], ["g"])
    # sub-queries in positions that look like "columns only": sort keys (at any depth, inside aggregate calls, WITHIN
    # GROUP), window definitions, LIMIT / OFFSET / FETCH operands — their tables, columns and functions count too
    def sub(shape, sql, tables, columns, functions, qcols=None):
        decoys.append({"sql": sql, "shape": "subquery_in:" + shape, "nodump": True,
                       "want": {"tables": tables, "columns": columns, "qcolumns": qcols if qcols is not None else [["", c] for c in columns], "functions": functions}})
    sub("order_by", "SELECT a FROM t1 ORDER BY (SELECT MIN(b) FROM t2 WHERE t2.k1 = t1.k1)", ["t1", "t2"], ["a", "b", "k1"], ["MIN"],
        [["", "a"], ["", "b"], ["t2", "k1"], ["t1", "k1"]])
    sub("order_by_nested", "SELECT a FROM (SELECT a FROM t1 ORDER BY (SELECT c FROM t3)) zal1", ["t1", "t3"], ["a", "c"], [])
    sub("window_order", "SELECT SUM(a) OVER (PARTITION BY b ORDER BY (SELECT c FROM t2)) FROM t1", ["t1", "t2"], ["a", "b", "c"], ["SUM"])
    sub("window_partition", "SELECT COUNT(a) OVER (PARTITION BY (SELECT id FROM users)) FROM t1", ["t1", "users"], ["a", "id"], ["COUNT"])
    sub("agg_order_by", "SELECT STRING_AGG(name, ',' ORDER BY (SELECT k1 FROM t3)) FROM t1", ["t1", "t3"], ["name", "k1"], ["STRING_AGG"])
    sub("case_in_order", "SELECT a FROM t1 ORDER BY CASE WHEN EXISTS (SELECT 1 FROM orders WHERE id = 1) THEN a ELSE b END", ["t1", "orders"], ["a", "id", "b"], [])
    # an operator of the JSON / cast level applied to its left operand: everything written to the left stays in the tree
    sub("json_cast", "SELECT id FROM orders WHERE amount ->> 'k' :: numeric > 100", ["orders"], ["id", "amount"], [])
    sub("json_cast_func", "SELECT f(name) ->> 'city' :: text FROM users", ["users"], ["name"], ["f"])
    sub("json_cast_subquery", "SELECT (SELECT b FROM t2) -> 'x' :: text FROM t1", ["t1", "t2"], ["b"], [])
    # the same chains as statements of the reference grammar (qgen.flat_chain: distinct names in the first operands),
    # in every layout: oracle here, and below the MODEL correspondences on them (never sampled away, no size limit)
    kc = 160 if quick else 400
    chains = []                 # (kind, stmt, layout index, harness input)
    for kind in qgen.CHAIN_KINDS:
        st = qgen.flat_chain(kind, kc)
        for li, L in enumerate(lays):
            d = qgen.harness_input(st, L)
            if li == 0:
                d["sql"] = d["sql"].replace(" OR ", "\n OR ").replace(" AND ", "\n AND ").replace(" UNION ", "\n UNION ")   # the tokenizer is quadratic in line length
            d["want"] = qgen.written(st)
            d["want"]["qcolumns"] = [list(x) for x in d["want"]["qcolumns"]]
            d["shape"] = "flat_chain_ref:" + kind
            chains.append((kind, st, li, d))
    late += [d for _, _, _, d in chains]
    corpus = sqlgen.corpus_statements() + sqlgen.generated_statements(rng, 300 if quick else 4000) + sqlgen.SPECIAL
    inputs = [d for _, _, d in ref] + decoys + [{"sql": s} for s in corpus] + late
    for i, d in enumerate(inputs):
        d["id"] = i
    res = run_harness(inputs, rp, "main")
    if res is None:
        return rp.finish()
    n_ref_in = len(ref)
    rp.cov["evaluations"] = len(res)

    # ---- oracle on generator statements (independent of the model) ----
    shapes, failures, rejected = set(), [], 0
    stats = {"tables_max": 0, "depth_graft": 0, "layouts": len(lays), "accepted_ref": 0}
    skipped = {r["id"] for r in res if not r["accepted"] and (r.get("err") or "").startswith("skipped")}
    if skipped:
        rp.cov["notes"].append("%d inputs skipped by the harness after an extraction exceeded its deadline" % len(skipped))
    for (st, li, d), r in zip(ref, res[:n_ref_in]):
        if r["id"] in skipped:
            continue
        if not r["accepted"]:
            rejected += 1
            continue
        stats["accepted_ref"] += 1
        if d.get("graft"):
            stats["depth_graft"] += 1
        stats["tables_max"] = max(stats["tables_max"], len(d["want"]["tables"]))
        shapes.add(json.dumps([d["want"]["tables"], d["want"]["qcolumns"], d["want"]["functions"], st[0]]))
        for f in oracle(r, d["want"]):
            failures.append((d, r, f))
    for d, r in list(zip(decoys, res[n_ref_in:n_ref_in + len(decoys)])) + list(zip(late, res[len(res) - len(late):])):
        if r["id"] in skipped:
            continue
        if d["shape"].startswith("flat_chain") and not r["accepted"]:
            failures.append((d, r, "rejected:flat chain of %d operands is not accepted" % kk))
        if r["accepted"]:
            for f in oracle(r, d["want"]):
                failures.append((d, r, f))
    rp.cov["reference_statements"] = n_ref_in
    rp.cov["reference_rejected_by_parser"] = rejected
    if rejected > n_ref_in // 5:
        rp.violation({"kind": "generator", "detail": "parser rejects %d of %d reference statements" % (rejected, n_ref_in),
                      "example": next(d["sql"] for (_, _, d), r in zip(ref, res) if not r["accepted"])}, "ref_rejected", no_input=True)
    reported = set()
    for d, r, f in failures:
        sig = signature_of(f, d)
        key = json.dumps(sig, sort_keys=True)
        if key in known:
            if key not in reported:
                rp.known(known[key]["key"], known[key]["what"])
                reported.add(key)
            continue
        if key in reported:
            continue
        reported.add(key)
        rp.violation({"kind": "oracle", "property": "C15", "input": {k: d[k] for k in d if k != "id"}, "failure": f,
                      "got": {k: r.get(k) for k in ("tables", "columns", "functions", "qtables", "qcolumns", "dups", "metadiff", "max_ns")},
                      "explanation": "the extraction result differs from the names the generator placed in table / column / function positions"},
                     "oracle_%s_%d" % (f.split(":")[0], len(rp.violations)))
    rp.obligation("oracle: exact sets, no duplicates, metadata agreement, tree unchanged, time budget on %d accepted generator statements" % stats["accepted_ref"],
                  not [1 for d, r, f in failures if json.dumps(signature_of(f, d), sort_keys=True) not in known])

    # ---- known / fixed witnesses ----
    witness_regressions(rp)

    # ---- correspondences, evaluated inside Coq (vm_compute), case files compiled concurrently ----
    # 1: model on the dumped real tree = implementation output
    # 2: prescribed tree = real tree, spec sets = generator knowledge, model(prescribed tree) = written sets
    unknown = set()
    acc = [r for r in res if r["accepted"] and not r.get("panic") and r.get("tree") is not None and 1 < r["nodes"] <= 1500]
    rng.shuffle(acc)
    sample = acc[:400 if quick else 2400]
    kinds = set()
    for r in sample:
        for t in r["tree"]:
            qast.tree_types(t, kinds)
    refs = [(st, d, r) for (st, li, d), r in zip(ref, res[:n_ref_in]) if li == 0 and r["accepted"]]
    refs = [(st, d, r) for st, d, r in refs if r["nodes"] <= 600 and len(r["tree"]) == 1]
    refs = refs[:300 if quick else 1500]
    nsh = 8 if quick else 12
    jobs, owners = [], []
    for si in range(nsh):
        sh = sample[si::nsh]
        if sh:
            body = PREAMBLE + "Definition cases : list xcase := [\n" + ";\n".join(xcase_term(r, tb, unknown) for r in sh) + "].\n"
            body += "Definition bad := Eval vm_compute in bad_indices (extract_case_ok em) 0%N cases.\nPrint bad.\n"
            jobs.append(("c15_x_%d" % si, body)); owners.append(("x", sh))
        sh = refs[si::nsh]
        if sh:
            body = PREAMBLE + "Definition cases : list rcase := [\n" + ";\n".join(rcase_term(st, r, tb, unknown) for st, d, r in sh) + "].\n"
            body += "Definition bad := Eval vm_compute in bad_indices (ref_case_ok em) 0%N cases.\nPrint bad.\n"
            jobs.append(("c15_r_%d" % si, body)); owners.append(("r", sh))
    # flat chains: every chain statement, model on the dump of the real tree (all layouts) and prescribed tree (layout 0)
    chain_res = res[len(res) - len(chains):]
    chain_x = [r for (_, _, _, d), r in zip(chains, chain_res) if r["accepted"] and r.get("tree")]
    chain_r = [(st, d, r) for (_, st, li, d), r in zip(chains, chain_res) if li == 0 and r["accepted"] and len(r.get("tree") or []) == 1]
    for ci in range(0, len(chain_x), 5):
        sh = chain_x[ci:ci + 5]
        body = PREAMBLE + "Definition cases : list xcase := [\n" + ";\n".join(xcase_term(r, tb, unknown) for r in sh) + "].\n"
        body += "Definition bad := Eval vm_compute in bad_indices (extract_case_ok em) 0%N cases.\nPrint bad.\n"
        jobs.append(("c15_chain_x_%d" % (ci // 5), body)); owners.append(("x", sh))
    if chain_r:
        body = PREAMBLE + "Definition cases : list rcase := [\n" + ";\n".join(rcase_term(st, r, tb, unknown) for st, d, r in chain_r) + "].\n"
        body += "Definition bad := Eval vm_compute in bad_indices (ref_case_ok em) 0%N cases.\nPrint bad.\n"
        jobs.append(("c15_chain_r", body)); owners.append(("r", chain_r))
    rp.cov["flat_chain_model_cases"] = {"operands": kc, "dumped_trees": len(chain_x), "prescribed_trees": len(chain_r),
                                        "max_nodes": max([r["nodes"] for r in chain_x] or [0])}
    bad_x, bad_r, coq_fail = [], [], None
    if ok_inst:
        for (kind, sh), (okc, outc, errc) in zip(owners, qast.coq_cases_parallel(jobs)):
            if not okc:
                coq_fail = errc[-2000:]
                continue
            idxs = common.parse_nlist(outc)
            if kind == "x":
                bad_x += [sh[i] for i in idxs]
            else:
                bad_r += [sh[i] for i in idxs]
        if coq_fail:
            rp.violation({"kind": "correspondence", "detail": coq_fail}, "cases_coq", no_input=True)
    rp.cov["traces_validated_against_model"] = len(sample)
    rp.obligation("correspondence: Coq extract_* on the dump of %d real trees (+ %d flat chains of %d operands, every layout) = gosqlx.Extract* output" % (len(sample), len(chain_x), kc),
                  ok_inst and not bad_x and not coq_fail and len(chain_x) == len(chains))
    for r in bad_x[:3]:
        d = inputs[r["id"]]
        fails = oracle(r, d["want"]) if "want" in d else None
        rp.violation({"kind": "correspondence", "input": {k: d[k] for k in d if k != "id"}, "oracle_failures": fails,
                      "got": {k: r.get(k) for k in ("tables", "columns", "functions", "qtables", "qcolumns")},
                      "explanation": "the extraction model evaluated on the reflective dump of the real tree disagrees with the real extraction functions"},
                     "model_mismatch_%d" % len(rp.violations), no_input=not fails)
    if unknown:
        rp.cov["notes"].append("dumped trees use types/edges absent from the C14 tables: %s" % sorted(unknown)[:5])
    rp.obligation("tie: ast_stmt s = dump(parse(render s)), items s = generator knowledge, model(ast_stmt s) = written, on %d generated statements + %d flat chains" % (len(refs), len(chain_r)),
                  ok_inst and not bad_r and not coq_fail and len(chain_r) == len(qgen.CHAIN_KINDS))
    for st, d, r in bad_r[:3]:
        fails = oracle(r, d["want"])
        rp.violation({"kind": "correspondence", "input": {k: d[k] for k in d if k != "id"}, "coq_stmt": qgen.coq_stmt(st), "oracle_failures": fails,
                      "explanation": "the prescribed tree / specification of the reference grammar no longer matches the parsed tree of the rendered statement: the C15 theorems do not speak about this input any more"},
                     "ref_mismatch_%d" % len(rp.violations), no_input=not fails)

    rp.cov["distinct_nontrivial"] = len(shapes)
    rp.cov["rule"] = ("reference statements from lib/qgen.py (random.Random(VERIF_SEED)): SELECT/set operations/INSERT VALUES|SELECT/UPDATE(+grafted FROM)/DELETE(+grafted USING)/MERGE(+grafted sub-query source)/CREATE [OR REPLACE|TEMPORARY] VIEW/CREATE MATERIALIZED VIEW/CREATE [UNIQUE] INDEX ... WHERE/CREATE TABLE with DEFAULT, CHECK/EXPLAIN|DESCRIBE query, "
                      "sub-query and CTE depth 0..4, aliases / string contents / NULL,TRUE as decoys, duplicate names, DDL names (view / index / table names, view column lists, index keys, column definitions) from pools of their own as decoys, 4 layouts (keyword case, whitespace, redundant parentheses, optional AS); flat OR / AND / + / || / UNION ALL chains of 160|400 operands; "
                      "non-trivial = accepted by the parser and at least one table; distinct = distinct (kind, written table set, column set, function set); "
                      "plus corpus + sqlgen statements for the model correspondence")
    rp.cov.update(stats)
    rp.cov["node_kinds_and_edges_in_sample"] = len(kinds)
    rp.cov["cost_shapes"] = [{"shape": n, "max_ms": round(r["max_ns"] / 1e6, 3), "sql_bytes": len(d["sql"])}
                             for (n, _), r, (_, _, d) in zip(cost, res[n_ref_in - len(cost):n_ref_in], ref[n_ref_in - len(cost):])]
    rp.cov["samples"] = [{"sql": d["sql"][:160], "want": d["want"], "got_tables": r["tables"]} for (st, li, d), r in list(zip(ref, res))[:3]]
    rp.assumptions = ["the reflective dump (harness/qast.go) is a faithful image of the parsed tree (exported fields)",
                      "Children() is field-wise uniform (C14 correspondence)",
                      "names are compared byte-wise; the reference grammar is the subset listed in design/C15.md"]
    if ok_inst and not ok_props:
        rp.violation({"kind": "proof", "theorem": "Props/C15.v", "log": logs["props"][-3000:]}, "props_c15", no_input=True)
    if not ok_inst:
        # the instance lemma (every prescribed slot is returned by Children()) or a proof no longer checks: the
        # oracle above has searched for a failing input; if it found none say so
        if not rp.violations:
            rp.violation({"kind": "proof", "theorem": "Inst_C15.em_covers_ok / Proofs", "log": logs["inst"][-3000:]}, "inst_c15", no_input=True)
    return rp.finish()


def replay(path):
    d = json.load(open(path))
    inp = d.get("input")
    if not inp or "sql" not in inp:
        return 2
    p = common.vh(["extract"], input=json.dumps(dict(inp, id=0)) + "\n")
    r = json.loads(p.stdout.splitlines()[0])
    if not r["accepted"]:
        print("rejected:", r.get("err"))
        return 0
    fails = oracle(r, inp["want"]) if "want" in inp else []
    print(json.dumps({"failures": fails, "tables": r["tables"], "columns": r["columns"], "functions": r["functions"]}))
    return 1 if fails else 0
