"""C16 — injection findings are context-closed, layout-invariant and self-consistent."""
import json, os, random
import common, gen, sqlgen, qast, qgen
from common import Report, log

MANIFEST = dict(
    technique='Coq proof over a faithful model of Scanner.Scan (pkg/sql/security/scanner.go) on query trees traversed with the regenerated Children() table started from the statements the probed roots table admits (the choice of roots made by Scan is part of the model) + position enumeration of the reference grammar (context closure = roots o C14 completeness o local detector) + model-vs-implementation correspondence on reflected real trees x 4 thresholds + payload x position x layout x threshold oracle',
    text='Theorems C16_context_closed (for EVERY statement of the reference grammar - queries, DML and the statements that carry a query or an expression without being queries: CREATE VIEW / MATERIALIZED VIEW ... AS query, CREATE INDEX ... WHERE, CREATE TABLE ... DEFAULT / CHECK, EXPLAIN query - and EVERY expression / statement position in it, at any nesting and any depth (structural induction, no bound), what the local detector reports on the payload node is reported by the scan), C16_statement_is_root (the scan starts from the statement whatever its type: hypothesis roots_cover scan_root discharged on the roots table probed on the compiled Scan each run), C16_threshold_filter (scan m = filter (sev >= m) (scan LOW), order and multiplicity kept), C16_counts_consistent, C16_scan_pure, C16_findings_sound and the per-payload detector lemmas (tautologies, OR-tautology, time-delay and dangerous functions, UNION with NULL columns / system tables; any letter case) are proved with no bound. The model is tied to the code on every run by the regenerated Children() table, by evaluating the model on the reflective dump of real parsed trees against the real findings (multiset of (pattern, severity)) for the four thresholds, by prescribed tree = parsed tree for every rendered layout, and by both correspondences on flat operator chains of 150 (quick) / 400 (thorough) operands with the payload among the first operands (trees as deep as they are long). C16_explain_query_dropped_refuted records the defect the extended grammar exposed (EXPLAIN query: the parser dropped the query; repaired in /repo c61589e). An implementation-side oracle places every documented payload in every condition / expression / query position of the grammar (composed to depth 3), in 4 layouts, and checks presence with documented class and severity, exact threshold filtering, counts = lists, helper predicates, tree snapshot unchanged, results independent of earlier scans on a long-lived Scanner. ScanSQL (regular expressions) is exercised by the oracle only.',
    note=common.BASE_NOTE + "C16: ScanSQL's regular expressions are not modelled (Go regexp semantics) - oracle only. Unicode case mapping of operator / function names is not modelled (ASCII upper).",
    design='6/C16')

THEOREMS = ["Props.C16.C16_threshold_filter", "Props.C16.C16_counts_consistent", "Props.C16.C16_scan_pure",
            "Props.C16.C16_position_visited", "Props.C16.C16_statement_is_root", "Props.C16.C16_context_closed",
            "Props.C16.C16_explain_query_dropped_refuted", "Props.C16.C16_findings_sound",
            "Props.C16.C16_literal_tautology", "Props.C16.C16_column_tautology", "Props.C16.C16_or_tautology",
            "Props.C16.C16_time_function", "Props.C16.C16_dangerous_function", "Props.C16.C16_union_nulls",
            "Props.C16.C16_union_system_table"]
LEVELS = ["LOW", "MEDIUM", "HIGH", "CRITICAL"]
RANK = {l: i for i, l in enumerate(LEVELS)}
PCODE = {"TAUTOLOGY": 0, "UNION_BASED": 1, "TIME_BASED": 2, "OUT_OF_BAND": 3}

PREAMBLE = ("From Coq Require Import List String NArith Bool.\n"
            "From GV Require Import Model.Walk Model.QAst Model.Extract Model.QRef Model.QCase Model.Scan Gen.ChildrenTable Gen.QSlots Gen.QRoots.\n"
            "Import ListNotations.\nLocal Open Scope string_scope.\nLocal Open Scope list_scope.\n")

def col(n, q=""): return ("col", q, n)
def lit(v): return ("lit", str(v), "int", str(v))
def slit(v): return ("lit", v, "string", "'" + v + "'")
NULL = ("lit", "", "null", "NULL")
def sel(items, frm, wh=None, joins=(), gb=(), hv=None, ob=(), ctes=()):
    return ("select", list(ctes), [(e, "") for e in items], list(frm), list(joins), wh, list(gb), hv, list(ob))
def tn(n, al=""): return ("tname", n, al)
def cmp_(a, b, op="="): return ("bin", op, a, b)

# ---- documented payloads (scanner.go package documentation and detector tables) ----
def cond_payloads():
    """(name, boolean expression, expected (pattern, severity))"""
    T = ("TAUTOLOGY", "CRITICAL")
    out = [("taut_1=1", cmp_(lit(1), lit(1)), T), ("taut_2=2", cmp_(lit(2), lit(2)), T),
           ("taut_'a'='a'", cmp_(slit("a"), slit("a")), T), ("taut_'x'='x'", cmp_(slit("x"), slit("x")), T),
           ("taut_col=col", cmp_(col("id"), col("id")), T), ("taut_t.col=t.col", cmp_(col("id", "t1"), col("id", "t1")), T),
           ("or_1=1", ("bin", "OR", cmp_(col("name"), slit("admin")), cmp_(lit(1), lit(1))), T),
           ("or_'a'='a'", ("bin", "OR", cmp_(col("id"), lit(7)), cmp_(slit("a"), slit("a"))), T)]
    for f, args in [("SLEEP", [lit(5)]), ("pg_sleep", [lit(5)]), ("BENCHMARK", [lit(1000000), ("func", "MD5", [lit(1)])]),
                    ("WAITFOR", [slit("0:0:5")]), ("sleep", [lit(1)]), ("Pg_Sleep", [lit(2)])]:
        out.append(("time_" + f, cmp_(("func", f, args), lit(0), ">"), ("TIME_BASED", "HIGH")))
    for f, args in [("LOAD_FILE", [slit("/etc/passwd")]), ("xp_cmdshell", [slit("dir")]), ("sp_OACreate", [slit("x")]),
                    ("UTL_HTTP", [slit("http://x")]), ("DBMS_LDAP", [slit("x")]), ("sp_executesql", [slit("x")]),
                    ("load_file", [slit("x")])]:
        out.append(("danger_" + f, cmp_(("func", f, args), slit("x"), "<>"), ("OUT_OF_BAND", "CRITICAL")))
    return out

def expr_payloads():
    """function-call payloads usable in value position"""
    return [("time_SLEEP", ("func", "SLEEP", [lit(5)]), ("TIME_BASED", "HIGH")),
            ("time_pg_sleep", ("func", "pg_sleep", [lit(5)]), ("TIME_BASED", "HIGH")),
            ("time_BENCHMARK", ("func", "BENCHMARK", [lit(1000000), lit(1)]), ("TIME_BASED", "HIGH")),
            ("danger_LOAD_FILE", ("func", "LOAD_FILE", [slit("/etc/passwd")]), ("OUT_OF_BAND", "CRITICAL")),
            ("danger_xp_cmdshell", ("func", "xp_cmdshell", [slit("dir")]), ("OUT_OF_BAND", "CRITICAL"))]

def query_payloads():
    """UNION probing: whole queries"""
    base = sel([col("a"), col("b")], [tn("t1")])
    out = [("union_nulls2", ("setop", "UNION", False, base, sel([NULL, NULL], [tn("t2")])), ("UNION_BASED", "HIGH")),
           ("union_all_nulls3", ("setop", "UNION", True, sel([col("a"), col("b"), col("c")], [tn("t1")]), sel([NULL, NULL, NULL], [])), ("UNION_BASED", "HIGH"))]
    # both documented probes in ONE operand: NULL padding (HIGH) and a system table (CRITICAL) — each keeps its finding
    for t in ["information_schema.columns", "pg_shadow", "Mysql.User"]:
        q = ("setop", "UNION", False, base, sel([NULL, NULL], [tn(t)]))
        out.append(("union_nulls+sys_" + t + "_crit", q, ("UNION_BASED", "CRITICAL")))
        out.append(("union_nulls+sys_" + t + "_high", q, ("UNION_BASED", "HIGH")))
    for t in ["pg_catalog.pg_tables", "information_schema.columns", "mysql.user", "sqlite_master", "sys.objects", "pg_shadow", "PG_CATALOG.pg_class"]:
        out.append(("union_sys_" + t, ("setop", "UNION", False, base, sel([col("a"), col("b")], [tn(t)])), ("UNION_BASED", "CRITICAL")))
    return out

# ---- contexts: name, kind of hole (cond | expr | query), builder ----
def cond_contexts():
    w = lambda p: sel([col("a")], [tn("t1")], wh=p)
    return [
        ("where", lambda p: w(p)),
        ("and_right", lambda p: w(("bin", "AND", cmp_(col("b"), lit(2)), p))),
        ("and_left", lambda p: w(("bin", "AND", p, cmp_(col("b"), lit(2))))),
        ("or_right", lambda p: w(("bin", "OR", cmp_(col("b"), lit(2)), p))),
        ("or_left", lambda p: w(("bin", "OR", p, cmp_(col("b"), lit(2))))),
        ("not", lambda p: w(("un", "NOT", p))),
        ("having", lambda p: sel([col("a")], [tn("t1")], gb=[col("a")], hv=p)),
        ("join_on", lambda p: sel([col("a")], [tn("t1")], joins=[("JOIN", "INNER", tn("t2"), p)])),
        ("join_on_2nd", lambda p: sel([col("a")], [tn("t1")], joins=[("LEFT JOIN", "LEFT", tn("t2"), cmp_(col("a", "t1"), col("a", "t2"))), ("JOIN", "INNER", tn("t3"), p)])),
        ("case_when", lambda p: sel([("case", None, [(p, lit(1))], lit(0))], [tn("t1")])),
        ("case_in_where", lambda p: w(cmp_(("case", None, [(p, lit(1))], lit(0)), lit(1)))),
        ("update_where", lambda p: ("update", [], "t1", [(col("a"), lit(1))], [], p)),
        ("delete_where", lambda p: ("delete", [], "t1", [], p)),
        ("merge_on", lambda p: ("merge", tn("t1"), tn("t2"), p, [("wdelete", None)])),
        ("merge_when_and", lambda p: ("merge", tn("t1"), tn("t2"), cmp_(col("id", "t1"), col("id", "t2")), [("wupdate", p, [("a", lit(1))])])),
        # statements that carry an expression without being queries
        ("create_index_where", lambda p: ("createindex", (False, False, ""), "zi1", "t1", [("zk1", "")], p)),
        ("create_unique_index_where_and", lambda p: ("createindex", (True, True, "btree"), "zs.zi2", "s1.t4", [("zk1", "DESC"), ("zk2", "")], ("bin", "AND", cmp_(col("b"), lit(2)), p))),
        ("create_table_column_check", lambda p: ("createtable", (False, False), "zt1", [("zk1", "INT", [("plain", "NOT NULL"), ("check", p)])], [])),
        ("create_table_check", lambda p: ("createtable", (False, True), "zt1", [("zk1", "INT", []), ("zk2", "TEXT", [])], [("plain", "UNIQUE", ["zk1"]), ("check", p)])),
    ]

def expr_contexts():
    w = lambda p: sel([col("a")], [tn("t1")], wh=p)
    return [
        ("select_item", lambda e: sel([e], [tn("t1")])),
        ("func_arg", lambda e: sel([("func", "UPPER", [e])], [tn("t1")])),
        ("func_arg_nested", lambda e: w(cmp_(("func", "COALESCE", [col("a"), ("func", "lower", [e])]), lit(1)))),
        ("in_list", lambda e: w(("in", col("a"), [lit(1), e]))),
        ("between_bound", lambda e: w(("between", col("a"), lit(1), e))),
        ("cmp_operand", lambda e: w(cmp_(col("a"), e))),
        ("case_result", lambda e: sel([("case", None, [(cmp_(col("a"), lit(1)), e)], None)], [tn("t1")])),
        ("cast", lambda e: sel([("cast", e, "INTEGER")], [tn("t1")])),
        ("group_by", lambda e: sel([col("a")], [tn("t1")], gb=[e])),
        ("order_by", lambda e: sel([col("a")], [tn("t1")], ob=[e])),
        ("insert_values", lambda e: ("insertv", [], "t1", [col("a"), col("b")], [lit(1), e])),
        ("update_set", lambda e: ("update", [], "t1", [(col("a"), e)], [], cmp_(col("id"), lit(1)))),
        ("merge_set", lambda e: ("merge", tn("t1"), tn("t2"), cmp_(col("id", "t1"), col("id", "t2")), [("wupdate", None, [("a", e)])])),
        ("merge_insert_values", lambda e: ("merge", tn("t1"), tn("t2"), cmp_(col("id", "t1"), col("id", "t2")), [("winsert", None, ["a"], [e])])),
        ("create_table_default", lambda e: ("createtable", (False, False), "zt1", [("zk1", "INT", [("default", e)]), ("zk2", "INT", [("plain", "NOT NULL")])], [])),
        ("create_index_where_operand", lambda e: ("createindex", (False, False, ""), "zi1", "t1", [("zk1", "")], cmp_(e, lit(0), ">"))),
    ]

def query_contexts():
    """a query (SELECT / set operation) in a nested position; the hole takes a query whose first item is a column"""
    w = lambda p: sel([col("a")], [tn("t1")], wh=p)
    return [
        ("top", lambda q: q),
        ("derived_table", lambda q: sel([col("a")], [("tsub", q, "zal1")]) if q[0] == "select" else None),
        ("derived_first_of_join", lambda q: sel([col("a")], [("tsub", q, "zal1")], joins=[("JOIN", "INNER", tn("t3"), cmp_(col("a", "zal1"), col("a", "t3")))]) if q[0] == "select" else None),
        ("join_right_derived", lambda q: sel([col("a")], [tn("t1")], joins=[("JOIN", "INNER", ("tsub", q, "zal2"), cmp_(col("a", "t1"), col("a", "zal2")))]) if q[0] == "select" else None),
        ("in_subquery", lambda q: w(("insub", col("a"), q))),
        ("exists", lambda q: w(("exists", q))),
        ("scalar_where", lambda q: w(cmp_(col("a"), ("sub", q)))),
        ("scalar_select_item", lambda q: sel([("sub", q)], [tn("t1")])),
        ("cte_body", lambda q: sel([col("a")], [tn("cte1")], ctes=[("cte1", [], q)])),
        ("insert_select", lambda q: ("insertq", [], "t1", [col("a")], q)),
        ("union_left", lambda q: ("setop", "UNION", True, q, sel([col("c")], [tn("t3")])) if q[0] == "select" else None),
        ("union_right", lambda q: ("setop", "EXCEPT", False, sel([col("c")], [tn("t3")]), q) if q[0] == "select" else None),
        ("update_where_in", lambda q: ("update", [], "t1", [(col("a"), lit(1))], [], ("insub", col("id"), q))),
        ("delete_where_exists", lambda q: ("delete", [], "t1", [], ("exists", q))),
        ("update_from_graft", lambda q: ("update", [], "t1", [(col("a"), lit(1))], [("tsub", q, "zal3")], None) if q[0] == "select" else None),
        ("delete_using_graft", lambda q: ("delete", [], "t1", [("tsub", q, "zal3")], None) if q[0] == "select" else None),
        ("merge_source_graft", lambda q: ("merge", tn("t1"), ("tsub", q, "zal4"), cmp_(col("id", "t1"), col("id", "zal4")), [("wdelete", None)]) if q[0] == "select" else None),
        # statements that carry a query without being queries (the body must start with SELECT: no WITH clause of its own)
        ("create_view_body", lambda q: ("createview", ("", False, ""), "zv1", [], q) if viewable(q) else None),
        ("create_or_replace_view_cols_body", lambda q: ("createview", ("OR REPLACE", False, "WITH CHECK OPTION"), "zs.zv2", ["zc1", "zc2"], q) if viewable(q) else None),
        ("create_matview_body", lambda q: ("creatematview", (True, "WITH NO DATA"), "Zmv3", [], q) if viewable(q) else None),
        ("explain_query", lambda q: ("explain", "EXPLAIN", q) if viewable(q) else None),
        ("describe_query", lambda q: ("explain", "DESCRIBE", q) if viewable(q) else None),
    ]


def viewable(q):
    """the parser reads the body of CREATE VIEW with parseSelectWithSetOperations after the keyword SELECT"""
    l = r = q
    while l[0] == "setop":
        l = l[3]
    while r[0] == "setop":
        r = r[4]
    return l[0] == "select" and not l[1] and r[0] == "select" and bool(r[3])      # (a SELECT without FROM cannot be followed by WITH ... OPTION)


def chain_cases(k):
    """flat operator chains as statements of the reference grammar: the payload among the FIRST operands (deepest in
    the left-deep tree the parser builds), k further operands after it"""
    T = ("TAUTOLOGY", "CRITICAL")
    sleep = cmp_(("func", "SLEEP", [lit(5)]), lit(0), ">")
    out = [("or", qgen.flat_chain("or", k, [cmp_(col("name"), slit("")), cmp_(lit(1), lit(1))]), T),
           ("and", qgen.flat_chain("and", k, [cmp_(slit("a"), slit("a")), cmp_(col("b"), lit(2))]), T),
           ("or_sleep", qgen.flat_chain("or", k, [sleep]), ("TIME_BASED", "HIGH")),
           ("concat", qgen.flat_chain("concat", k, [("func", "LOAD_FILE", [slit("/etc/passwd")])]), ("OUT_OF_BAND", "CRITICAL")),
           ("plus", qgen.flat_chain("plus", k, [("func", "pg_sleep", [lit(5)]), col("amount")]), ("TIME_BASED", "HIGH")),
           ("union_all_nulls", qgen.flat_chain("union_all", k, [sel([col("a"), col("b")], [tn("t1")]), sel([NULL, NULL], [tn("t3")])]), ("UNION_BASED", "HIGH")),
           ("union_all_where", qgen.flat_chain("union_all", k, [sel([col("a")], [tn("t1")], wh=cmp_(col("id"), col("id")))]), T)]
    st = qgen.flat_chain("or", k, [cmp_(col("b"), lit(2))])
    out.append(("or_then_having", st[:6] + ([col("a")], cmp_(lit(1), lit(1)), []), T))
    out.append(("view_or", ("createview", ("", False, ""), "zv1", [], qgen.flat_chain("or", k, [cmp_(col("name"), slit("")), cmp_(lit(2), lit(2))])), T))
    out.append(("index_and", ("createindex", (False, False, ""), "zi1", "t1", [("zk1", "")], qgen.flat_chain("and", k, [sleep])[5]), ("TIME_BASED", "HIGH")))
    return [dict(stmt=st, payload="chain_" + n, expected=exp, position="flat_chain:" + n, chain=True) for n, st, exp in out]


def build_cases(rng, quick):
    """payload x position (composed to depth <= 3); returns list of dict(stmt, payload, expected, position)"""
    cases = []
    cc, ec, qc = cond_contexts(), expr_contexts(), query_contexts()
    inner_q = lambda p: sel([col("b")], [tn("t2")], wh=p)           # a query whose WHERE holds a condition
    inner_qe = lambda e: sel([e], [tn("t2")])                        # a query whose select item holds an expression
    for pn, p, exp in cond_payloads():
        for cn, c in cc:
            cases.append(dict(stmt=c(p), payload=pn, expected=exp, position=cn))
        for qn_, q in qc:
            if qn_ == "top":
                continue
            st = q(inner_q(p))
            if st is not None:
                cases.append(dict(stmt=st, payload=pn, expected=exp, position=qn_ + ">where"))
    for pn, e, exp in expr_payloads():
        for cn, c in ec:
            cases.append(dict(stmt=c(e), payload=pn, expected=exp, position=cn))
        for qn_, q in qc:
            if qn_ == "top":
                continue
            st = q(inner_qe(e))
            if st is not None:
                cases.append(dict(stmt=st, payload=pn, expected=exp, position=qn_ + ">select_item"))
    for pn, pq, exp in query_payloads():
        for qn_, q in qc:
            st = q(pq)
            if st is not None:
                cases.append(dict(stmt=st, payload=pn, expected=exp, position=qn_))
    # depth 3: payload condition inside a nested query inside another nested query position
    deep = []
    cps, eps = cond_payloads(), expr_payloads()
    nq = [x for x in qc if x[0] not in ("top",)]
    for _ in range(250 if quick else 2500):
        pn, p, exp = rng.choice(cps)
        cn, c = rng.choice(cc[:13])
        host = c(p)
        if host[0] != "select":
            host = inner_q(p); cn = "where"
        names = [cn]
        st = host
        for _ in range(rng.choice([1, 2, 2, 3])):
            if st[0] != "select":
                break
            qn_, q = rng.choice(nq)
            nst = q(st)
            if nst is None:
                continue
            st = nst
            names.append(qn_)
            if st[0] not in ("select",):
                break
        deep.append(dict(stmt=st, payload=pn, expected=exp, position=">".join(reversed(names))))
    return cases, deep


SQL_PAYLOADS = [
    # ScanSQL documented patterns: (text, pattern, severity)
    ("SELECT * FROM orders WHERE id=1 AND SLEEP(5)", "TIME_BASED", "HIGH"),
    ("SELECT * FROM orders WHERE id=1 AND sleep  (5)", "TIME_BASED", "HIGH"),
    ("select * from orders where id=1 and Pg_Sleep\t(5)", "TIME_BASED", "HIGH"),
    ("SELECT * FROM t WHERE id=1; WAITFOR\n DELAY '0:0:5'", "TIME_BASED", "HIGH"),
    ("SELECT BENCHMARK (1000000, MD5(1))", "TIME_BASED", "HIGH"),
    ("SELECT LOAD_FILE ('/etc/passwd')", "OUT_OF_BAND", "CRITICAL"),
    ("select load_file((('/etc/passwd')))", "OUT_OF_BAND", "CRITICAL"),
    ("EXEC xp_cmdshell 'dir'", "OUT_OF_BAND", "CRITICAL"),
    ("SELECT a FROM t INTO\n OUTFILE '/tmp/x'", "OUT_OF_BAND", "CRITICAL"),
    ("SELECT UTL_HTTP.REQUEST('http://x') FROM dual", "OUT_OF_BAND", "CRITICAL"),
    ("EXEC ('DROP TABLE t')", "DANGEROUS_FUNCTION", "MEDIUM"),
    ("exec sp_executesql N'select 1'", "DANGEROUS_FUNCTION", "MEDIUM"),
    ("SELECT name FROM products UNION SELECT password FROM users", "UNION_BASED", "CRITICAL"),
    ("select name from products union\n\tall  select password from users", "UNION_BASED", "CRITICAL"),
    ("SELECT a FROM t WHERE b IN (SELECT table_name FROM Information_Schema.tables)", "UNION_BASED", "CRITICAL"),
    ("SELECT * FROM users; DROP TABLE users --", "STACKED_QUERY", "CRITICAL"),
    ("SELECT * FROM users ;\n  delete from users", "STACKED_QUERY", "CRITICAL"),
    ("SELECT * FROM users WHERE username='admin' OR 1=1 --", "COMMENT_BYPASS", "MEDIUM"),
    ("SELECT * FROM users WHERE id = 1; -- x", "COMMENT_BYPASS", "HIGH"),
]


def run_codes(run):
    return [PCODE.get(f["p"], 9) * 4 + RANK[f["s"]] for f in run["f"]]


def check_result(r, expected=None):
    """property oracle on one implementation result; returns list of failure strings"""
    bad = []
    if r.get("panic"):
        return ["panic"]
    low = r["runs"][0]["f"]
    for i, lv in enumerate(LEVELS):
        run = r["runs"][i]
        want = [f for f in low if RANK[f["s"]] >= i]
        if run["f"] != want:
            bad.append("threshold:%s" % lv)
        c = run["c"]
        per = [sum(1 for f in run["f"] if f["s"] == s) for s in ("CRITICAL", "HIGH", "MEDIUM", "LOW")]
        if c[0] != len(run["f"]) or c[1:] != per:
            bad.append("counts:%s" % lv)
        srun = r["sql_runs"][i]
        sper = [sum(1 for f in srun["f"] if f["s"] == s) for s in ("CRITICAL", "HIGH", "MEDIUM", "LOW")]
        if srun["c"][0] != len(srun["f"]) or srun["c"][1:] != sper:
            bad.append("sql_counts:%s" % lv)
        if srun["f"] != [f for f in r["sql_runs"][0]["f"] if RANK[f["s"]] >= i]:
            bad.append("sql_threshold:%s" % lv)
    if r.get("helper_bad"):
        bad.append("helpers:" + ",".join(r["helper_bad"]))
    if not r.get("used_same", True):
        bad.append("state:long-lived-scanner-differs")
    if not r.get("tree_same", True):
        bad.append("tree-modified")
    if expected is not None:
        if not any(f["p"] == expected[0] and f["s"] == expected[1] for f in low):
            bad.append("missing:%s/%s" % expected)
    return bad


def run_harness(inputs, rp, tag):
    inp = "".join(json.dumps(i) + "\n" for i in inputs)
    p = common.vh(["scan"], input=inp, timeout=1500)
    res = [json.loads(l) for l in p.stdout.splitlines() if l.strip()]
    if p.returncode != 0 or len(res) != len(inputs):
        rp.violation({"kind": "harness", "detail": p.stderr[-2000:], "got": len(res), "want": len(inputs)}, "scan_harness_" + tag, no_input=True)
        return None
    return res


def position_class(pos):
    return pos.split(">")[0]


def witness_regressions(rp):
    """replay the witnesses of known_findings.d/C16.json on the implementation: a fixed one must pass"""
    for k in common.known_findings("C16"):
        w = k.get("witness")
        if not w or "sql" not in w:
            continue
        wr = run_harness([dict(w, id=0)], rp, "witness")
        if not wr or not wr[0]["accepted"]:
            continue
        fails = check_result(wr[0], (w["payload"]["pattern"], w["payload"]["severity"]) if w.get("payload") else None)
        if k["status"] == "fixed" and fails:
            rp.violation({"kind": "regression", "known_key": k["key"], "input": w, "failure": fails,
                          "explanation": "a defect recorded as fixed is back"}, "regression_" + k["key"])
        if k["status"] == "known" and not fails:
            rp.cov["notes"].append("stale known finding (witness passes now): " + k["key"])


def probe_roots(rp):
    """which top-level statement kinds does Scanner.Scan start a traversal from?  One statement of each statement kind
    of the reference grammar carrying SLEEP(5) (lib/qast.py ROOT_PROBES) -> Gen/QRoots.v.  Returns ({kind: bool}, not-roots)"""
    res = run_harness([{"id": i, "sql": sql} for i, (_, _, sql) in enumerate(qast.ROOT_PROBES)], rp, "roots")
    roots, missing, notes = {}, [], []
    for (k, ty, sql), r in zip(qast.ROOT_PROBES, res or []):
        if not r["accepted"] or not r.get("tree") or r["tree"][0]["t"] != ty:
            notes.append("root probe not usable (parser: %s): %s" % ((r.get("err") or "other statement type").split("\n")[0][:80], sql))
            continue
        roots[k] = any(f["p"] == "TIME_BASED" and f["s"] == "HIGH" for f in r["runs"][0]["f"])
        if not roots[k]:
            missing.append((k, ty, sql, r))
    if notes:
        rp.cov["notes"] += notes
    rp.cov["scan_roots_probed"] = {k: roots.get(k) for k, _, _ in qast.ROOT_PROBES}
    return roots, missing


def run(tier):
    rp = Report("C16", tier)
    rng = random.Random(common.seed())
    quick = tier == "quick"
    try:
        with common.Lock():
            tables = common.stage_tables()
            ct, _ = gen.emit_children(tables)
            tb, _ = qast.emit_qslots(ct)
            roots, not_roots = probe_roots(rp)
            qast.emit_qroots(roots)
            # the roots instance lemma is built on its own: when it fails the model (with the probed roots) still runs
            ok_roots, log_roots = common.coq_make(["theories/Inst/Inst_C16.vo"])
            if not ok_roots:
                for ext in (".vo", ".vos", ".vok", ".glob"):
                    try:
                        os.remove(os.path.join(common.COQ, "theories/Inst/Inst_C16" + ext))
                    except OSError:
                        pass
            ok_inst, ok_props, _, logs = common.coq_stage(
                rp, ["theories/Inst/Inst_C15.vo", "theories/Proofs/ScanP.vo", "theories/Model/QCase.vo", "theories/Gen/QRoots.vo"],
                "theories/Props/C16.v", THEOREMS, inst_names=["Inst_C15.em_covers_ok"])
            rp.obligation("Inst_C16.roots_cover_ok", ok_roots, "" if ok_roots else log_roots[-300:])
    except common.StageError as e:
        if e.stage == "qslots":         # a modelled node type / field is gone: is a repaired defect back?  (failing input for the report)
            witness_regressions(rp)
        return common.stage_fail(rp, e)
    # a statement kind of the grammar Scan does not start from: the probe statement is the failing input
    for k, ty, sql, r in not_roots:
        rp.violation({"kind": "oracle", "property": "C16", "input": {"sql": sql, "payload": {"pattern": "TIME_BASED", "severity": "HIGH"}},
                      "failure": "missing:TIME_BASED/HIGH", "statement_type": ty, "findings_low": r["runs"][0]["f"],
                      "theorem": "Inst_C16.roots_cover_ok (hypothesis of C16_statement_is_root / C16_context_closed)",
                      "explanation": "Scanner.Scan does not start a traversal from a top-level statement of this type: a payload inside it is never reported"},
                     "root_not_scanned_%s" % ty)
    known = {json.dumps(k["signature"], sort_keys=True): k for k in common.known_findings("C16") if k.get("status") == "known"}

    cases, deep = build_cases(rng, quick)
    kc = 150 if quick else 400
    chains = chain_cases(kc)
    lays = qgen.layouts(rng)
    inputs, meta = [], []
    for ci, c in enumerate(cases + deep + chains):
        use = lays
        for li, L in enumerate(use):
            d = qgen.harness_input(c["stmt"], L)
            if c.get("chain") and li == 0:
                d["sql"] = d["sql"].replace(" OR ", "\n OR ").replace(" AND ", "\n AND ").replace(" UNION ", "\n UNION ")   # the tokenizer is quadratic in line length
            d["payload"] = {"pattern": c["expected"][0], "severity": c["expected"][1]}
            inputs.append(d); meta.append((c, lays.index(L)))
    n_payload = len(inputs)
    corpus = sqlgen.corpus_statements() + sqlgen.generated_statements(rng, 200 if quick else 3000) + sqlgen.SPECIAL
    g = qgen.Gen(rng)
    refs = [g.statement(i % 4) for i in range(40 if quick else 600)]
    inputs += [qgen.harness_input(s, qgen.PLAIN) for s in refs] + [{"sql": s} for s in corpus]
    for i, d in enumerate(inputs):
        d["id"] = i
    res = run_harness(inputs, rp, "main")
    if res is None:
        return rp.finish()
    rp.cov["evaluations"] = len(res) * 4

    # ---- oracle: payload x position x layout x threshold ----
    failures, rejected, seen_cells, pos_classes = [], [], set(), set()
    for (c, li), d, r in zip(meta, inputs[:n_payload], res[:n_payload]):
        if not r["accepted"]:
            rejected.append((c, li, d, r))
            if c.get("chain"):
                failures.append((c, li, d, r, "rejected: a flat chain of %d operands is not accepted" % kc))
            continue
        seen_cells.add((c["payload"], c["position"], li))
        pos_classes.add(c["position"])
        for f in check_result(r, tuple(c["expected"])):
            failures.append((c, li, d, r, f))
    for d, r in zip(inputs[n_payload:], res[n_payload:]):
        if r["accepted"]:
            for f in check_result(r):
                failures.append((dict(payload="-", position="-", expected=None), 0, d, r, f))
    rp.cov["payload_cases"] = n_payload
    rp.cov["payload_cases_rejected_by_parser"] = len(rejected)
    rp.cov["rejected_positions"] = sorted({"%s@%s" % (c["payload"], c["position"]) for c, li, d, r in rejected})[:12]
    if len(rejected) > n_payload // 4:
        rp.violation({"kind": "generator", "detail": "parser rejects %d of %d payload statements" % (len(rejected), n_payload),
                      "example": rejected[0][2]["sql"], "err": rejected[0][3].get("err")}, "payload_rejected", no_input=True)
    reported = set()
    for c, li, d, r, f in failures:
        sig = {"kind": "context", "analysis": "scan", "position": position_class(c["position"]), "failure": f.split(":")[0]}
        key = json.dumps(sig, sort_keys=True)
        if key in known:
            if key not in reported:
                rp.known(known[key]["key"], known[key]["what"]); reported.add(key)
            continue
        if key in reported:
            continue
        reported.add(key)
        rp.violation({"kind": "oracle", "property": "C16", "input": {k: d[k] for k in d if k != "id"}, "failure": f,
                      "payload": c["payload"], "position": c["position"], "expected": c["expected"],
                      "findings_low": r["runs"][0]["f"] if r.get("runs") else None,
                      "explanation": "documented payload not reported with its class and severity in this position / threshold filtering, counts, purity or statelessness violated"},
                     "oracle_%s_%d" % (f.split(":")[0], len(rp.violations)))
    rp.obligation("oracle: %d payload x position x layout cells x 4 thresholds (presence, exact filtering, counts, helpers, tree unchanged, long-lived scanner)" % len(seen_cells),
                  not [1 for c, li, d, r, f in failures if json.dumps({"kind": "context", "analysis": "scan", "position": position_class(c["position"]), "failure": f.split(":")[0]}, sort_keys=True) not in known])

    # ---- statements that carry a query although they are not queries themselves (outside the reference grammar of the
    #      model; oracle only): the payload statement as the body of CREATE [MATERIALIZED] VIEW / CREATE TABLE AS must be
    #      reported exactly as when it stands alone ("equally wherever it occurs ... in any nested statement")
    wrap_src = [(c, d) for (c, li), d, r in zip(meta, inputs[:n_payload], res[:n_payload])
                if li == 0 and r["accepted"] and c["stmt"][0] in ("select", "setop") and not check_result(r, tuple(c["expected"]))]
    rng.shuffle(wrap_src)
    wrap_src = wrap_src[:150 if quick else 1500]
    WRAPS = ["CREATE VIEW zv AS %s", "CREATE MATERIALIZED VIEW zmv AS %s", "CREATE TABLE zt AS %s", "CREATE OR REPLACE VIEW zv AS %s"]
    winputs, wmeta = [], []
    for c, d in wrap_src:
        for w in WRAPS:
            winputs.append({"sql": w % d["sql"], "payload": d["payload"], "id": len(winputs)}); wmeta.append((c, d, w))
    # flat operator chains (one tree level per operand although nothing is nested in the text): the payload among the
    # first operands of a long OR / AND chain, in a select list sum, and something to find after the chain as well
    kk = 150 if quick else 400
    FLAT = [("SELECT a FROM t1 WHERE name = '' OR 1 = 1" + "".join(" OR c%d = %d" % (i, i) for i in range(kk)), ("TAUTOLOGY", "CRITICAL")),
            ("SELECT a FROM t1 WHERE 'a' = 'a' AND b = 2" + "".join(" AND c%d = %d" % (i, i) for i in range(kk)), ("TAUTOLOGY", "CRITICAL")),
            ("SELECT a FROM t1 WHERE SLEEP(5) > 0" + "".join(" OR c%d = %d" % (i, i) for i in range(kk)), ("TIME_BASED", "HIGH")),
            ("SELECT LOAD_FILE('/etc/passwd')" + " || a" * kk + " FROM t1", ("OUT_OF_BAND", "CRITICAL")),
            ("SELECT a FROM t1 WHERE b = 2" + "".join(" OR c%d = %d" % (i, i) for i in range(kk)) + " GROUP BY a HAVING 1 = 1", ("TAUTOLOGY", "CRITICAL")),
            ("SELECT a, b FROM t1" + " UNION SELECT a, b FROM t2" * (kk // 2) + " UNION SELECT NULL, NULL FROM t3" + " UNION SELECT a, b FROM t2" * 3, ("UNION_BASED", "HIGH"))]
    FLAT += [("SELECT * FROM t1 u WHERE NOT EXISTS (SELECT 1 FROM t2 o WHERE o.id = 7 OR 1 = 1)", ("TAUTOLOGY", "CRITICAL")),
             ("SELECT a FROM t1 WHERE NOT EXISTS (SELECT 1 FROM t2 WHERE SLEEP(5) > 0)", ("TIME_BASED", "HIGH")),
             ("SELECT a FROM t1 WHERE b = 1 AND NOT EXISTS (SELECT a, b FROM t2 UNION SELECT NULL, NULL FROM t3)", ("UNION_BASED", "HIGH")),
             ("DELETE FROM t1 WHERE NOT EXISTS (SELECT 1 FROM t2 WHERE LOAD_FILE('/etc/passwd') <> 'x')", ("OUT_OF_BAND", "CRITICAL"))]
    class _C(dict):
        pass
    for sql, exp in FLAT:
        c = _C(payload="flat_chain", position="flat_chain", expected=list(exp), stmt=("raw",))
        winputs.append({"sql": sql, "payload": {"pattern": exp[0], "severity": exp[1]}, "id": len(winputs)})
        wmeta.append((c, {"sql": sql}, "%s"))
    wres = run_harness(winputs, rp, "wrapped") if winputs else []
    wbad, waccepted = [], 0
    for (c, d, w), wi, r in zip(wmeta, winputs, wres or []):
        if not r["accepted"]:
            if c["position"] == "flat_chain":
                wbad.append((c, wi, r, "rejected: a flat chain is not accepted", "flat chain " + wi["sql"][:40]))
            continue
        waccepted += 1
        fl = [f for f in check_result(r, tuple(c["expected"])) if f.startswith("missing")]
        if fl:
            wbad.append((c, wi, r, fl[0], w if c["position"] != "flat_chain" else "flat chain " + wi["sql"][:40]))
    rp.cov["wrapped_statements"] = {"run": len(winputs), "accepted": waccepted}
    rp.obligation("oracle: %d payload queries reported equally as the body of CREATE VIEW / MATERIALIZED VIEW / TABLE AS" % waccepted, not wbad)
    seen_w = set()
    for c, wi, r, f, w in wbad:
        if w in seen_w:
            continue
        seen_w.add(w)
        rp.violation({"kind": "oracle", "property": "C16", "input": {"sql": wi["sql"], "payload": wi["payload"]}, "failure": f, "wrapper": (w % "<query>") if "%s" in w else w,
                      "payload": c["payload"], "position": c["position"], "expected": c["expected"], "findings_low": r["runs"][0]["f"] if r.get("runs") else None,
                      "explanation": "the payload is reported when the query stands alone but not when the same query is the body of this statement"},
                     "oracle_wrapped_%d" % len(rp.violations))

    # ---- ScanSQL: documented text patterns in layout variants (not modelled; oracle only) ----
    sql_bad = []
    texts = run_sql_only(rp)
    for (t, pat, sv), fs in zip(SQL_PAYLOADS, texts or []):
        if not any(f["p"] == pat and f["s"] == sv for f in fs):
            sql_bad.append((t, pat, sv, fs))
    for t, pat, sv, fs in sql_bad:
        sig = {"kind": "scansql", "pattern": pat, "text": t}
        key = json.dumps(sig, sort_keys=True)
        if key in known:
            rp.known(known[key]["key"], known[key]["what"]); continue
        rp.violation({"kind": "oracle", "property": "C16", "entry": "ScanSQL", "text": t, "expected": [pat, sv], "findings": fs,
                      "explanation": "ScanSQL does not report a documented text pattern in this letter case / whitespace / parenthesis layout"},
                     "scansql_%d" % len(rp.violations))
    rp.obligation("oracle: ScanSQL reports its %d documented text patterns in case / whitespace / parenthesis variants (regular expressions not modelled)" % len(SQL_PAYLOADS),
                  texts is not None and not [1 for t, pat, sv, fs in sql_bad if json.dumps({"kind": "scansql", "pattern": pat, "text": t}, sort_keys=True) not in known])

    # ---- known / fixed witnesses ----
    witness_regressions(rp)

    # ---- correspondences inside Coq ----
    unknown = set()
    chain_ids = {d["id"] for (c, li), d in zip(meta, inputs[:n_payload]) if c.get("chain")}
    acc = [r for r in res if r["accepted"] and not r.get("panic") and r.get("tree") and 1 < r["nodes"] <= 1200 and r["id"] not in chain_ids]
    rng.shuffle(acc)
    sample = acc[:400 if quick else 3000]
    refc = [(c, d, r) for (c, li), d, r in zip(meta, inputs[:n_payload], res[:n_payload])
            if r["accepted"] and len(r.get("tree") or []) == 1 and r["nodes"] <= 400 and not c.get("chain")]
    rng.shuffle(refc)
    refc = refc[:300 if quick else 2400]
    # flat chains: never sampled away, no size limit; model on the dump of the real tree in every layout, prescribed tree in layout 0
    chain_x = [r for (c, li), r in zip(meta, res[:n_payload]) if c.get("chain") and r["accepted"] and r.get("tree")]
    chain_r = [(c, d, r) for (c, li), d, r in zip(meta, inputs[:n_payload], res[:n_payload])
               if c.get("chain") and li == 0 and r["accepted"] and len(r.get("tree") or []) == 1]
    rp.cov["flat_chain_model_cases"] = {"operands": kc, "dumped_trees": len(chain_x), "prescribed_trees": len(chain_r),
                                        "max_nodes": max([r["nodes"] for r in chain_x] or [0])}
    nsh = 6 if quick else 12
    jobs, owners = [], []
    shards_x = [sample[si::nsh] for si in range(nsh)] + [chain_x[i:i + 8] for i in range(0, len(chain_x), 8)]
    shards_r = [refc[si::nsh] for si in range(nsh)] + [chain_r]
    for si in range(max(len(shards_x), len(shards_r))):
        sh = shards_x[si] if si < len(shards_x) else []
        if sh:
            body = PREAMBLE + "Definition cases : list (list qn * list (list N)) := [\n" + ";\n".join(
                "(%s, %s)" % (qast.clist([qast.qn_term(t, tb, unknown) for t in r["tree"]]),
                              qast.clist([qast.clist(["%d%%N" % c for c in run_codes(run)]) for run in r["runs"]])) for r in sh) + "].\n"
            body += "Definition bad := Eval vm_compute in bad_indices (scan_case_ok em scan_root) 0%N cases.\nPrint bad.\n"
            jobs.append(("c16_x_%d" % si, body)); owners.append(("x", sh))
        sh = shards_r[si] if si < len(shards_r) else []
        if sh:
            body = PREAMBLE + "Definition cases : list (mstmt * qn * N) := [\n" + ";\n".join(
                "(%s, %s, %d%%N)" % (qgen.coq_stmt(c["stmt"]), qast.qn_term(r["tree"][0], tb, unknown),
                                     PCODE[c["expected"][0]] * 4 + RANK[c["expected"][1]]) for c, d, r in sh) + "].\n"
            body += ("Definition ok (c : mstmt * qn * N) : bool := tree_agrees (ast_stmt (fst (fst c))) (snd (fst c)) && "
                     "existsb (N.eqb (snd c)) (map fcode (scan_findings em scan_root (Some Low) [ast_stmt (fst (fst c))])).\n"
                     "Definition bad := Eval vm_compute in bad_indices ok 0%N cases.\nPrint bad.\n")
            jobs.append(("c16_r_%d" % si, body)); owners.append(("r", sh))
    bad_x, bad_r, coq_fail = [], [], None
    if ok_inst:
        for (kind, sh), (okc, outc, errc) in zip(owners, qast.coq_cases_parallel(jobs)):
            if not okc:
                coq_fail = errc[-2000:]; continue
            idxs = common.parse_nlist(outc)
            if kind == "x":
                bad_x += [sh[i] for i in idxs]
            else:
                bad_r += [sh[i] for i in idxs]
        if coq_fail:
            rp.violation({"kind": "correspondence", "detail": coq_fail}, "cases_coq", no_input=True)
    rp.cov["traces_validated_against_model"] = len(sample)
    rp.obligation("correspondence: Coq scan model on the dump of %d real trees (+ %d flat chains of %d operands, every layout) = Scanner.Scan findings (multiset of pattern x severity) x 4 thresholds" % (len(sample), len(chain_x), kc),
                  ok_inst and not bad_x and not coq_fail and len(chain_x) == 4 * len(chains))
    for r in bad_x[:3]:
        d = inputs[r["id"]]
        exp = (d["payload"]["pattern"], d["payload"]["severity"]) if d.get("payload") else None
        fails = check_result(r, exp)
        rp.violation({"kind": "correspondence", "input": {k: d[k] for k in d if k != "id"}, "oracle_failures": fails,
                      "findings": [run["f"] for run in r["runs"]],
                      "explanation": "the scan model evaluated on the reflective dump of the real tree disagrees with the real Scanner.Scan"},
                     "model_mismatch_%d" % len(rp.violations), no_input=not fails)
    rp.obligation("tie: prescribed tree of (context o payload) = dump(parse(render)) and the model reports the expected finding, on %d payload statements in all layouts + %d flat chains" % (len(refc), len(chain_r)),
                  ok_inst and not bad_r and not coq_fail and len(chain_r) == len(chains))
    for c, d, r in bad_r[:3]:
        fails = check_result(r, tuple(c["expected"]))
        rp.violation({"kind": "correspondence", "input": {k: d[k] for k in d if k != "id"}, "payload": c["payload"], "position": c["position"],
                      "oracle_failures": fails,
                      "explanation": "the prescribed tree of the reference grammar no longer matches the parsed tree of the rendered payload statement (or the model misses the payload): the C16 theorems do not speak about this input any more"},
                     "ref_mismatch_%d" % len(rp.violations), no_input=not fails)
    if unknown:
        rp.cov["notes"].append("dumped trees use types/edges absent from the C14 tables: %s" % sorted(unknown)[:5])

    rp.cov["distinct_nontrivial"] = len({(p, pos) for p, pos, li in seen_cells})
    rp.cov["position_classes"] = sorted(pos_classes)[:80]
    rp.cov["payloads"] = sorted({p for p, pos, li in seen_cells})
    rp.cov["rule"] = ("every documented payload (tautologies 1=1, 'a'='a', col=col, OR 1=1; SLEEP/pg_sleep/BENCHMARK/WAITFOR; LOAD_FILE/xp_cmdshell/sp_OACreate/UTL_HTTP/DBMS_LDAP/sp_executesql; "
                      "UNION SELECT NULL,NULL / UNION SELECT .. FROM system table) x every position of the reference grammar that can hold it "
                      "(WHERE, AND/OR/NOT operands, HAVING, JOIN ON, CASE, select item, function arguments, IN list, BETWEEN, CAST, GROUP/ORDER BY, INSERT VALUES, UPDATE SET/WHERE, DELETE WHERE, MERGE ON/WHEN/SET/VALUES, "
                      "derived table (also as first item of a join), join right side, IN/EXISTS/scalar sub-query, CTE body, INSERT..SELECT, set-operation operands, grafted UPDATE..FROM / DELETE..USING / MERGE source, "
                      "body of CREATE [OR REPLACE] VIEW / CREATE MATERIALIZED VIEW / EXPLAIN / DESCRIBE, CREATE INDEX ... WHERE, CREATE TABLE column DEFAULT / column CHECK / table CHECK), composed to depth 3, "
                      "flat OR / AND / || / + / UNION ALL chains of 150|400 operands with the payload among the first operands (also as view body and index predicate), "
                      "x 4 layouts (keyword case, whitespace, redundant parentheses, optional AS) x 4 thresholds; distinct = distinct (payload, position); non-trivial = accepted by the parser")
    rp.cov["samples"] = [{"sql": d["sql"][:160], "position": c["position"], "expected": c["expected"], "findings_low": r["runs"][0]["f"] if r["accepted"] else None}
                         for (c, li), d, r in list(zip(meta, inputs, res))[:3]]
    rp.assumptions = ["the reflective dump (harness/qast.go) is a faithful image of the parsed tree (exported fields)",
                      "Children() is field-wise uniform (C14 correspondence)",
                      "ScanSQL's regular expressions are outside the model: only the listed text variants are exercised"]
    if ok_inst and not ok_props and (ok_roots or not not_roots):
        rp.violation({"kind": "proof", "theorem": "Props/C16.v", "log": logs["props"][-3000:]}, "props_c16", no_input=True)
    if not ok_inst and not rp.violations:
        rp.violation({"kind": "proof", "theorem": "Inst_C15.em_covers_ok / Proofs", "log": logs["inst"][-3000:]}, "inst_c16", no_input=True)
    return rp.finish()


def run_sql_only(rp):
    """ScanSQL on raw texts (which need not parse): carried through the scan subcommand's sql_runs of a trivial statement"""
    p = common.vh(["scansql"], input="".join(json.dumps({"sql": t}) + "\n" for t, _, _ in SQL_PAYLOADS), timeout=300)
    if p.returncode != 0:
        rp.violation({"kind": "harness", "detail": p.stderr[-2000:]}, "scansql_harness", no_input=True)
        return None
    first = [json.loads(l)["f"] for l in p.stdout.splitlines() if l.strip()]
    # the same texts in a process whose first (and only) scanners are created with an explicit threshold
    p2 = common.vh(["scansql", "threshold-first"], input="".join(json.dumps({"sql": t}) + "\n" for t, _, _ in SQL_PAYLOADS), timeout=300)
    second = [json.loads(l)["f"] for l in p2.stdout.splitlines() if l.strip()] if p2.returncode == 0 else None
    if second is None or len(second) != len(first):
        rp.violation({"kind": "harness", "detail": (p2.stderr or "")[-2000:]}, "scansql_harness_threshold_first", no_input=True)
        return first
    for i, (a, b) in enumerate(zip(first, second)):
        if sorted((f["p"], f["s"]) for f in a) != sorted((f["p"], f["s"]) for f in b):
            rp.violation({"kind": "oracle", "property": "C16", "entry": "ScanSQL", "text": SQL_PAYLOADS[i][0], "findings_default_scanner": a, "findings_threshold_scanner_first_in_process": b,
                          "explanation": "ScanSQL of a scanner created with NewScannerWithSeverity(LOW) as the first scanner of a process reports something else than NewScanner(): a scan depends on what was constructed before"},
                         "scansql_first_scanner_%d" % i)
            break
    return first


def replay(path):
    d = json.load(open(path))
    if d.get("entry") == "ScanSQL":
        p = common.vh(["scansql"], input=json.dumps({"sql": d["text"]}) + "\n")
        fs = json.loads(p.stdout.splitlines()[0])["f"]
        ok = any(f["p"] == d["expected"][0] and f["s"] == d["expected"][1] for f in fs)
        print(json.dumps({"findings": fs}))
        return 0 if ok else 1
    inp = d.get("input")
    if not inp or "sql" not in inp:
        return 2
    p = common.vh(["scan"], input=json.dumps(dict(inp, id=0)) + "\n")
    r = json.loads(p.stdout.splitlines()[0])
    if not r["accepted"]:
        print("rejected:", r.get("err"))
        return 0
    exp = (inp["payload"]["pattern"], inp["payload"]["severity"]) if inp.get("payload") else None
    fails = check_result(r, exp)
    print(json.dumps({"failures": fails, "findings_low": r["runs"][0]["f"]}))
    return 1 if fails else 0
