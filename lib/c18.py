"""C18 — language server never dies, answers each request once, mirrors the document."""
import json, os, random, re
import common
from common import Report, log

MANIFEST = dict(
    technique='Coq proofs over byte-level models of the LSP frame reader/writer, the document mirror (UTF-8 bytes, Z positions) and the message loop, '
              'plus a protocol-level specification (UTF-16 columns, clamping); models tied to the source by differential correspondence on '
              'whole conversations of a real lsp.Server, DocumentManager histories, frame streams and an exhaustive small-document edit sweep',
    text='Theorems (no size bound): frame_roundtrip / frame_length_exact / read_all_frames (every framed body is read back exactly, header = exact byte '
         'length, streams delivered in order), read_frame_total + read_all_fuel (reader never panics or loops on any bytes), apply_change_total / '
         'dm_run_total (no edit panics for any Z range), mirror_correct / mirror_correct_edits / history_mirror (for all Z ranges, all documents of '
         'Unicode scalar values and all histories of open/change/close interleaved with other documents, the byte mirror equals the UTF-8 encoding of '
         'the document edited under the protocol rule), serve_total (loop survives every history incl. handler panics), serve_resp_ids / '
         'one_response_per_request / one_response_any_length (response ids = request ids in order, none for notifications), serve_mirror, '
         'publish_current. Refuted-theorems keep vm_compute witnesses of the two repaired crash defects. The models are compared on every run with a '
         'real Server driven over in-memory streams (frames, ids, codes, published versions, document contents after each message, survival), with the '
         'DocumentManager on edit histories, and an implementation-side oracle written on UTF-16 code-unit arrays checks all edit ranges over small '
         'documents from {a, e-acute, U+1F600, CR, LF}.',
    note=common.BASE_NOTE + 'JSON decoding is abstracted to a classification of message bodies (supplied per case by the generator), request handlers '
         'to their outcome, validateDocument to returns/panics; Go int overflow and fatal runtime errors (stack exhaustion, out of memory) are outside the '
         'model; a column inside a surrogate pair and a range whose end precedes its start are left open by the protocol (specification fixes: start of the '
         'character / empty range at start; the oracle accepts either reading). Lines end at LF, CR LF or CR.',
    design='6/C18')

MAXLEN = 10 * 1024 * 1024
MAXDOC = 5 * 1024 * 1024


def hx(b):
    return (b.encode() if isinstance(b, str) else bytes(b)).hex()


def nl(b):
    """Coq term of a byte string: short ones as a list N literal, others packed 7 bytes per primitive integer"""
    b = b.encode() if isinstance(b, str) else bytes(b)
    if len(b) > 6:
        ws = [int.from_bytes(b[i:i + 7], "little") for i in range(0, len(b), 7)]
        return "(unpack %d%%nat [%s]%%uint63)" % (len(b), ";".join(str(w) for w in ws))
    return "[" + ";".join(str(x) for x in b) + "]"


def zl(z):
    return "(%d)%%Z" % z


# --------------------------------------------------------------------------------------------------
# implementation-side oracle (python): the protocol's rule on UTF-16 code unit arrays

def u16(s):
    b = s.encode("utf-16-le")
    return [b[i] | (b[i + 1] << 8) for i in range(0, len(b), 2)]


def from_u16(u):
    return b"".join(bytes((x & 255, x >> 8)) for x in u).decode("utf-16-le")


def line_spans(u, crlf=True):
    """[(start, end)] of the lines of u (end excludes the terminator): a line ends at LF, CR LF or a CR not followed by LF"""
    spans, start, i = [], 0, 0
    while i < len(u):
        if u[i] == 10:
            spans.append((start, i)); start = i + 1
        elif crlf and u[i] == 13:
            spans.append((start, i))
            if i + 1 < len(u) and u[i + 1] == 10:
                i += 1
            start = i + 1
        i += 1
    spans.append((start, len(u)))
    return spans


def positions(u, line, char, crlf=True):
    if line < 0:
        return [0]
    spans = line_spans(u, crlf)
    if line >= len(spans):
        return [len(u)]
    start, end = spans[line]
    idx = start + min(max(char, 0), end - start)
    if start < idx < end and 0xDC00 <= u[idx] < 0xE000 and 0xD800 <= u[idx - 1] < 0xDC00:
        return [idx - 1, idx + 1]
    return [idx]


def oracle_apply(doc, rng, text, crlf=True):
    """acceptable results of replacing rng in doc by text (first = the reading the Coq specification fixes);
    LF, CRLF and CR terminate lines (LSP 3.17 text documents)"""
    u, t = u16(doc), u16(text)
    res = []
    def add(s, e):
        r = from_u16(u[:s] + t + u[e:])
        if r not in res:
            res.append(r)
    for s in positions(u, rng[0], rng[1], crlf):
        for e in positions(u, rng[2], rng[3], crlf):
            if e < s:
                add(s, s)
                add(e, s)
            else:
                add(s, e)
    return res


def apply_all_readings(wants, r, text, crlf=True):
    """one incremental change applied to every acceptable previous content (bytes); a previous content that is not
    well-formed UTF-8 (a corrupted mirror, reported when it appeared) cannot be judged further: []"""
    nw = []
    for w in wants or []:
        if not valid_utf8(w):
            return []
        for x in oracle_apply(w.decode(), r, text, crlf):
            if x.encode() not in nw:
                nw.append(x.encode())
    return nw


def valid_utf8(b):
    try:
        b.decode("utf-8")
        return True
    except UnicodeDecodeError:
        return False


# --------------------------------------------------------------------------------------------------
# generators

ALPHA = ["a", "é", "😀", "\r"]
TEXTS = ["", "X", "é", "😀", "\n", "a\nb", "é\n😀", "SELECT 1;", "  ", "x😀y\n\nz", "\r", "\r\n", "a\r\nb\rc"]


def rand_doc(rng, small=False):
    k = rng.random()
    if k < 0.5 or small:
        lines = ["".join(rng.choice(ALPHA) for _ in range(rng.randint(0, 4))) for _ in range(rng.randint(1, 3))]
        return "\n".join(lines)
    if k < 0.8:
        pool = ["SELECT a FROM t;", "SELECT 'é' FROM t;", "-- 😀 comment", "", "UPDATE t SET a = 1;", "  ", "SELECT * FROM ;", "x😀😀y", "\r", "a\r\nb"]
        return "\n".join(rng.choice(pool) for _ in range(rng.randint(1, 6)))
    return "".join(rng.choice(["a", "b", " ", "\n", "é", "😀", "\t", " ", "\r", "𝒳", "ß", "\u0000"]) for _ in range(rng.randint(0, 24)))


def rand_range(rng, doc):
    lines = re.split("\r\n|\n|\r", doc)
    def pos(kind):
        if kind == "in":
            l = rng.randrange(len(lines))
            return l, rng.randint(0, len(u16(lines[l])))
        if kind == "past":
            if rng.random() < 0.5:
                return len(lines) + rng.randint(0, 3), rng.randint(0, 5)
            l = rng.randrange(len(lines))
            return l, len(u16(lines[l])) + rng.randint(1, 4)
        if kind == "neg":
            return rng.choice([(-1, 0), (0, -1), (-3, -7), (rng.randrange(len(lines)), -1), (-1, 99)])
        return rng.choice([(2 ** 31, 0), (0, 2 ** 31 - 1), (2 ** 62, 2 ** 62), (-2 ** 63, -2 ** 63), (2 ** 63 - 1, 2 ** 63 - 1)])
    kind = rng.choices(["in", "past", "neg", "huge", "inv"], [50, 18, 14, 6, 12])[0]
    if kind == "inv":
        a, b = pos("in"), pos("in")
        if a < b:
            a, b = b, a
        return [a[0], a[1], b[0], b[1]], kind
    if kind == "in":
        a, b = pos("in"), pos("in")
        if b < a:
            a, b = b, a
        return [a[0], a[1], b[0], b[1]], kind
    a = pos(kind)
    b = pos(rng.choice(["in", kind]))
    if rng.random() < 0.5:
        a, b = b, a
    return [a[0], a[1], b[0], b[1]], kind


# --------------------------------------------------------------------------------------------------
# Coq term emitters

def range_term(r):
    return "(Range %s %s %s %s)" % tuple(zl(x) for x in r)


def change_term(c):
    if c.get("range") is None:
        return "Full %s" % nl(bytes.fromhex(c["hex"]))
    return "Incr %s %s" % (range_term(c["range"]), nl(bytes.fromhex(c["hex"])))


def obs_term(o):
    if o is None:
        return "None"
    return "(Some (%s, %s))" % (zl(o[0]), nl(o[1]))


COQ_HEAD = ("From Coq Require Import Uint63.\nFrom Coq Require Import List NArith ZArith.\nFrom GV Require Import Model.LspDoc Model.LspFrame Model.LspServe.\n"
            "Import ListNotations.\nOpen Scope N_scope.\n")


def coq_bad(name, ty, check, terms, rp, what, shard=400):
    """evaluate a boolean case check on the given terms (shards compiled in parallel); returns the indices that fail
    (None on tool failure)"""
    from concurrent.futures import ThreadPoolExecutor
    def one(si):
        part = terms[si:si + shard]
        body = COQ_HEAD + "Definition cases : list (%s) := [\n%s].\n" % (ty, ";\n".join(part))
        body += "Definition bad := Eval vm_compute in bad_indices (%s) 0 cases.\nPrint bad.\n" % check
        return si, common.coq_cases("%s_%d" % (name, si // shard), body)
    with ThreadPoolExecutor(max_workers=8) as ex:
        results = list(ex.map(one, range(0, len(terms), shard)))
    bad = []
    for si, (ok, out, err) in results:
        if not ok:
            rp.violation({"kind": "correspondence", "broken": what, "detail": err[-2000:]}, name + "_coq", no_input=True)
            return None
        bad += [si + i for i in common.parse_nlist(out)]
    return bad


# --------------------------------------------------------------------------------------------------
# frames

def frame(body, header=None):
    body = body.encode() if isinstance(body, str) else body
    if header is None:
        header = b"Content-Length: %d\r\n\r\n" % len(body)
    return header + body


def parse_out(b, exact_numbers=False):
    """strict parse of the server's output: a concatenation of 'Content-Length: N\\r\\n\\r\\n' + N bytes of JSON"""
    from decimal import Decimal
    kw = dict(parse_int=Decimal, parse_float=Decimal) if exact_numbers else {}
    msgs, i = [], 0
    while i < len(b):
        m = re.match(rb"Content-Length: (0|[1-9][0-9]*)\r\n\r\n", b[i:])
        if not m:
            return msgs, "bad header at offset %d: %r" % (i, b[i:i + 40])
        n = int(m.group(1))
        j = i + m.end()
        if j + n > len(b):
            return msgs, "announced length %d exceeds the bytes written (%d left)" % (n, len(b) - j)
        try:
            msgs.append((n, json.loads(b[j:j + n].decode("utf-8"), **kw)))
        except (ValueError, UnicodeDecodeError) as e:
            return msgs, "body of announced length %d is not one JSON value: %s" % (n, e)
        i = j + n
    return msgs, None


def gen_streams(rng, n):
    """byte streams for the frame reader: mostly valid frames with header variations, plus malformed ones"""
    streams = []
    def body(k):
        return ('{"jsonrpc":"2.0","id":%d,"method":"m%d"}' % (k, k)).encode()
    sp = [b" ", b"", b"  ", b"\t", b"\xc2\xa0", b"\xe2\x80\x83", b"\xe3\x80\x80", b"\xc2\x85", b"\x0b", b"\x0c", b"\xe1\x9a\x80", b"\xe2\x80\xa8"]
    specials = [
        b"Content-Length: -1\r\n\r\n", b"Content-Length: -5\r\n\r\nabcde", b"Content-Length: 0\r\n\r\n", b"Content-Length: +3\r\n\r\nabc",
        b"Content-Length: -0\r\n\r\n", b"Content-Length: 007\r\n\r\n1234567", b"Content-Length: 3 \r\n\r\nabc", b"Content-Length:3\r\n\r\nabc",
        b"Content-Length: 3\n\nabc", b"Content-Length: 3\r\n\r\nab", b"Content-Length: 99999999999999999999\r\n\r\nabc",
        b"Content-Length: 9223372036854775807\r\n\r\nabc", b"Content-Length: 9223372036854775808\r\n\r\nabc", b"Content-Length: -9223372036854775808\r\n\r\n",
        b"Content-Length: 10485761\r\n\r\nabc", b"Content-Length: 1_0\r\n\r\n0123456789", b"Content-Length: 0x10\r\n\r\n", b"Content-Length: 3.0\r\n\r\nabc",
        b"Content-Length: \r\n\r\n", b"Content-Length: +\r\n\r\n", b"Content-Length: -\r\n\r\n", b"content-length: 3\r\n\r\nabc", b"Content-Length : 3\r\n\r\nabc",
        b"Content-Type: x\r\nContent-Length: 2\r\n\r\n{}", b"Content-Length: 5\r\nContent-Length: 2\r\n\r\n{}xyz", b"Content-Length: 2\r\nContent-Length: x\r\n\r\n{}",
        b"\r\n\r\n", b"\n", b"", b"garbage without newline", b"Content-Length: 2", b"Content-Length: 2\r\n", b"Content-Length: 2\r\n\r\n", b"Content-Length: 2\r\n\r\n{",
        b"\xc2\xa0Content-Length: 2\xe2\x80\x83\r\n\xe3\x80\x80\r\n{}", b"Content-Length:\xc2\xa02\r\n\r\n{}", b"Content-Length: 2\xc2\r\n\r\n{}", b"Content-Length: \xa02\r\n\r\n{}",
        b"Content-Length: 2\x85\r\n\r\n{}", b"\xe2\x80Content-Length: 2\r\n\r\n{}", b"Content-Length: 2\r\n \t \r\n{}", b"Content-Length: 2\r\n\x00\r\n{}\r\n\r\n",
        b"Content-Length: 4\r\n\r\n\xf0\x9f\x98\x80", b"Content-Length: 1\r\n\r\n7",
    ]
    for s in specials:
        streams.append(s)
        streams.append(s + frame(body(1)))
        streams.append(frame(body(2)) + s + frame(body(3)))
    for i in range(n):
        parts = []
        for k in range(rng.randint(1, 4)):
            b = body(rng.randint(0, 999)) + b" " * rng.choice([0, 0, 1, 7, 100])
            r = rng.random()
            if r < 0.55:
                parts.append(frame(b))
            elif r < 0.8:
                h = rng.choice(sp) + b"Content-Length:" + rng.choice(sp) + rng.choice([b"", b"+", b"0", b"00"]) + str(len(b)).encode() + rng.choice(sp) + rng.choice([b"\r\n", b"\n"])
                if rng.random() < 0.3:
                    h += rng.choice([b"Content-Type: application/vscode-jsonrpc; charset=utf-8\r\n", b"X: y\n", b"Content-Length\r\n"])
                h += rng.choice(sp) + rng.choice([b"\r\n", b"\n"])
                parts.append(h + b)
            elif r < 0.9:
                n2 = len(b) + rng.choice([-3, -1, 1, 2, 50])
                parts.append(b"Content-Length: %d\r\n\r\n" % n2 + b)
            else:
                parts.append(bytes(rng.choice([10, 13, 32, 45, 48, 57, 58, 67, 123, 194, 160, 226, 128, 255]) for _ in range(rng.randint(1, 30))))
        streams.append(b"".join(parts))
    return streams


def item_term(it):
    if "body" in it:
        return "IBody %s" % nl(bytes.fromhex(it["body"]))
    if it.get("err"):
        return "IErr"
    if it.get("eof"):
        return "IEof"
    return "IPanic"


# --------------------------------------------------------------------------------------------------
# conversations

GOOD_SQL = ["SELECT a FROM t WHERE name LIKE 'John%';", "SELECT 10 % 3;", "SELECT a FROM t;", "SELECT 1;", "INSERT INTO t (a) VALUES (1);", "UPDATE t SET a = 1;", "DELETE FROM t WHERE a = 1;", "SELECT 'é😀' FROM t;", ""]
BAD_SQL = ["SELECT a FROM t WHERE a LIKE %;", "SELECT 100 %d %s %v FROM;", "SELECT '50%' FROM;", "SELECT * FROM ;", "SELECT FROM WHERE ;", "INSERT INTO ;", ") ;", "SELECT a FROM t WHERE ;", "UPDATE SET ;", "SELECT 'é😀' FROM ;"]


def sql_doc(rng):
    """(text, set of 0-based lines holding a broken statement); every statement sits on its own line and ends there"""
    lines, bad = [], set()
    for i in range(rng.randint(1, 6)):
        x = rng.random()
        if x < 0.12:
            # a statement spanning several lines whose offending token is not on its first line: the diagnostic belongs on
            # the line of that token
            text, off = rng.choice(BAD_MULTILINE)
            bad.add(len(lines) + off)
            lines.extend(text.split("\n"))
        elif x < 0.40:
            bad.add(len(lines)); lines.append(rng.choice(BAD_SQL))
        elif x < 0.50:
            lines.extend(rng.choice(GOOD_MULTILINE).split("\n"))
        else:
            lines.append(rng.choice(GOOD_SQL))
    return "\n".join(lines), bad


BAD_MULTILINE = [("SELECT a\nFROM t\nWHERE ;", 2), ("SELECT a,\n  b\nFROM ;", 2), ("UPDATE t\nSET ;", 1), ("SELECT *\nFROM t\nWHERE a = 1\nORDER ;", 3),
                 ("INSERT INTO t (a)\nVALUES ;", 1)]
GOOD_MULTILINE = ["SELECT a\nFROM t\nWHERE a = 1;", "UPDATE t\nSET a = 1;", "SELECT a,\n  b\nFROM t;"]


class Conv:
    """a client conversation: messages with their bytes, their decoded class for the model and what the oracles need"""
    def __init__(self):
        self.msgs = []      # dict(body=bytes, kind=..., ...)
        self.next_id = 1

    def add(self, body, **kw):
        kw["body"] = body if isinstance(body, bytes) else body.encode()
        self.msgs.append(kw)

    def req(self, method, params=None, idv=None, raw_params=None):
        if idv is None:
            idv = self.next_id; self.next_id += 1
        idv = self.fresh(idv)
        d = {"jsonrpc": "2.0", "id": idv, "method": method}
        s = json.dumps(d, ensure_ascii=False)
        if raw_params is not None:
            s = s[:-1] + ', "params": ' + raw_params + "}"
        elif params is not None:
            s = s[:-1] + ', "params": ' + json.dumps(params, ensure_ascii=False) + "}"
        self.add(s, kind="request", id=idv, method=method)

    def notif(self, method, params=None, raw_params=None, **kw):
        ascii_only = bool(kw.pop("ascii", False))     # non-ASCII text as \uXXXX escapes (surrogate pairs)
        d = {"jsonrpc": "2.0", "method": method}
        s = json.dumps(d)
        if raw_params is not None:
            s = s[:-1] + ', "params": ' + raw_params + "}"
        elif params is not None:
            s = s[:-1] + ', "params": ' + json.dumps(params, ensure_ascii=ascii_only) + "}"
        self.add(s, kind="notif", method=method, **kw)

    def fresh(self, idv):
        """ids are unique within a conversation (the model table maps a body to one handler outcome)"""
        self.used = getattr(self, "used", set())
        while idkey(idv) in self.used:
            idv = (idv - 7919) if isinstance(idv, int) else idv + "'"
        self.used.add(idkey(idv))
        return idv

    def to_json(self):
        out = []
        for m in self.msgs:
            d = dict(m)
            d["body"] = m["body"].hex()
            if isinstance(d.get("bad"), set):
                d["bad"] = sorted(d["bad"])
            if "changes" in d:
                d["changes"] = [[r, t, sorted(b) if b is not None else None] for r, t, b in d["changes"]]
            out.append(d)
        return out

    @staticmethod
    def from_json(lst):
        c = Conv()
        for d in lst:
            m = dict(d)
            m["body"] = bytes.fromhex(d["body"])
            if m.get("bad") is not None:
                m["bad"] = set(m["bad"])
            if "changes" in m:
                m["changes"] = [(r, t, set(b) if b is not None else None) for r, t, b in m["changes"]]
            c.msgs.append(m)
        return c


REQ_METHODS = ["textDocument/hover", "textDocument/completion", "textDocument/signatureHelp", "textDocument/formatting",
               "textDocument/documentSymbol", "textDocument/codeAction", "initialize", "shutdown"]


def gen_conversation(rng, nmsgs, uris=("file:///a.sql", "file:///b é😀.sql"), allow_exit=True):
    c = Conv()
    docs = {}       # uri -> current text per the client's own view (strict reading)
    version = {}
    c.req("initialize", {"processId": 1, "rootUri": "file:///", "capabilities": {}})
    c.notif("initialized", {})
    idpool = [lambda: rng.randint(-5, 10 ** 6), lambda: "s%d" % rng.randint(0, 999), lambda: rng.choice(["", "é😀", "0", "null", "%d", "100%s", "%!x"]), lambda: 2 ** 53 - rng.randint(0, 3)]
    def pos_for(u):
        d = docs.get(u, "")
        r, _ = rand_range(rng, d)
        return {"line": r[0], "character": r[1]}
    while len(c.msgs) < nmsgs:
        u = rng.choice(uris)
        k = rng.random()
        if k < 0.12 or (u not in docs and k < 0.4):
            if rng.random() < 0.6:
                text, bad = sql_doc(rng)
            else:
                text, bad = rand_doc(rng), None
            version[u] = rng.randint(0, 5)
            docs[u] = text
            c.notif("textDocument/didOpen", {"textDocument": {"uri": u, "languageId": "sql", "version": version[u], "text": text}},
                    uri=u, op="open", version=version[u], text=text, bad=bad, ascii=rng.random() < 0.3)
        elif k < 0.55:
            version[u] = version.get(u, 0) + rng.randint(1, 3)
            changes, ops = [], []
            for _ in range(rng.choice([1, 1, 1, 2, 3])):
                if rng.random() < 0.25:
                    text, bad = sql_doc(rng) if rng.random() < 0.7 else (rand_doc(rng), None)
                    changes.append({"text": text}); ops.append((None, text, bad))
                else:
                    r, kind = rand_range(rng, docs.get(u, ""))
                    text = rng.choice(TEXTS)
                    ch = {"range": {"start": {"line": r[0], "character": r[1]}, "end": {"line": r[2], "character": r[3]}}, "text": text}
                    if rng.random() < 0.3:
                        ch["rangeLength"] = rng.randint(0, 5)
                    changes.append(ch); ops.append((r, text, None))
            c.notif("textDocument/didChange", {"textDocument": {"uri": u, "version": version[u]}, "contentChanges": changes},
                    uri=u, op="change", version=version[u], changes=ops, ascii=rng.random() < 0.3)
            if u in docs:
                for r, text, _ in ops:
                    docs[u] = text if r is None else oracle_apply(docs[u], r, text)[0]
        elif k < 0.6:
            c.notif("textDocument/didClose", {"textDocument": {"uri": u}}, uri=u, op="close")
            docs.pop(u, None)
        elif k < 0.65:
            p = {"textDocument": {"uri": u}}
            if rng.random() < 0.5:
                p["text"] = rng.choice([docs.get(u, ""), "SELECT 1;", ""])
            c.notif("textDocument/didSave", p, uri=u, op="save")
        elif k < 0.85:
            m = rng.choice(REQ_METHODS[:6])
            p = {"textDocument": {"uri": u}}
            if m in ("textDocument/hover", "textDocument/completion", "textDocument/signatureHelp"):
                p["position"] = pos_for(u)
            elif m == "textDocument/formatting":
                p["options"] = {"tabSize": rng.choice([2, 4, 0, -4, 8]), "insertSpaces": rng.random() < 0.7}
            elif m == "textDocument/codeAction":
                r, _ = rand_range(rng, docs.get(u, ""))
                rg = {"start": {"line": r[0], "character": r[1]}, "end": {"line": r[2], "character": r[3]}}
                p["range"] = rg
                p["context"] = {"diagnostics": [{"range": rg, "message": rng.choice(["unexpected keyword", "expected ;", "x"]), "code": rng.choice([1, "E2002", None])}]}
            c.req(m, p, idv=rng.choice(idpool)())
        elif k < 0.89:
            c.req(rng.choice(["foo/bar", "textDocument/definition", "$/unknown", "exit", "textDocument/didOpen", "foo/%d%s", "100%/x"]), rng.choice([None, {}, [1, 2]]), idv=rng.choice(idpool)())
        elif k < 0.92:
            c.notif(rng.choice(["$/cancelRequest", "foo", "shutdown", "initialize", "workspace/didChangeConfiguration"]), rng.choice([None, {"id": 1}]))
        elif k < 0.95:
            # parameters that do not decode
            if rng.random() < 0.5:
                c.req(rng.choice(REQ_METHODS[:7]), raw_params=rng.choice(['"str"', "[1]", "7", '{"textDocument": 5}', '{"position": {"line": "x"}}', '{"position": {"line": 1e40}}']), idv=rng.choice(idpool)())
            else:
                meth = rng.choice(["textDocument/didOpen", "textDocument/didChange", "textDocument/didClose", "textDocument/didSave"])
                raws = ['"str"', "[1]", "7", '{"textDocument": 5}', '{"textDocument": {"uri": 5}}']
                if meth.endswith("didChange"):
                    raws += ['{"contentChanges": 3}', '{"textDocument": {"uri": "u", "version": "x"}}', '{"contentChanges": [{"range": {"start": {"line": 1.5}}}]}']
                c.notif(meth, raw_params=rng.choice(raws), op="badparams")
        else:
            kind = rng.choice(["garbage", "short", "mistyped", "nomethod_id", "nomethod", "array", "nullid"])
            if kind == "nullid" and getattr(c, "null_used", False):
                kind = "nomethod"
            idv = c.fresh(rng.randint(1000, 2000))
            if kind == "garbage":
                c.add(rng.choice([b"{not json", b"\xff\xfe{}", b'{"jsonrpc":"2.0","id":1,"method":"x"', b"nul", b'{"id":1,"method":"x"}}']), kind="garbage")
            elif kind == "short":
                c.add(rng.choice([b"7", b"{", b" "]), kind="short")
            elif kind == "mistyped":
                c.add('{"jsonrpc":"2.0","id":%d,"method":5}' % idv, kind="mistyped", id=idv)
            elif kind == "nomethod_id":
                c.add(rng.choice(['{"jsonrpc":"2.0","id":%d}', '{"jsonrpc":"2.0","id":%d,"method":""}', '{"jsonrpc":"2.0","id":%d,"result":{}}']) % idv, kind="nomethod", id=idv)
            elif kind == "nomethod":
                c.add(rng.choice(['{"jsonrpc":"2.0"}', '{}', '{"method":""}']), kind="nomethod", id=None)
            elif kind == "array":
                c.add(rng.choice(['[1,2]', '"str"', '12', 'null', 'true']), kind="array")
            else:
                # an id that is present but null: a request, answered with id null
                c.null_used = True
                c.add(rng.choice(['{"jsonrpc":"2.0","id":null,"method":"foo"}', '{"jsonrpc":"2.0","id":null,"method":"shutdown"}']), kind="request", id=None, method="foo")
    if allow_exit and rng.random() < 0.3:
        c.req("shutdown")
        c.notif("exit")
        c.req("textDocument/hover", {"textDocument": {"uri": uris[0]}, "position": {"line": 0, "character": 0}})
    return c, list(uris)


def idkey(v):
    return json.dumps(v, sort_keys=True, ensure_ascii=False)


def analyse_conversation(conv, uris, res, dropped):
    """oracles on one run of a real server; returns (list of problems, observed events per message, final docs, id table)"""
    problems = []
    snaps = res["snapshots"]
    nmsg = len(conv.msgs)
    if res.get("panic"):
        problems.append(("died", "server panicked: %s" % res["panic"]))
    exit_at = next((i for i, m in enumerate(conv.msgs) if m["kind"] == "notif" and m.get("method") == "exit" and i not in dropped), None)
    expect_consumed = nmsg if exit_at is None else exit_at + 1
    if not res.get("panic") and (not res.get("returned") or res["consumed"] != expect_consumed):
        problems.append(("died", "server stopped after %d of %d messages (returned=%s err=%s)" % (res["consumed"], expect_consumed, res.get("returned"), res.get("err"))))
    # output of message i = snapshot with delivered == i+1 (or the trailing snapshot)
    per_msg = [[] for _ in range(nmsg)]
    docs_after = [None] * nmsg
    seen_deliv = {}
    for sn in snaps:
        d = sn["delivered"]
        msgs, err = parse_out(bytes.fromhex(sn["out"]))
        if err:
            problems.append(("frame", err))
        if d == 0:
            if msgs:
                problems.append(("unsolicited", "output before any input"))
            continue
        if d - 1 < nmsg:
            per_msg[d - 1] += msgs
            docs_after[d - 1] = sn["docs"]
    return problems, per_msg, docs_after


def run(tier):
    rp = Report("C18", tier)
    rng = random.Random(common.seed())
    quick = tier == "quick"
    theorems = ["Props.C18.C18_frame_roundtrip", "Props.C18.C18_frame_length_exact", "Props.C18.C18_read_all_frames", "Props.C18.C18_read_frame_total",
                "Props.C18.C18_read_all_fuel", "Props.C18.C18_read_frame_unguarded_refuted", "Props.C18.C18_apply_change_total", "Props.C18.C18_dm_run_total",
                "Props.C18.C18_mirror_correct", "Props.C18.C18_mirror_correct_edits", "Props.C18.C18_history_mirror", "Props.C18.C18_serve_total",
                "Props.C18.C18_serve_resp_ids", "Props.C18.C18_one_response_per_request", "Props.C18.C18_one_response_any_length", "Props.C18.C18_serve_mirror",
                "Props.C18.C18_publish_current", "Props.C18.C18_serve_unrecovered_refuted"]
    try:
        with common.Lock():
            common.stage_harness()
            ok_inst, ok_props, full_ok, logs = common.coq_stage(
                rp, ["theories/Proofs/LspDocP.vo", "theories/Proofs/LspFrameP.vo", "theories/Proofs/LspServeP.vo", "theories/Proofs/LspMirrorP.vo"],
                "theories/Props/C18.v", theorems)
    except common.StageError as e:
        return common.stage_fail(rp, e)
    if not ok_inst:
        rp.violation({"kind": "proof", "theorem": "Proofs/Lsp*P.v", "log": logs["inst"][-3000:]}, "proofs_c18", no_input=True)
    elif not ok_props:
        rp.violation({"kind": "proof", "theorem": "Props/C18.v", "log": logs["props"][-3000:]}, "props_c18", no_input=True)
    model_ok = ok_inst

    import time
    t0 = time.time()
    def tick(what):
        log("[c18 %6.1fs] %s" % (time.time() - t0, what))
    tick("coq stage done")
    evals, nontrivial = 0, set()
    dist = {}
    def count(k, n=1):
        dist[k] = dist.get(k, 0) + n

    # ---- known / fixed findings: replay the witnesses first
    known = [k for k in common.known_findings("C18")]
    known_sigs = []
    for k in known:
        fails, detail = witness_fails(k["witness"])
        if k["status"] == "fixed":
            rp.obligation("fixed finding stays fixed: %s (%s)" % (k["key"], k.get("commit", "")), not fails, detail)
            if fails:
                rp.violation({"kind": "regression", "finding": k["key"], "commit": k.get("commit"), "witness": k["witness"], "detail": detail,
                              "explanation": "a defect repaired by a fix: commit is back"}, "regression_" + k["key"])
        else:
            if fails:
                rp.known(k["key"], k["what"])
                known_sigs.append(k)
            else:
                rp.cov["notes"].append("stale known finding (witness no longer fails): " + k["key"])

    tick("witnesses replayed")
    # ---- 1. frame reader on byte streams (hook VerifReadMessage) vs Model/LspFrame.read_all
    streams = gen_streams(rng, 400 if quick else 3000)
    p = common.vh(["lspframes"], input="".join(json.dumps({"stream": hx(s)}) + "\n" for s in streams), timeout=900)
    fr = [json.loads(l) for l in p.stdout.splitlines() if l.strip()]
    if p.returncode != 0 or len(fr) != len(streams):
        rp.violation({"kind": "harness", "cmd": "lspframes", "detail": p.stderr[-2000:]}, "lspframes_harness", no_input=True)
        fr = []
    frame_panics = 0
    for s, r in zip(streams, fr):
        evals += 1
        its = r["items"]
        count("frame_streams")
        if any("body" in it for it in its) and any(it.get("err") for it in its):
            nontrivial.add(("stream", s))
        if any("panic" in it for it in its):
            frame_panics += 1
            rp.violation({"kind": "oracle", "family": "frames", "stream_hex": hx(s), "items": its,
                          "explanation": "the frame reader panicked on this byte stream: the server dies"}, "frame_panic_%d" % frame_panics)
    if fr and model_ok:
        terms = ["(%s, [%s])" % (nl(s), "; ".join(item_term(it) for it in r["items"])) for s, r in zip(streams, fr)]
        bad = coq_bad("c18_frames", "list N * list item", "frame_case_ok %d" % MAXLEN, terms, rp, "frame reader model vs readMessage", shard=100)
        rp.obligation("correspondence: Model.LspFrame.read_all = Server.readMessage on %d byte streams" % len(terms), bad == [])
        for i in (bad or [])[:3]:
            rp.violation({"kind": "correspondence", "family": "frames", "stream_hex": hx(streams[i]), "items": fr[i]["items"],
                          "theorem": "C18_read_frame_total / C18_frame_roundtrip rely on this model",
                          "explanation": "the frame reader model and Server.readMessage disagree on this stream (no crash observed on it)"},
                         "frame_model_mismatch_%d" % i, no_input=True)

    tick("frames done")
    # ---- 2. DocumentManager histories vs Model/LspDoc.dm_run and the python oracle
    hists = gen_histories(rng, 300 if quick else 2500)
    p = common.vh(["lspdoc"], input="".join(json.dumps({"ops": h}) + "\n" for h in hists), timeout=900)
    hr = [json.loads(l) for l in p.stdout.splitlines() if l.strip()]
    if p.returncode != 0 or len(hr) != len(hists):
        rp.violation({"kind": "harness", "cmd": "lspdoc", "detail": p.stderr[-2000:]}, "lspdoc_harness", no_input=True)
        hr = []
    nviol = 0
    hist_terms = []
    for h, r in zip(hists, hr):
        evals += 1
        count("dm_histories")
        prob = check_history(h, r["steps"])
        nontrivial.add(("hist", json.dumps(h)[:300]))
        if prob and nviol < 5 and not matches_known(prob, known_sigs):
            nviol += 1
            rp.violation({"kind": "oracle", "family": "dm_history", "ops": h, "steps": r["steps"], "problem": prob,
                          "explanation": "DocumentManager history: " + prob["what"]}, "dm_history_%d" % nviol)
        hist_terms.append(history_term(h, r["steps"]))
    if hr and model_ok:
        bad = coq_bad("c18_hist", "list (dm_op * option (option (Z * list N)))", "hist_ok []", hist_terms, rp, "document mirror model vs DocumentManager", shard=60 if quick else 300)
        rp.obligation("correspondence: Model.LspDoc.dm_run = DocumentManager on %d edit histories (ASCII, non-ASCII and ill-formed UTF-8)" % len(hist_terms), bad == [])
        for i in (bad or [])[:3]:
            rp.violation({"kind": "correspondence", "family": "dm_history", "ops": hists[i], "steps": hr[i]["steps"],
                          "theorem": "C18_mirror_correct / C18_apply_change_total rely on this model",
                          "explanation": "the document mirror model and DocumentManager disagree on this history (the protocol oracle accepts the implementation's result)"},
                         "dm_model_mismatch_%d" % i, no_input=True)

    tick("histories done")
    # ---- 3. exhaustive small-document sweep (Go side, UTF-16 oracle) + cross-check of a sample
    sweeps = sweep_plan(tier)
    total_edits, total_docs, amb = 0, 0, 0
    sample = []
    sweep_desc = []
    for cfg in sweeps:
        cfg = dict(cfg, alphabet=[hx(a) for a in ALPHA], texts=[hx(t) for t in ["X", "", "é\n😀", "😀", "\r", "a\r\nb"]], seed=common.seed(), emit=120 if quick else 250, max_bad=5)
        p = common.vh(["lspsweep"], input=json.dumps(cfg) + "\n", timeout=3000)
        if p.returncode != 0 or not p.stdout.strip():
            rp.violation({"kind": "harness", "cmd": "lspsweep", "detail": p.stderr[-2000:]}, "lspsweep_harness", no_input=True)
            continue
        o = json.loads(p.stdout)
        total_edits += o["edits"]; total_docs += o["docs"]; amb += o["ambiguous"]
        sweep_desc.append({"max_lines": cfg["max_lines"], "max_chars": cfg["max_chars"], "stride": cfg["stride"], "docs": o["docs"], "edits": o["edits"],
                           "protocol_leaves_choice": o["ambiguous"], "bad": o["bad_count"], "not_the_fixed_reading": o["non_strict"]})
        for b in (o["bad"] or [])[:5]:
            if matches_known({"case": b}, known_sigs):
                continue
            rp.violation({"kind": "oracle", "family": "edit", "case": b,
                          "explanation": "edit %s of document %r by %r: got %s, the protocol rule (UTF-16 columns, clamping) gives %r" % (
                              b["range"], bytes.fromhex(b["doc"]).decode("utf-8", "replace"), bytes.fromhex(b["text"]).decode("utf-8", "replace"),
                              ("panic " + b["panic"]) if b.get("panic") else repr(bytes.fromhex(b["got"]).decode("utf-8", "replace")),
                              [bytes.fromhex(w).decode("utf-8", "replace") for w in b.get("want") or []])},
                         "edit_%s_%s" % (b["doc"][:24], "_".join(str(x) for x in b["range"])))
        if o["non_strict"] and not o["bad_count"]:
            rp.cov["notes"].append("sweep: %d edits take a reading of an under-specified position other than the one the specification fixes" % o["non_strict"])
        sample += o["sample"] or []
    evals += total_edits
    count("sweep_edits", total_edits)
    # python oracle = go oracle, and Coq model = implementation, on the sample
    py_dis = 0
    for c in sample:
        doc, text = bytes.fromhex(c["doc"]).decode(), bytes.fromhex(c["text"]).decode()
        want = [w.encode().hex() for w in oracle_apply(doc, c["range"], text)]
        nontrivial.add(("edit", c["doc"], tuple(c["range"]), c["text"]))
        if want != (c.get("want") or []) and py_dis < 3:
            py_dis += 1
            rp.violation({"kind": "oracle-disagreement", "case": c, "python": want,
                          "explanation": "the two independent implementations of the protocol rule (Go on uint16 arrays, python on utf-16-le) disagree"},
                         "oracle_disagree_%d" % py_dis, no_input=True)
    rp.obligation("oracle cross-check: python and Go implementations of the protocol rule agree on %d sampled edits" % len(sample), py_dis == 0)
    if sample and model_ok:
        terms = ["(%s, %s, %s, %s)" % (nl(bytes.fromhex(c["doc"])), range_term(c["range"]), nl(bytes.fromhex(c["text"])),
                                       "None" if c.get("panic") else "Some %s" % nl(bytes.fromhex(c["got"]))) for c in sample]
        bad = coq_bad("c18_edits", "list N * range * list N * option (list N)", "edit_case_ok", terms, rp, "applyChange model vs DocumentManager.Update")
        rp.obligation("correspondence: Model.LspDoc.apply_change = DocumentManager.Update on %d sampled sweep edits" % len(terms), bad == [])
        for i in (bad or [])[:3]:
            rp.violation({"kind": "correspondence", "family": "edit", "case": sample[i], "theorem": "C18_mirror_correct",
                          "explanation": "model and implementation disagree on this edit although the implementation's result is acceptable to the protocol oracle"},
                         "edit_model_mismatch_%d" % i, no_input=True)

    tick("sweep done")
    # ---- 4. whole conversations on a real Server
    convs = []
    for i in range(90 if quick else 600):
        convs.append(gen_conversation(rng, rng.randint(4, 40 if quick else 90)) + ({"freeze": False, "reset_at": []},))
    for i in range(2 if quick else 12):
        # beyond the limiter window, deterministically (frozen window, forced restarts)
        n = rng.randint(110, 140) if quick else rng.randint(120, 260)
        resets = sorted(rng.sample(range(1, n), rng.randint(0, 2))) if i % 2 else []
        c, uris = gen_conversation(rng, n, allow_exit=False)
        # requests of every kind at the very end: dropped by the limiter unless a restart is near
        c.req("shutdown"); c.req("foo/bar"); c.req("textDocument/hover", {"textDocument": {"uri": uris[0]}, "position": {"line": 0, "character": 0}})
        c.notif("textDocument/didSave", {"textDocument": {"uri": uris[0]}}, uri=uris[0], op="save")
        c.req("initialize", {"capabilities": {}})
        convs.append((c, uris, {"freeze": True, "reset_at": resets}))
    cr, died = serve_batch([json.dumps(dict(frames=[hx(frame(m["body"])) for m in c.msgs], uris=uris, **opt)) + "\n" for c, uris, opt in convs])
    for di, first, detail in died[:3]:
        c, uris, opt = convs[di]
        rp.violation({"kind": "oracle", "family": "conversation", "frames": [hx(frame(m["body"])) for m in c.msgs], "uris": uris, "opt": opt,
                      "messages": [m["body"].decode("utf-8", "replace") for m in c.msgs], "problem": {"class": "died", "what": "the server process was killed: " + first},
                      "detail": detail, "explanation": "conversation with a real Server: the process was killed (%s) — no client message may terminate the server" % first},
                     "conversation_died_%d" % di)
    if len(cr) != len(convs):
        rp.violation({"kind": "harness", "cmd": "lspserve", "got": len(cr), "want": len(convs)}, "lspserve_harness", no_input=True)
        cr = []
    serve_terms, serve_src = [], []
    nviol = 0
    lens_seen = set()
    stats = {"requests": 0, "responses": 0, "notifications": 0, "publish": 0, "diagnostics": 0, "edits": 0, "dropped": 0}
    for (c, uris, opt), res in zip(convs, cr):
        evals += 1
        count("conversations")
        probs, term = check_conversation(c, uris, opt, res, stats, lens_seen)
        nontrivial.add(("conv", b"|".join(m["body"] for m in c.msgs)[:400]))
        for pr in probs:
            if matches_known(pr, known_sigs):
                continue
            if nviol < 6:
                nviol += 1
                rp.violation({"kind": "oracle", "family": "conversation", "frames": [hx(frame(m["body"])) for m in c.msgs], "uris": uris, "opt": opt,
                              "messages": [m["body"].decode("utf-8", "replace") for m in c.msgs], "problem": pr, "conv": c.to_json(),
                              "explanation": "conversation with a real Server: %s" % pr["what"]}, "conversation_%s_%d" % (pr["class"], nviol))
        if term:
            serve_terms.append(term); serve_src.append((c, uris, opt, res))
    # id fidelity: numbers of any magnitude, fractions, strings
    iprobs, n = id_probe()
    evals += n
    count("id_probes", n)
    for pr in iprobs:
        if matches_known(pr, known_sigs):
            continue
        rp.violation({"kind": "oracle", "family": "probe", "probe": "id", "frames": pr.get("frames", []), "problem": pr,
                      "explanation": "the response does not carry the request's id: %s" % pr["what"]}, "id_fidelity_%d" % len(rp.violations))
    if not quick:
        oprobs, oframes, ou = oversize_probe()
        evals += 4
        count("oversize_probe", 1)
        for pr in oprobs[:2]:
            rp.violation({"kind": "oracle", "family": "probe", "probe": "oversize", "frames": oframes, "uris": [ou], "problem": pr,
                          "explanation": pr["what"]}, "oversize_%s" % pr["class"])
    tick("conversations run and judged")
    # streams with broken framing between well-formed messages
    bconvs = []
    for i in range(40 if quick else 200):
        c, uris = gen_conversation(rng, rng.randint(3, 12))
        bconvs.append((c, uris, corrupt_framing(rng, c)))
    inp = "".join(json.dumps(dict(frames=[hx(f) for f in frames], uris=uris)) + "\n" for c, uris, frames in bconvs)
    p = common.vh(["lspserve"], input=inp, timeout=1800)
    br = [json.loads(l) for l in p.stdout.splitlines() if l.strip()]
    if p.returncode != 0 or len(br) != len(bconvs):
        rp.violation({"kind": "harness", "cmd": "lspserve", "detail": p.stderr[-2000:]}, "lspserve_harness2", no_input=True)
        br = []
    for (c, uris, frames), res in zip(bconvs, br):
        evals += 1
        count("conversations_bad_framing")
        probs, term = check_stream(c, uris, frames, res, lens_seen)
        for pr in probs:
            if nviol < 8:
                nviol += 1
                rp.violation({"kind": "oracle", "family": "stream", "frames": [hx(f) for f in frames], "uris": uris, "problem": pr, "conv": c.to_json(),
                              "explanation": "byte stream with broken framing on a real Server: %s" % pr["what"]}, "stream_%s_%d" % (pr["class"], nviol))
        if term:
            serve_terms.append(term); serve_src.append((c, uris, {"frames": frames}, res))
    tick("streams run and judged")
    if serve_terms and model_ok:
        bad = coq_bad("c18_serve", "serve_case", "serve_case_ok %d %d" % (MAXLEN, MAXDOC), serve_terms, rp, "message loop model vs Server.Run", shard=8 if quick else 40)
        rp.obligation("correspondence: frame reader + message loop + mirror models = real Server on %d conversations (ids, codes, published versions, mirror after each message, survival)" % len(serve_terms), bad == [])
        for i in (bad or [])[:3]:
            c, uris, opt, res = serve_src[i]
            rp.violation({"kind": "correspondence", "family": "conversation", "messages": [m["body"].decode("utf-8", "replace") for m in c.msgs], "opt": {k: v for k, v in opt.items() if k != "frames"},
                          "frames": [hx(f) for f in opt["frames"]] if "frames" in opt else [hx(frame(m["body"])) for m in c.msgs], "uris": uris,
                          "theorem": "C18_serve_total / C18_one_response_per_request / C18_serve_mirror rely on this model",
                          "explanation": "the message loop model and the real Server disagree on this conversation although the implementation-side oracles pass"},
                         "serve_model_mismatch_%d" % i, no_input=True)
    tick("serve model evaluated")
    # header bytes of every distinct outgoing length vs the writer model
    if lens_seen and model_ok:
        ls = sorted(lens_seen)
        terms = ["(%d, %s)" % (n, nl(b"Content-Length: %d\r\n\r\n" % n)) for n in ls]
        bad = coq_bad("c18_headers", "N * list N", "header_case_ok", terms, rp, "frame writer model vs sendMessage")
        rp.obligation("correspondence: Model.LspFrame.frame_header = the header bytes written by sendMessage for %d distinct body lengths" % len(ls), bad == [])
        if bad:
            rp.violation({"kind": "correspondence", "family": "header", "lengths": [ls[i] for i in bad[:10]]}, "header_model_mismatch", no_input=True)

    rp.cov["evaluations"] = evals
    rp.cov["distinct_nontrivial"] = len(nontrivial)
    rp.cov["rule"] = ("inputs: byte streams for the frame reader (valid frames with header/white-space/sign variations + malformed), DocumentManager edit histories "
                      "(ASCII, non-ASCII, ill-formed UTF-8; in-range, past-end, inverted, negative and huge ranges), all edit ranges over small documents from "
                      "{a, é, U+1F600, LF} (quick: strided sample; thorough: see sweep), whole conversations with a real Server (every request kind, unknown methods, "
                      "malformed JSON, undecodable params, exit, beyond the limiter window with a frozen window) and conversations with corrupted framing; "
                      "non-trivial = stream with both a delivered body and a reader error, history, sampled sweep edit or conversation, distinct by content")
    rp.cov["distribution"] = dist
    rp.cov["sweep"] = sweep_desc
    rp.cov["sweep_exhaustive"] = [d for d in sweep_desc if d["stride"] == 1]
    rp.cov["conversation_stats"] = stats
    rp.cov["distinct_outgoing_lengths"] = len(lens_seen)
    rp.cov["traces_validated_against_model"] = len(serve_terms) + len(hist_terms) + len(sample) + len(fr)
    rp.cov["samples"] = [{"conversation": [m["body"].decode("utf-8", "replace")[:160] for m in convs[0][0].msgs[:6]]} if convs else {},
                         {"edit": sample[0]} if sample else {}, {"stream": streams[5].decode("latin1")}]
    rp.assumptions = ["JSON decoding abstracted: message bodies are classified (request/notification/malformed) by the generator; encoding/json itself is trusted",
                      "request handlers abstracted to result/error/panic; validateDocument to returns/panics",
                      "Go int overflow and fatal runtime errors (stack exhaustion, OOM) not modelled",
                      "columns inside a surrogate pair and inverted ranges are under-specified by the protocol (oracle accepts both readings)"]
    return rp.finish()


# --------------------------------------------------------------------------------------------------
# DocumentManager histories

def gen_histories(rng, n):
    hs = []
    for i in range(n):
        ops = []
        uris = ["u", "v"]
        cur = {}
        for _ in range(rng.randint(2, 9)):
            u = rng.choice(uris)
            k = rng.random()
            if k < 0.25 or u not in cur:
                if rng.random() < 0.12:
                    b = bytes(rng.choice([97, 10, 0xC3, 0xA9, 0xF0, 0x9F, 0x98, 0x80, 0xED, 0xA0, 0x80, 0xFF, 0xC0, 0xE2]) for _ in range(rng.randint(0, 10)))
                else:
                    b = rand_doc(rng).encode()
                cur[u] = b
                ops.append({"op": "open", "uri": u, "version": rng.randint(-1, 9), "hex": b.hex()})
            elif k < 0.9:
                chs = []
                for _ in range(rng.choice([1, 1, 2, 3])):
                    if rng.random() < 0.15:
                        t = rand_doc(rng, small=True).encode()
                        chs.append({"range": None, "hex": t.hex()})
                        cur[u] = t
                    else:
                        base = cur[u].decode("utf-8", "replace")
                        r, _ = rand_range(rng, base)
                        t = rng.choice(TEXTS).encode() if rng.random() < 0.9 else bytes([0xF0, 0x9F, 0x98])
                        chs.append({"range": r, "hex": t.hex()})
                        if valid_utf8(cur[u]) and valid_utf8(t):
                            cur[u] = oracle_apply(cur[u].decode(), r, t.decode())[0].encode()
                ops.append({"op": "change", "uri": u, "version": rng.randint(0, 99), "changes": chs})
            else:
                ops.append({"op": "close", "uri": u})
                cur.pop(u, None)
        hs.append(ops)
    return hs


def check_history(ops, steps):
    """python oracle, step by step relative to the implementation's own previous content"""
    cur = {}
    for i, o in enumerate(ops):
        if i >= len(steps):
            return {"class": "died", "what": "history stopped at step %d" % i, "step": i}
        st = steps[i]
        if st.get("panic"):
            return {"class": "died", "what": "step %d (%s) panicked: %s" % (i, o["op"], st["panic"]), "step": i, "op": o}
        u = o["uri"]
        if o["op"] == "open":
            want = [bytes.fromhex(o["hex"])]
            wv = o["version"]
        elif o["op"] == "close":
            if st["present"]:
                return {"class": "mirror", "what": "document still present after close", "step": i}
            cur.pop(u, None)
            continue
        else:
            if u not in cur:
                if st["present"]:
                    return {"class": "mirror", "what": "change of a document that is not open created it", "step": i}
                continue
            want = [cur[u][1]]
            wv = o["version"]
            for ch in o["changes"]:
                t = bytes.fromhex(ch["hex"])
                if ch["range"] is None:
                    want = [t]
                elif all(valid_utf8(w) for w in want) and valid_utf8(t):
                    want = apply_all_readings(want, ch["range"], t.decode())
                else:
                    want = None   # ill-formed UTF-8: the protocol rule does not apply; only survival and the model are checked
                    break
        if not st["present"]:
            return {"class": "mirror", "what": "document absent after %s" % o["op"], "step": i}
        got = bytes.fromhex(st["hex"])
        if want is not None and got not in want:
            return {"class": "mirror", "what": "step %d: content %r, protocol rule gives %r" % (i, got.decode("utf-8", "replace"), [w.decode("utf-8", "replace") for w in want]),
                    "step": i, "op": o, "before": cur.get(u, (None, b""))[1].hex()}
        if st["version"] != wv:
            return {"class": "version", "what": "step %d: version %d, expected %d" % (i, st["version"], wv), "step": i}
        cur[u] = (st["version"], got)
    return None


def uri_term(u):
    return nl(u.encode())


def history_term(ops, steps):
    parts = []
    for i, o in enumerate(ops):
        if i >= len(steps):
            break
        st = steps[i]
        if o["op"] == "open":
            t = "OpOpen %s %s %s" % (uri_term(o["uri"]), zl(o["version"]), nl(bytes.fromhex(o["hex"])))
        elif o["op"] == "close":
            t = "OpClose %s" % uri_term(o["uri"])
        else:
            t = "OpChange %s %s [%s]" % (uri_term(o["uri"]), zl(o["version"]), "; ".join(change_term(c) for c in o["changes"]))
        if st.get("panic"):
            parts.append("(%s, None)" % t)
            break
        obs = (st["version"], bytes.fromhex(st["hex"])) if st["present"] else None
        parts.append("(%s, Some %s)" % (t, obs_term(obs)))
    return "[" + "; ".join(parts) + "]"


# --------------------------------------------------------------------------------------------------
# sweep plan

def sweep_plan(tier):
    """documents = 1..max_lines rows joined by LF, each row <= max_chars characters from {a, é, U+1F600, CR}
    (so CR LF, lone CR and CR CR LF all occur); all ranges with every coordinate in [-1, max+1]"""
    if tier == "quick":
        # every 25999th document of 3 x 4 (39.8 M documents), all documents of 2 x 2
        return [dict(max_lines=3, max_chars=4, stride=25999), dict(max_lines=2, max_chars=2, stride=1)]
    return [dict(max_lines=3, max_chars=2, stride=1), dict(max_lines=2, max_chars=3, stride=1), dict(max_lines=3, max_chars=3, stride=7),
            dict(max_lines=2, max_chars=4, stride=2), dict(max_lines=3, max_chars=4, stride=997)]


# --------------------------------------------------------------------------------------------------
# conversation checks

CODES = {-32700: "parse_error", -32600: "invalid_request", -32603: "internal_error", -32800: "request_cancelled"}


def dropped_indices(n, opt):
    """which message indices the limiter drops (frozen window: deterministic)"""
    if not opt.get("freeze"):
        return set()
    out, cnt = set(), 0
    resets = set(opt.get("reset_at") or [])
    for i in range(n):
        if i in resets:
            cnt = 1
        else:
            cnt += 1
            if cnt > 100:
                out.add(i)
    return out


def amsg_term(m, idn, kinds):
    k = m["kind"]
    if k == "short":
        return "MShort"
    if k in ("garbage",):
        return "MGarbage"
    if k == "array":
        return "MGarbage" if len(m["body"]) >= 2 else "MShort"
    if k == "mistyped":
        return "MMistyped %d" % idn(m["id"])
    if k == "nomethod":
        return "MNoMethod %s" % ("None" if m["id"] is None else "(Some %d)" % idn(m["id"]))
    if k == "request":
        return "MRequest %d %s" % (idn(m["id"]), kinds.get(idkey(m["id"]), "ROk"))
    op = m.get("op")
    if op == "open":
        return "MNotif (NDidOpen %s %s %s)" % (uri_term(m["uri"]), zl(m["version"]), nl(m["text"]))
    if op == "change":
        cs = []
        for r, text, _ in m["changes"]:
            cs.append("Full %s" % nl(text) if r is None else "Incr %s %s" % (range_term(r), nl(text)))
        return "MNotif (NDidChange %s %s [%s])" % (uri_term(m["uri"]), zl(m["version"]), "; ".join(cs))
    if op == "close":
        return "MNotif (NDidClose %s)" % uri_term(m["uri"])
    if op == "save":
        body = json.loads(m["body"])
        return "MNotif (NDidSave %s %s)" % (uri_term(m["uri"]), nl(body["params"].get("text", "")))
    if op == "badparams":
        return "MNotif NBadParams"
    if m.get("method") == "exit":
        return "MNotif NExit"
    return "MNotif NOther"


def out_events(msgs, idn, probs, where):
    """observed frames -> (oevent terms, responses [(idkey, has_result, code)], publishes)"""
    evs, resps, pubs = [], [], []
    for n, j in msgs:
        if not isinstance(j, dict) or j.get("jsonrpc") != "2.0":
            probs.append({"class": "frame", "what": "%s: outgoing message is not a JSON-RPC 2.0 object: %r" % (where, j)})
            continue
        if "method" in j and "id" not in j:
            if j["method"] == "textDocument/publishDiagnostics":
                pr = j.get("params") or {}
                diags = pr.get("diagnostics") or []
                pubs.append(pr)
                evs.append("OPub %s %s %s" % (uri_term(pr.get("uri", "")), zl(pr.get("version", 0)), "true" if not diags else "false"))
            elif j["method"] == "window/showMessage":
                evs.append("OShow")
            else:
                probs.append({"class": "frame", "what": "%s: unexpected server notification %s" % (where, j["method"])})
        elif "id" in j or "result" in j or "error" in j:
            has_res = "error" not in j
            code = None if has_res else j["error"].get("code")
            resps.append((idkey(j.get("id")), has_res, code))
            kind = "KResult" if has_res else "(KErr %s)" % zl(code if isinstance(code, int) else 0)
            evs.append("OResp %d %s" % (idn(j.get("id")), kind))
        else:
            probs.append({"class": "frame", "what": "%s: outgoing message is neither response nor notification: %r" % (where, j)})
    return evs, resps, pubs


def check_conversation(c, uris, opt, res, stats, lens_seen):
    probs = []
    ids = {}
    def idn(v):
        return ids.setdefault(idkey(v), len(ids) + 1)
    nmsg = len(c.msgs)
    dropped = dropped_indices(nmsg, opt)
    base_probs, per_msg, docs_after = analyse_conversation(c, uris, res, dropped)
    for cl, what in base_probs:
        probs.append({"class": cl, "what": what})
    exit_at = next((i for i, m in enumerate(c.msgs) if m["kind"] == "notif" and m.get("method") == "exit" and i not in dropped), None)
    last = nmsg if exit_at is None else exit_at + 1
    oevs = []
    kinds = {}
    cur = {}     # uri -> (version, text bytes) as observed after the previous message
    for i, m in enumerate(c.msgs):
        msgs = per_msg[i]
        for n, _ in msgs:
            lens_seen.add(n)
        where = "message %d (%s)" % (i, m["body"][:80].decode("utf-8", "replace"))
        evs, resps, pubs = out_events(msgs, idn, probs, where)
        if i >= last:
            if msgs:
                probs.append({"class": "after_exit", "what": "%s: output after the exit notification" % where})
            continue
        # ---- exactly one response per request, none for notifications
        if m["kind"] == "request":
            stats["requests"] += 1
            want = idkey(m["id"])
            if len(resps) != 1 or resps[0][0] != want:
                probs.append({"class": "response", "what": "%s: request id %s answered by %s" % (where, want, [r[0] for r in resps]), "id": m["id"]})
            else:
                stats["responses"] += 1
                kinds[want] = "ROk" if resps[0][1] else "RErr"
                if i in dropped and resps[0][2] != -32800:
                    probs.append({"class": "response", "what": "%s: a request dropped by the limiter must be answered with RequestCancelled" % where})
        elif m["kind"] == "notif":
            stats["notifications"] += 1
            if resps:
                probs.append({"class": "response", "what": "%s: a notification was answered: %s" % (where, resps)})
        elif m["kind"] in ("mistyped", "nomethod") and m.get("id") is not None:
            if len(resps) > 1 or (resps and resps[0][0] != idkey(m["id"])):
                probs.append({"class": "response", "what": "%s: malformed body with id answered by %s" % (where, resps)})
        elif resps:
            probs.append({"class": "response", "what": "%s: a body without a recoverable id was answered: %s" % (where, resps)})
        # ---- mirror: protocol rule relative to the previous observed content
        op = m.get("op")
        obs = docs_after[i] or {}
        if i in dropped:
            stats["dropped"] += 1
        if op in ("open", "change", "close") and i not in dropped:
            u = m["uri"]
            o = obs.get(u)
            got = None if o is None else (o["version"], bytes.fromhex(o["hex"]))
            if op == "open":
                want = [m["text"].encode()]
            elif op == "close":
                want = None
                if got is not None:
                    probs.append({"class": "mirror", "what": "%s: document still mirrored after didClose" % where})
            elif u not in cur:
                want = None
                if got is not None:
                    probs.append({"class": "mirror", "what": "%s: change of a document that is not open created a mirror" % where})
            else:
                want = [cur[u][1]]
                for r, text, _ in m["changes"]:
                    stats["edits"] += 1
                    if r is None:
                        want = [text.encode()]
                    else:
                        want = apply_all_readings(want, r, text)
                if not want:
                    want = None
            if want is not None:
                if got is None:
                    probs.append({"class": "mirror", "what": "%s: document not mirrored" % where})
                elif got[1] not in want:
                    probs.append({"class": "mirror", "what": "%s: mirror is %r, the edits under the protocol rule give %r (before: %r)" % (
                        where, got[1].decode("utf-8", "replace"), [w.decode("utf-8", "replace") for w in want], cur.get(u, (0, b""))[1].decode("utf-8", "replace")),
                        "before": cur.get(u, (0, b""))[1].hex(), "changes": m.get("changes")})
                elif got[0] != m["version"]:
                    probs.append({"class": "version", "what": "%s: mirrored version %s, expected %s" % (where, got[0], m["version"])})
            if got is None:
                cur.pop(u, None)
            else:
                cur[u] = got
            evs.append("OState %s %s" % (uri_term(u), obs_term(got)))
            # ---- diagnostics: published for this text and version, anchored on the line of the offending token
            if op in ("open", "change") and got is not None:
                mine = [p for p in pubs if p.get("uri") == u]
                if len(mine) != 1:
                    probs.append({"class": "diagnostics", "what": "%s: %d publishDiagnostics for the document, expected 1" % (where, len(mine))})
                else:
                    stats["publish"] += 1
                    pr = mine[0]
                    if pr.get("version", 0) != m["version"]:
                        probs.append({"class": "diagnostics", "what": "%s: diagnostics published for version %s, the text has version %s" % (where, pr.get("version", 0), m["version"])})
                    bad = m.get("bad") if op == "open" else (m["changes"][-1][2] if m["changes"][-1][0] is None else None)
                    diags = pr.get("diagnostics") or []
                    stats["diagnostics"] += len(diags)
                    nlines = got[1].count(b"\n") + 1
                    for d in diags:
                        ln = d["range"]["start"]["line"]
                        if not (0 <= ln < nlines) or d["range"]["end"]["line"] != ln:
                            probs.append({"class": "diagnostics", "what": "%s: diagnostic on line %s of a %d-line document" % (where, ln, nlines), "diag": d})
                        elif bad is not None and ln not in bad:
                            probs.append({"class": "diagnostics", "what": "%s: diagnostic %r anchored on line %d; the broken statements are on lines %s" % (where, d.get("message", "")[:80], ln, sorted(bad)),
                                          "diag": d, "text": got[1].decode("utf-8", "replace")})
                    if bad is not None and bool(diags) != bool(bad):
                        probs.append({"class": "diagnostics", "what": "%s: %d diagnostics for a text with broken lines %s" % (where, len(diags), sorted(bad)), "text": got[1].decode("utf-8", "replace")})
        oevs += evs
    # model case (every body is bound once and used for the stream and for the classification table)
    tbl, seen, lets = [], {}, []
    for m in c.msgs:
        if m["body"] in seen:
            continue
        seen[m["body"]] = "b%d" % len(seen)
        lets.append("let %s := %s in" % (seen[m["body"]], nl(m["body"])))
        tbl.append("(%s, %s)" % (seen[m["body"]], amsg_term(m, idn, kinds)))
    final = []
    lastdocs = res["snapshots"][-1]["docs"] if res["snapshots"] else {}
    for u in uris:
        o = lastdocs.get(u)
        final.append("(%s, %s)" % (uri_term(u), obs_term(None if o is None else (o["version"], bytes.fromhex(o["hex"])))))
    stream = "(" + " ++ ".join("%s ++ %s" % (nl(b"Content-Length: %d\r\n\r\n" % len(m["body"])), seen[m["body"]]) for m in c.msgs) + ")"
    alive = not res.get("panic") and res.get("returned")
    term = "(%s ServeCase %s [%s] [%s] true [%s] [%s] %s)" % (
        " ".join(lets), stream, "; ".join(tbl), "; ".join("%d%%nat" % k for k in (opt.get("reset_at") or [])), "; ".join(oevs), "; ".join(final), "true" if alive else "false")
    return probs, term


def corrupt_framing(rng, c):
    """frames of a conversation with framing damage in between (the JSON bodies stay intact where delivered)"""
    frames = []
    for m in c.msgs:
        r = rng.random()
        b = m["body"]
        if r < 0.6:
            frames.append(frame(b))
        elif r < 0.7:
            frames.append(b"Content-Length: -%d\r\n\r\n" % len(b))
        elif r < 0.78:
            frames.append(b"Content-Length: %d\r\n\r\n" % (len(b) - rng.randint(1, 5)) + b)
        elif r < 0.86:
            frames.append(rng.choice([b"X-Garbage\r\n", b"Content-Length: abc\r\n\r\n", b"\r\n", b"Content-Length: 0\r\n\r\n", b"Content-Length: 99999999999\r\n\r\n"]))
            frames.append(frame(b))
        elif r < 0.93:
            frames.append(b"Content-Length:\xc2\xa0+%d \r\nContent-Type: x\r\n\r\n" % len(b) + b)
        else:
            fb = frame(b)
            k = rng.randint(1, len(fb) - 1)
            frames += [fb[:k], fb[k:]]
    return frames


def check_stream(c, uris, frames, res, lens_seen):
    """a stream whose framing is damaged: the server must survive, every outgoing frame must be exact, every
    response id must be the id of a client body; the model is compared on the whole output"""
    probs = []
    ids = {}
    def idn(v):
        return ids.setdefault(idkey(v), len(ids) + 1)
    if res.get("panic"):
        probs.append({"class": "died", "what": "server panicked: %s" % res["panic"]})
    elif not res.get("returned"):
        probs.append({"class": "died", "what": "server did not return at end of input"})
    out = b"".join(bytes.fromhex(sn["out"]) for sn in res["snapshots"])
    msgs, err = parse_out(out)
    if err:
        probs.append({"class": "frame", "what": err})
    for n, _ in msgs:
        lens_seen.add(n)
    evs, resps, pubs = out_events(msgs, idn, probs, "stream")
    def has_id(m):
        return m.get("id") is not None or (m["kind"] == "request" and "id" in m)
    known_ids = {idkey(m["id"]) for m in c.msgs if has_id(m)}
    seen = {}
    for r in resps:
        if r[0] not in known_ids:
            probs.append({"class": "response", "what": "response with id %s that no client message carries" % r[0]})
        seen[r[0]] = seen.get(r[0], 0) + 1
    cnt = {}
    for m in c.msgs:
        if has_id(m):
            cnt[idkey(m["id"])] = cnt.get(idkey(m["id"]), 0) + 1
    for k, v in seen.items():
        if v > cnt.get(k, 0):
            probs.append({"class": "response", "what": "id %s answered %d times, sent %d times" % (k, v, cnt.get(k, 0))})
    kinds = {}
    for r in resps:
        kinds.setdefault(r[0], "ROk" if r[1] else "RErr")
    tbl, sb = [], set()
    for m in c.msgs:
        if m["body"] in sb:
            continue
        sb.add(m["body"])
        tbl.append("(%s, %s)" % (nl(m["body"]), amsg_term(m, idn, kinds)))
    final = []
    lastdocs = res["snapshots"][-1]["docs"] if res["snapshots"] else {}
    for u in uris:
        o = lastdocs.get(u)
        final.append("(%s, %s)" % (uri_term(u), obs_term(None if o is None else (o["version"], bytes.fromhex(o["hex"])))))
    stream = b"".join(frames)
    alive = not res.get("panic") and res.get("returned")
    # a request id may be answered with ROk here and RErr there only if the same body is handled twice: not generated
    term = "ServeCase %s [%s] [] false [%s] [%s] %s" % (nl(stream), "; ".join(tbl), "; ".join(evs), "; ".join(final), "true" if alive else "false")
    return probs, term


# --------------------------------------------------------------------------------------------------
# oversize probe (thorough): a document above MaxDocumentSize is still mirrored, edited under the protocol rule
# and never validated; the server survives (judged by the oracles only: the text is too large for a Coq case)

def oversize_probe():
    u = "file:///big.sql"
    line = "SELECT 'é😀' FROM t; -- padding padding padding padding padding padding\n"
    text = line * (MAXDOC // len(line.encode()) + 2)
    msgs = [
        {"jsonrpc": "2.0", "method": "textDocument/didOpen", "params": {"textDocument": {"uri": u, "languageId": "sql", "version": 1, "text": text}}},
        {"jsonrpc": "2.0", "method": "textDocument/didChange", "params": {"textDocument": {"uri": u, "version": 2}, "contentChanges": [
            {"range": {"start": {"line": 1, "character": 10}, "end": {"line": 1, "character": 12}}, "text": "X"}]}},
        {"jsonrpc": "2.0", "id": 1, "method": "textDocument/documentSymbol", "params": {"textDocument": {"uri": u}}},
        {"jsonrpc": "2.0", "method": "textDocument/didChange", "params": {"textDocument": {"uri": u, "version": 3}, "contentChanges": [
            {"range": {"start": {"line": 1, "character": 0}, "end": {"line": 2 ** 40, "character": 0}}, "text": ""}]}},
    ]
    frames = [frame(json.dumps(m, ensure_ascii=False)) for m in msgs]
    p = common.vh(["lspserve"], input=json.dumps({"frames": [hx(f) for f in frames], "uris": [u]}) + "\n", timeout=600)
    r = first_row(p)
    probs = []
    if r.get("panic") or not r.get("returned"):
        probs.append({"class": "died", "what": "oversize document: server died: %s" % r.get("panic")})
    want1 = oracle_apply(text, [1, 10, 1, 12], "X")[0]
    want2 = oracle_apply(want1, [1, 0, 2 ** 40, 0], "")[0]
    exp = {1: (1, text), 2: (2, want1), 3: (2, want1), 4: (3, want2)}
    for sn in r["snapshots"]:
        d = sn["delivered"]
        msgs_out, err = parse_out(bytes.fromhex(sn["out"]))
        if err:
            probs.append({"class": "frame", "what": "oversize document: " + err})
        if d in exp:
            o = sn["docs"].get(u)
            if o is None or o["version"] != exp[d][0] or bytes.fromhex(o["hex"]) != exp[d][1].encode():
                probs.append({"class": "mirror", "what": "oversize document: mirror after message %d is not the text under the protocol rule (version %s, %d bytes; expected version %d, %d bytes)" % (
                    d, o and o["version"], len(o["hex"]) // 2 if o else -1, exp[d][0], len(exp[d][1].encode()))})
        for n, j in msgs_out:
            if d in (1, 2) and j.get("method") == "textDocument/publishDiagnostics" and (j["params"].get("diagnostics") or []):
                probs.append({"class": "diagnostics", "what": "oversize document: diagnostics published for a document above the size limit"})
        if d == 3 and [j.get("id") for n, j in msgs_out if "method" not in j] != [1]:
            probs.append({"class": "response", "id": 1, "what": "oversize document: request 1 not answered exactly once"})
    return probs, [hx(f) for f in frames], u


# --------------------------------------------------------------------------------------------------
# id fidelity probe: the response must carry the request's id (numbers compared by exact value)

RAW_IDS = ['9007199254740993', '-9007199254740993', '18446744073709551616', '1e2', '1.5', '0.1', '-0', '4294967296', '-1',
           '123456789012345678901234567890', '"9007199254740993"', '"1e2"', '9007199254740992', '1.0', 'null', '1E+400', '""', '"é😀<&>"']


def id_probe():
    from decimal import Decimal
    frames = [frame('{"jsonrpc":"2.0","id":%s,"method":"textDocument/documentSymbol","params":{"textDocument":{"uri":"x"}}}' % r) for r in RAW_IDS]
    p = common.vh(["lspserve"], input=json.dumps({"frames": [hx(f) for f in frames], "uris": []}) + "\n")
    r = first_row(p)
    probs = []
    if r.get("panic") or not r.get("returned"):
        probs.append({"class": "died", "what": "id probe: server died: %s" % r.get("panic")})
    for i, raw in enumerate(RAW_IDS):
        sn = [x for x in r["snapshots"] if x["delivered"] == i + 1]
        msgs, err = parse_out(b"".join(bytes.fromhex(x["out"]) for x in sn), exact_numbers=True)
        want = json.loads(raw, parse_int=Decimal, parse_float=Decimal)
        got = [j.get("id") for n, j in msgs if isinstance(j, dict) and "method" not in j]
        same = len(got) == 1 and type(got[0]) == type(want) and got[0] == want
        # numbers and null are echoed literally
        rawout = b"".join(bytes.fromhex(x["out"]) for x in sn)
        if same and not raw.startswith('"') and (b'"id":' + raw.encode() + b',') not in rawout:
            same = False
        if err or not same:
            idv = int(want) if isinstance(want, Decimal) and want == want.to_integral_value() else None
            probs.append({"class": "response", "id": idv, "what": "request id %s answered with id(s) %s" % (raw, [str(g) for g in got]),
                          "frames": [hx(frames[i])]})
    return probs, len(RAW_IDS)


# --------------------------------------------------------------------------------------------------
# known findings, witnesses, replay

def matches_known(prob, known_sigs):
    for k in known_sigs:
        sig = k.get("signature", {})
        if sig.get("kind") == "response_id" and prob.get("class") == "response":
            idv = prob.get("id")
            if isinstance(idv, int) and abs(idv) > 2 ** 53:
                return k
    return None


class _Died(dict):
    """result row standing for a harness process that died while serving this input"""


def first_row(p):
    """first JSON line of a harness run; a process that died (panic in a goroutine nobody recovers, fatal error) yields
    a row that says so instead of an exception in the check"""
    lines = [l for l in p.stdout.splitlines() if l.strip()]
    if lines:
        return json.loads(lines[0])
    m = re.search(r"(?m)^(panic: .*|fatal error: .*)$", p.stderr or "")
    return _Died(panic="process died: " + (m.group(1) if m else "exit %s" % p.returncode), returned=False, snapshots=[], items=[{"panic": "process died"}], got=None)


def serve_batch(lines, timeout=1800):
    """run the lspserve harness over many conversations; when the process dies on one of them (a panic outside every
    recover kills the harness exactly as it would kill the language server), that conversation gets a 'died' row and
    the rest is run in a new process"""
    rows, i, died = [], 0, []
    while i < len(lines):
        p = common.vh(["lspserve"], input="".join(lines[i:]), timeout=timeout)
        got = [json.loads(l) for l in p.stdout.splitlines() if l.strip()]
        rows += got
        i += len(got)
        if i < len(lines) and (p.returncode != 0 or not got):
            m = re.search(r"(?m)^(panic: .*|fatal error: .*)$", p.stderr or "")
            died.append((i, (m.group(1) if m else "exit %s" % p.returncode), (p.stderr or "")[:1500]))
            rows.append(_Died(panic="process died: " + (m.group(1) if m else "exit %s" % p.returncode), returned=False, snapshots=[]))
            i += 1
            if len(died) > 5:
                break
        elif not got:
            break
    return rows, died


def witness_fails(w):
    """re-execute a witness (or each of a list) against the implementation; returns (fails, detail)"""
    if isinstance(w, list):
        rs = [witness_fails(x) for x in w]
        return any(f for f, _ in rs), "; ".join(d for f, d in rs if f)[:300]
    kind = w.get("kind")
    if kind == "edit":
        p = common.vh(["lspedit"], input=json.dumps({"doc": w["doc"], "range": w["range"], "text": w["text"]}) + "\n")
        r = first_row(p)
        want = [x.encode().hex() for x in oracle_apply(bytes.fromhex(w["doc"]).decode(), w["range"], bytes.fromhex(w["text"]).decode())]
        ok = (not r.get("panic")) and r["got"] in want
        return (not ok), ("panic: " + r["panic"]) if r.get("panic") else "got %s want %s" % (r["got"], want)
    if kind == "frames":
        p = common.vh(["lspframes"], input=json.dumps({"stream": w["stream"]}) + "\n")
        r = first_row(p)
        bad = [it for it in r["items"] if "panic" in it]
        return bool(bad), json.dumps(bad)[:300]
    if kind == "conversation":
        p = common.vh(["lspserve"], input=json.dumps({"frames": w["frames"], "uris": w.get("uris", [])}) + "\n")
        r = first_row(p)
        out = b"".join(bytes.fromhex(sn["out"]) for sn in r["snapshots"])
        msgs, err = parse_out(out)
        problems = []
        if r.get("panic") or not r.get("returned"):
            problems.append("server died: %s" % r.get("panic"))
        if err:
            problems.append(err)
        for exp in w.get("expect_response_ids", []):
            got = [idkey(j.get("id")) for n, j in msgs if isinstance(j, dict) and "method" not in j]
            if got != [idkey(x) for x in exp]:
                problems.append("response ids %s, expected %s" % (got, [idkey(x) for x in exp]))
        if "expect_diag_lines" in w:
            lines = [d["range"]["start"]["line"] for n, j in msgs if isinstance(j, dict) and j.get("method") == "textDocument/publishDiagnostics"
                     for d in (j["params"].get("diagnostics") or [])]
            if lines != w["expect_diag_lines"]:
                problems.append("diagnostic lines %s, expected %s" % (lines, w["expect_diag_lines"]))
        return bool(problems), "; ".join(problems)[:300]
    return False, "unknown witness kind"


def replay(path):
    d = json.load(open(path))
    fam = d.get("family")
    if d.get("kind") == "regression":
        fails, detail = witness_fails(d["witness"])
        print(detail)
        return 1 if fails else 0
    if fam == "edit":
        c = d["case"]
        fails, detail = witness_fails({"kind": "edit", "doc": c["doc"], "range": c["range"], "text": c["text"]})
        print(detail)
        return 1 if fails else 0
    if fam == "frames":
        fails, detail = witness_fails({"kind": "frames", "stream": d["stream_hex"]})
        print(detail)
        return 1 if fails else 0
    if fam == "dm_history":
        p = common.vh(["lspdoc"], input=json.dumps({"ops": d["ops"]}) + "\n")
        r = json.loads(p.stdout.splitlines()[0])
        prob = check_history(d["ops"], r["steps"])
        print(json.dumps(prob))
        return 1 if prob else 0
    if fam == "probe":
        if d.get("probe") == "oversize":
            probs = oversize_probe()[0]
        else:
            known = [k for k in common.known_findings("C18") if k["status"] == "known"]
            probs = [pr for pr in id_probe()[0] if not matches_known(pr, known)]
        print(json.dumps(probs, ensure_ascii=False, default=str)[:4000])
        return 1 if probs else 0
    if fam in ("conversation", "stream"):
        opt = d.get("opt") or {}
        p = common.vh(["lspserve"], input=json.dumps({"frames": d["frames"], "uris": d.get("uris", []), **{k: v for k, v in opt.items() if k in ("freeze", "reset_at")}}) + "\n")
        r = first_row(p)
        c = Conv.from_json(d["conv"]) if d.get("conv") else Conv()
        stats = {"requests": 0, "responses": 0, "notifications": 0, "publish": 0, "diagnostics": 0, "edits": 0, "dropped": 0}
        if fam == "conversation" and d.get("conv"):
            probs, _ = check_conversation(c, d.get("uris", []), opt, r, stats, set())
        else:
            probs, _ = check_stream(c, d.get("uris", []), [bytes.fromhex(f) for f in d["frames"]], r, set())
        print(json.dumps(probs, ensure_ascii=False, default=str)[:4000])
        return 1 if probs else 0
    return 2
