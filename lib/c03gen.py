"""C03 — reference-grammar objects in Python: model expressions / statements as tuples, their renderings (token
list with text, for every parenthesisation choice), and the PRESCRIBED tree `ast_of` in the JSON shape of the
harness dump (struct -> {"_": type, non-zero fields}).  This is the generator side of the property oracle
(tie b); it never looks at the Gallina parser.  The same objects are emitted as Coq terms so that
Spec/RefGrammar.v `render` / Model/Expr.v `ast_of` are cross-checked against this file on every run.

Expression nodes (first group = Spec/RefGrammar.v `mexpr`, second group = statement-level extensions that
exist only here):
  ("ident", quoted, name) ("qident", table, name) ("num", s) ("str", s) ("ph", s) ("null",) ("bool", b)
  ("bin", op, l, r) ("not", e) ("isnull", e, neg) ("in", e, neg, items) ("between", e, neg, lo, hi)
  ("like", e, neg, ci, pat) ("castop", e, (tname, args)) ("func", name, distinct, args)
  ("case", scrut|None, whens, els|None) ("cast", e, (tname, args)) ("tuple", es)
  ("star",) ("qstar", table) ("exists", q) ("notexists", q) ("subq", q) ("insub", e, neg, q)
  ("anyall", all, e, op, q) ("funcx", name, distinct, args, extras) ("interval", s) ("array", es)
  ("subscript", e, idx) ("slice", e, lo, hi) ("neg", sign, e)   sign in "-" "+"  (unary minus / plus)
  ("niladic", name)   CURRENT_DATE / CURRENT_TIME / CURRENT_TIMESTAMP / LOCALTIME / LOCALTIMESTAMP written without parentheses
"""
import random

CMP_OPS = ["=", "<>", "!=", "<", ">", "<=", ">="]
# right operand of * / %: context 6.5 = "signed operand" (unary minus / plus, level 6.5, is admitted; for the integer
# levels of Spec/RefGrammar.v  level < 6.5  <=>  level < 7, so renderings of core expressions are unchanged)
BIN_CTX = {"OR": (0, 1), "AND": (1, 2), "||": (4, 5), "+": (5, 6), "-": (5, 6), "*": (6, 6.5), "/": (6, 6.5), "%": (6, 6.5)}
for _c in CMP_OPS:
    BIN_CTX[_c] = (4, 4)
BIN_LEVEL = {"OR": 0, "AND": 1, "||": 4, "+": 5, "-": 5, "*": 6, "/": 6, "%": 6}
for _c in CMP_OPS:
    BIN_LEVEL[_c] = 3
BIN_TY = {"OR": "TyOr", "AND": "TyAnd", "=": "TyEq", "<>": "TyNeq", "!=": "TyNeq", "<": "TyLt", ">": "TyGt", "<=": "TyLtEq",
          ">=": "TyGtEq", "||": "TyStringConcat", "+": "TyPlus", "-": "TyMinus", "*": "TyAsterisk", "/": "TyDiv", "%": "TyMod"}
BIN_COQ = {"OR": "BOr", "AND": "BAnd", "=": "(BCmp CEq)", "<>": "(BCmp CNeq)", "!=": "(BCmp CBangEq)", "<": "(BCmp CLt)",
           ">": "(BCmp CGt)", "<=": "(BCmp CLe)", ">=": "(BCmp CGe)", "||": "BConcat", "+": "BAdd", "-": "BSub", "*": "BMul",
           "/": "BDiv", "%": "BMod"}

CORE = {"ident", "qident", "num", "str", "ph", "null", "bool", "bin", "not", "isnull", "in", "between", "like", "castop",
        "func", "case", "cast", "tuple"}


def level_of(e):
    k = e[0]
    if k == "bin": return BIN_LEVEL[e[1]]
    if k == "not": return 2
    if k in ("isnull", "in", "between", "like", "insub", "anyall"): return 3
    if k == "castop": return 7
    if k == "neg": return 6.5
    return 8


def children(e):
    """(index, context level, child) for every expression child, indices as in RefGrammar.render"""
    k = e[0]
    if k == "bin":
        a, b = BIN_CTX[e[1]]
        return [(0, a, e[2]), (1, b, e[3])]
    if k == "not": return [(0, 2, e[1])]
    if k == "isnull": return [(0, 4, e[1])]
    if k == "in": return [(0, 4, e[1])] + [(1 + i, 0, x) for i, x in enumerate(e[3])]
    if k == "between": return [(0, 4, e[1]), (1, 4, e[3]), (2, 4, e[4])]
    if k == "like": return [(0, 4, e[1]), (1, 4, e[4])]
    if k == "castop": return [(0, 7, e[1])]
    if k == "func": return [(i, 0, x) for i, x in enumerate(e[3])]
    if k == "case":
        out = []
        if e[1] is not None: out.append((0, 0, e[1]))
        if e[3] is not None: out.append((1, 0, e[3]))
        for i, (c, v) in enumerate(e[2]):
            out += [(2 + 2 * i, 0, c), (3 + 2 * i, 0, v)]
        return out
    if k == "cast": return [(0, 0, e[1])]
    if k == "tuple": return [(i, 0, x) for i, x in enumerate(e[1])]
    if k == "insub": return [(0, 4, e[1])]
    if k == "anyall": return [(0, 4, e[2])]
    if k == "funcx": return [(i, 0, x) for i, x in enumerate(e[3])]
    if k == "array": return [(i, 0, x) for i, x in enumerate(e[1])]
    if k == "subscript": return [(0, 8, e[1])] + [(1 + i, 0, x) for i, x in enumerate(e[2])]
    if k == "neg": return [(0, 6.5, e[2])]
    return []


def is_core(e):
    return e[0] in CORE and all(is_core(c) for _, _, c in children(e))


def size(e):
    return 1 + sum(size(c) for _, _, c in children(e))


# ------------------------------------------------------------------------------------------------
# rendering: tokens are (ty, lit, text)

def T(ty, lit, text=None):
    return (ty, lit, lit if text is None else text)


LP, RP, COMMA = T("TyLParen", "("), T("TyRParen", ")"), T("TyComma", ",")


def sql_string(s):
    return "'" + s.replace("'", "''") + "'"


def type_toks(t):
    out = [T("TyIdent", t[0])]
    if t[1]:
        out.append(LP)
        for i, a in enumerate(t[1]):
            if i: out.append(COMMA)
            out.append(T("TyNumber", a))
        out.append(RP)
    return out


def type_str(t):
    return t[0] + ("(" + ",".join(t[1]) + ")" if t[1] else "")


def sep(lists, s=COMMA):
    out = []
    for i, l in enumerate(lists):
        if i: out.append(s)
        out += l
    return out


def KW(ty, s):
    return T(ty, s)


class Renderer:
    """rho: dict path(tuple) -> number of redundant parenthesis pairs; kwcase: function applied to keyword text"""
    def __init__(self, rho=None, stmt_renderer=None, like_primary=False, cmp_primary=False):
        self.rho = rho or {}
        self.sr = stmt_renderer
        # context levels of the pinned (defective) parser, used only to build inputs it accepts
        self.like_primary, self.cmp_primary = like_primary, cmp_primary

    def render(self, lv, e, path=()):
        n = self.rho.get(path, 0) + (1 if level_of(e) < lv else 0)
        body = self.body(e, path)
        return [LP] * n + body + [RP] * n

    def body(self, e, path):
        k = e[0]
        R = lambda lv, c, i: self.render(lv, c, path + (i,))
        nt = lambda neg: [KW("TyNot", "NOT")] if neg else []
        if k == "ident": return [T("TyDQuoted" if e[1] else "TyIdent", e[2], '"%s"' % e[2] if e[1] else e[2])]
        if k == "qident": return [T("TyIdent", e[1]), T("TyPeriod", "."), T("TyIdent", e[2])]
        if k == "num": return [T("TyNumber", e[1])]
        if k == "str": return [T("TySQuoted", e[1], sql_string(e[1]))]
        if k == "ph": return [T("TyPlaceholder", e[1])]
        if k == "null": return [KW("TyNull", "NULL")]
        if k == "bool": return [KW("TyTrue", "TRUE") if e[1] else KW("TyFalse", "FALSE")]
        if k == "bin":
            a, b = BIN_CTX[e[1]]
            if self.cmp_primary and level_of(e) == 3: b = 8
            return R(a, e[2], 0) + [T(BIN_TY[e[1]], e[1])] + R(b, e[3], 1)
        if k == "not": return [KW("TyNot", "NOT")] + R(2, e[1], 0)
        if k == "isnull": return R(4, e[1], 0) + [KW("TyIs", "IS")] + nt(e[2]) + [KW("TyNull", "NULL")]
        if k == "in":
            return R(4, e[1], 0) + nt(e[2]) + [KW("TyIn", "IN"), LP] + sep([R(0, x, 1 + i) for i, x in enumerate(e[3])]) + [RP]
        if k == "between":
            return R(4, e[1], 0) + nt(e[2]) + [KW("TyBetween", "BETWEEN")] + R(4, e[3], 1) + [KW("TyAnd", "AND")] + R(4, e[4], 2)
        if k == "like":
            return (R(4, e[1], 0) + nt(e[2]) + [KW("TyILike", "ILIKE") if e[3] else KW("TyLike", "LIKE")]
                    + R(8 if self.like_primary else 4, e[4], 1))
        if k == "castop": return R(7, e[1], 0) + [T("TyDoubleColon", "::")] + type_toks(e[2])
        if k == "func":
            return ([T("TyIdent", e[1]), LP] + ([KW("TyDistinct", "DISTINCT")] if e[2] else [])
                    + sep([R(0, x, i) for i, x in enumerate(e[3])]) + [RP])
        if k == "case":
            out = [KW("TyCase", "CASE")]
            if e[1] is not None: out += R(0, e[1], 0)
            for i, (c, v) in enumerate(e[2]):
                out += [KW("TyWhen", "WHEN")] + R(0, c, 2 + 2 * i) + [KW("TyThen", "THEN")] + R(0, v, 3 + 2 * i)
            if e[3] is not None: out += [KW("TyElse", "ELSE")] + R(0, e[3], 1)
            return out + [KW("TyEnd", "END")]
        if k == "cast": return [KW("TyCast", "CAST"), LP] + R(0, e[1], 0) + [KW("TyAs", "AS")] + type_toks(e[2]) + [RP]
        if k == "tuple": return [LP] + sep([R(0, x, i) for i, x in enumerate(e[1])]) + [RP]
        # ---- statement-level extensions (text only matters: ty "?" = not used by the Coq cross-checks)
        W = lambda s: T("?", s)
        Q = lambda q: [W(t) for t in self.sr(q)]
        if k == "neg": return [T("TyMinus" if e[1] == "-" else "TyPlus", e[1])] + R(6.5, e[2], 0)
        if k == "niladic": return [T("TyIdent", e[1])]
        if k == "star": return [T("TyAsterisk", "*")]
        if k == "qstar": return [T("TyIdent", e[1]), T("TyPeriod", "."), T("TyAsterisk", "*")]
        if k == "exists": return [W("EXISTS"), LP] + Q(e[1]) + [RP]
        if k == "notexists": return [W("NOT"), W("EXISTS"), LP] + Q(e[1]) + [RP]
        if k == "subq": return [LP] + Q(e[1]) + [RP]
        if k == "insub": return R(4, e[1], 0) + nt(e[2]) + [W("IN"), LP] + Q(e[3]) + [RP]
        if k == "anyall": return R(4, e[2], 0) + [W(e[3]), W("ALL" if e[1] else "ANY"), LP] + Q(e[4]) + [RP]
        if k == "interval": return [W("INTERVAL"), W(sql_string(e[1]))]
        if k == "array": return [W("ARRAY"), W("[")] + sep([R(0, x, i) for i, x in enumerate(e[1])]) + [W("]")]
        if k == "subscript":
            out = R(8, e[1], 0)
            for i, x in enumerate(e[2]):
                out += [W("[")] + R(0, x, 1 + i) + [W("]")]
            return out
        if k == "funcx":
            x = e[4]
            out = [T("TyIdent", e[1]), LP] + ([W("DISTINCT")] if e[2] else []) + sep([R(0, a, i) for i, a in enumerate(e[3])])
            if x.get("order_by"):
                out += [W("ORDER"), W("BY")] + sep([self.order_item(o, path + (100 + i,)) for i, o in enumerate(x["order_by"])])
            out += [RP]
            if x.get("within"):
                out += [W("WITHIN"), W("GROUP"), LP, W("ORDER"), W("BY")] + sep([self.order_item(o, path + (200 + i,)) for i, o in enumerate(x["within"])]) + [RP]
            if x.get("filter") is not None:
                out += [W("FILTER"), LP, W("WHERE")] + self.render(0, x["filter"], path + (300,)) + [RP]
            if x.get("over") is not None:
                out += [W("OVER")] + self.window(x["over"], path + (400,))
            return out
        raise ValueError(k)

    def order_item(self, o, path):
        e, direction, nulls = o
        out = self.render(0, e, path)
        if direction: out.append(T("?", direction))
        if nulls is not None: out += [T("?", "NULLS"), T("?", "FIRST" if nulls else "LAST")]
        return out

    def window(self, w, path):
        out = [LP]
        if w.get("partition"):
            out += [T("?", "PARTITION"), T("?", "BY")] + sep([self.render(0, x, path + (i,)) for i, x in enumerate(w["partition"])])
        if w.get("order"):
            out += [T("?", "ORDER"), T("?", "BY")] + sep([self.order_item(o, path + (50 + i,)) for i, o in enumerate(w["order"])])
        if w.get("frame"):
            ty, st, en = w["frame"]
            out.append(T("?", ty))
            if en is not None:
                out += [T("?", "BETWEEN")] + self.bound(st, path + (90,)) + [T("?", "AND")] + self.bound(en, path + (91,))
            else:
                out += self.bound(st, path + (90,))
        return out + [RP]

    def bound(self, b, path):
        ty, v = b
        if v is not None:
            return self.render(0, v, path) + [T("?", ty)]
        return [T("?", w) for w in ty.split()]


def text_of(toks):
    return " ".join(t[2] for t in toks)


# ------------------------------------------------------------------------------------------------
# prescribed trees (JSON shape of the harness dump)

def node(ty, **fields):
    d = {"_": ty}
    for k, v in fields.items():
        if v is None or v is False or v == "" or v == [] or (isinstance(v, int) and not isinstance(v, bool) and v == 0):
            continue
        d[k] = v
    return d


def num_type(s):
    return "float" if any(c in s for c in ".eE") else "int"


NULL_LIT = {"_": "LiteralValue", "Type": "null"}


class Prescriber:
    def __init__(self, stmt_ast=None):
        self.stmt_ast = stmt_ast

    def ast_of(self, e):
        A = self.ast_of
        k = e[0]
        if k == "ident": return node("Identifier", Name=e[2])
        if k == "qident": return node("Identifier", Name=e[2], Table=e[1])
        if k == "num": return node("LiteralValue", Value=e[1], Type=num_type(e[1]))
        if k == "str":
            d = node("LiteralValue", Type="string")
            if e[1] != "": d["Value"] = e[1]
            else: d["Value"] = ""
            return d
        if k == "ph": return node("LiteralValue", Value=e[1], Type="placeholder")
        if k == "null": return dict(NULL_LIT)
        if k == "bool": return node("LiteralValue", Value="TRUE" if e[1] else "FALSE", Type="bool")
        if k == "bin": return node("BinaryExpression", Left=A(e[2]), Operator=e[1], Right=A(e[3]))
        if k == "not": return node("UnaryExpression", Operator=2, Expr=A(e[1]))
        if k == "isnull": return node("BinaryExpression", Left=A(e[1]), Operator="IS NULL", Right=dict(NULL_LIT), Not=e[2])
        if k == "in": return node("InExpression", Expr=A(e[1]), List=[A(x) for x in e[3]], Not=e[2])
        if k == "between": return node("BetweenExpression", Expr=A(e[1]), Lower=A(e[3]), Upper=A(e[4]), Not=e[2])
        if k == "like": return node("BinaryExpression", Left=A(e[1]), Operator="ILIKE" if e[3] else "LIKE", Right=A(e[4]), Not=e[2])
        if k in ("castop", "cast"): return node("CastExpression", Expr=A(e[1]), Type=type_str(e[2]))
        if k == "func": return node("FunctionCall", Name=e[1], Arguments=[A(x) for x in e[3]], Distinct=e[2])
        if k == "case":
            return node("CaseExpression", Value=None if e[1] is None else A(e[1]),
                        WhenClauses=[node("WhenClause", Condition=A(c), Result=A(v)) for c, v in e[2]],
                        ElseClause=None if e[3] is None else A(e[3]))
        if k == "tuple": return node("TupleExpression", Expressions=[A(x) for x in e[1]])
        S = self.stmt_ast
        if k == "neg": return node("UnaryExpression", Operator=1 if e[1] == "-" else 0, Expr=A(e[2]))
        if k == "niladic": return node("FunctionCall", Name=e[1])
        if k == "star": return node("Identifier", Name="*")
        if k == "qstar": return node("Identifier", Name="*", Table=e[1])
        if k == "exists": return node("ExistsExpression", Subquery=S(e[1]))
        if k == "notexists":
            return node("BinaryExpression", Left=node("ExistsExpression", Subquery=S(e[1])), Operator="NOT", Not=True)
        if k == "subq": return node("SubqueryExpression", Subquery=S(e[1]))
        if k == "insub": return node("InExpression", Expr=A(e[1]), Subquery=S(e[3]), Not=e[2])
        if k == "anyall": return node("AllExpression" if e[1] else "AnyExpression", Expr=A(e[2]), Operator=e[3], Subquery=S(e[4]))
        if k == "interval": return node("IntervalExpression", Value=e[1])
        if k == "array": return node("ArrayConstructorExpression", Elements=[A(x) for x in e[1]])
        if k == "subscript":
            cur = A(e[1])
            for x in e[2]:
                cur = node("ArraySubscriptExpression", Array=cur, Indices=[A(x)])
            return cur
        if k == "funcx":
            x = e[4]
            return node("FunctionCall", Name=e[1], Arguments=[A(a) for a in e[3]], Distinct=e[2],
                        OrderBy=[self.order(o) for o in x.get("order_by") or []],
                        WithinGroup=[self.order(o) for o in x.get("within") or []],
                        Filter=None if x.get("filter") is None else A(x["filter"]),
                        Over=None if x.get("over") is None else self.window(x["over"]))
        raise ValueError(k)

    def order(self, o):
        e, direction, nulls = o
        d = node("OrderByExpression", Expression=self.ast_of(e), Ascending=(direction != "DESC"))
        if nulls is not None:
            d["NullsFirst"] = {"*": bool(nulls)}
        return d

    def window(self, w):
        d = node("WindowSpec", PartitionBy=[self.ast_of(x) for x in w.get("partition") or []],
                 OrderBy=[self.order(o) for o in w.get("order") or []])
        if w.get("frame"):
            ty, st, en = w["frame"]
            d["FrameClause"] = node("WindowFrame", Type=ty, Start=self.bound(st), End=None if en is None else self.bound(en))
        return d

    def bound(self, b):
        ty, v = b
        return node("WindowFrameBound", Type=ty, Value=None if v is None else self.ast_of(v))


# ------------------------------------------------------------------------------------------------
# tree comparison: first difference between prescribed and observed

def tree_diff(want, got, path="$"):
    if isinstance(want, dict) and isinstance(got, dict):
        if want.get("_") != got.get("_"):
            return "%s: node type %s, prescribed %s" % (path, got.get("_"), want.get("_"))
        for k in sorted(set(want) | set(got)):
            if k not in got:
                return "%s.%s: written but missing from the tree (prescribed %s)" % (path, k, short(want[k]))
            if k not in want:
                return "%s.%s: unwritten appears in the tree (%s)" % (path, k, short(got[k]))
            d = tree_diff(want[k], got[k], path + "." + k)
            if d: return d
        return None
    if isinstance(want, list) and isinstance(got, list):
        if len(want) != len(got):
            return "%s: %d elements, prescribed %d" % (path, len(got), len(want))
        for i, (a, b) in enumerate(zip(want, got)):
            d = tree_diff(a, b, "%s[%d]" % (path, i))
            if d: return d
        return None
    if type(want) != type(got) or want != got:
        return "%s: %s, prescribed %s" % (path, short(got), short(want))
    return None


def short(v):
    import json
    s = json.dumps(v)
    return s if len(s) < 120 else s[:117] + "..."


# ------------------------------------------------------------------------------------------------
# Coq emission

def coq_str(s):
    return '"' + s.replace('"', '""') + '"'


def coq_bool(b):
    return "true" if b else "false"


def coq_type(t):
    return "(MkType %s [%s])" % (coq_str(t[0]), "; ".join(coq_str(a) for a in t[1]))


def coq_mexpr(e):
    k = e[0]
    C = coq_mexpr
    L = lambda l: "[" + "; ".join(C(x) for x in l) + "]"
    if k == "ident": return "(MIdent %s %s)" % (coq_bool(e[1]), coq_str(e[2]))
    if k == "qident": return "(MQIdent %s %s)" % (coq_str(e[1]), coq_str(e[2]))
    if k == "num": return "(MNum %s)" % coq_str(e[1])
    if k == "str": return "(MStr %s)" % coq_str(e[1])
    if k == "ph": return "(MPlaceholder %s)" % coq_str(e[1])
    if k == "null": return "MNull"
    if k == "bool": return "(MBool %s)" % coq_bool(e[1])
    if k == "bin": return "(MBin %s %s %s)" % (BIN_COQ[e[1]], C(e[2]), C(e[3]))
    if k == "not": return "(MNot %s)" % C(e[1])
    if k == "isnull": return "(MIsNull %s %s)" % (C(e[1]), coq_bool(e[2]))
    if k == "in": return "(MIn %s %s %s)" % (C(e[1]), coq_bool(e[2]), L(e[3]))
    if k == "between": return "(MBetween %s %s %s %s)" % (C(e[1]), coq_bool(e[2]), C(e[3]), C(e[4]))
    if k == "like": return "(MLike %s %s %s %s)" % (C(e[1]), coq_bool(e[2]), coq_bool(e[3]), C(e[4]))
    if k == "castop": return "(MCastOp %s %s)" % (C(e[1]), coq_type(e[2]))
    if k == "func": return "(MFunc %s %s %s)" % (coq_str(e[1]), coq_bool(e[2]), L(e[3]))
    if k == "case":
        return "(MCase %s [%s] %s)" % ("None" if e[1] is None else "(Some %s)" % C(e[1]),
                                       "; ".join("(%s, %s)" % (C(c), C(v)) for c, v in e[2]),
                                       "None" if e[3] is None else "(Some %s)" % C(e[3]))
    if k == "cast": return "(MCast %s %s)" % (C(e[1]), coq_type(e[2]))
    if k == "tuple": return "(MTuple %s)" % L(e[1])
    raise ValueError(k)


def coq_rho(rho):
    return "(rho_of [%s])" % "; ".join("([%s], %d)" % ("; ".join(str(i) for i in p), n) for p, n in sorted(rho.items()) if n)


def coq_tok(ty, lit, n=None):
    if ty == "TyOther":
        return "Tk (TyOther %d) %s" % (n, coq_str(lit))
    return "Tk %s %s" % (ty, coq_str(lit))


def coq_toks(toks):
    return "[" + "; ".join(coq_tok(t[0], t[1]) for t in toks) + "]"


def coq_sx(v):
    if isinstance(v, dict):
        if "*" in v and "_" not in v:
            return "(SPtr %s)" % coq_sx(v["*"])
        return "(SNode %s [%s])" % (coq_str(v["_"]), "; ".join("(%s, %s)" % (coq_str(k), coq_sx(v[k])) for k in sorted(v) if k != "_"))
    if isinstance(v, list): return "(SList [%s])" % "; ".join(coq_sx(x) for x in v)
    if isinstance(v, bool): return "(SBool %s)" % coq_bool(v)
    if isinstance(v, int): return "(SInt (%d)%%Z)" % v
    if isinstance(v, str): return "(SStr %s)" % coq_str(v)
    if v is None: return "SNil"
    raise ValueError(repr(v))


# ------------------------------------------------------------------------------------------------
# expression generators

IDENTS = ["a", "b", "c", "x", "y", "id", "name", "price", "qty", "status", "created_at", "Amount", "col1", "_u"]
TABS = ["t", "u", "users", "o"]
NUMS = ["0", "1", "2", "7", "42", "100", "3.14", "0.5", "1e3", "2.5E2", "007"]
STRS = ["x", "hello", "it's", "", "a b", "%a_", "2024-01-01", "OR", "naïve", "(", "a''b"]
PHS = ["$1", "$2", "@p", "@name"]
NILADIC = ["CURRENT_DATE", "CURRENT_TIME", "CURRENT_TIMESTAMP", "LOCALTIME", "LOCALTIMESTAMP", "current_date", "Current_Timestamp"]
FNAMES = ["COUNT", "SUM", "UPPER", "coalesce", "f", "NULLIF", "my_func", "LENGTH"]
TYPES = [("INT", []), ("TEXT", []), ("VARCHAR", ["20"]), ("NUMERIC", ["10", "2"]), ("mytype", []), ("DECIMAL", ["8"])]


def atom(r):
    k = r.randrange(10)
    if k < 3: return ("ident", False, r.choice(IDENTS))
    if k == 3: return ("ident", True, r.choice(["Col", "my col", "select", "a.b"]))
    if k == 4: return ("qident", r.choice(TABS), r.choice(IDENTS))
    if k == 5: return ("num", r.choice(NUMS))
    if k == 6: return ("str", r.choice(STRS))
    if k == 7: return ("ph", r.choice(PHS))
    if k == 8: return ("null",)
    return ("bool", r.random() < 0.5)


OPERATORS = (["OR", "AND", "NOT"] + CMP_OPS + ["IS NULL", "IS NOT NULL", "IN", "NOT IN", "BETWEEN", "NOT BETWEEN", "LIKE", "NOT LIKE",
             "ILIKE", "NOT ILIKE", "||", "+", "-", "*", "/", "%", "::"])


def slots(op):
    if op in ("NOT", "IS NULL", "IS NOT NULL", "::"): return 1
    if op in ("BETWEEN", "NOT BETWEEN"): return 3
    return 2


def build(op, args):
    """node of operator `op` with the given operand list (len = slots(op))"""
    if op in BIN_CTX: return ("bin", op, args[0], args[1])
    if op == "NOT": return ("not", args[0])
    if op in ("IS NULL", "IS NOT NULL"): return ("isnull", args[0], op == "IS NOT NULL")
    if op in ("IN", "NOT IN"): return ("in", args[0], op == "NOT IN", [args[1], ("num", "9")])
    if op in ("BETWEEN", "NOT BETWEEN"): return ("between", args[0], op.startswith("NOT"), args[1], args[2])
    if op in ("LIKE", "NOT LIKE", "ILIKE", "NOT ILIKE"): return ("like", args[0], op.startswith("NOT"), "ILIKE" in op, args[1])
    if op == "::": return ("castop", args[0], ("INT", []))
    raise ValueError(op)


def pair_cases():
    """all (outer operator, slot, inner operator) trees x three parenthesisation variants"""
    out = []
    names = [("ident", False, "a"), ("ident", False, "b"), ("ident", False, "c"), ("num", "1"), ("ident", False, "d")]
    for O in OPERATORS:
        for s in range(slots(O)):
            for I in OPERATORS:
                inner = build(I, names[:slots(I)])
                args = [names[3], names[4], ("str", "z")][:slots(O)]
                args[s] = inner
                e = build(O, args)
                ipath = (s,)
                for variant, rho in (("required", {}), ("redundant-inner", {ipath: 1}),
                                     ("redundant-all", {(): 1, ipath: 2, ipath + (0,): 1})):
                    out.append(("pair:%s/%d/%s/%s" % (O, s, I, variant), e, rho))
    return out


def neg_cases():
    """unary minus / plus against every operator: sign over the operator (needs parentheses unless the operator binds
    tighter), and the signed operand in every slot of every operator"""
    out = []
    names = [("ident", False, "a"), ("ident", False, "b"), ("ident", False, "c"), ("num", "1"), ("ident", False, "d")]
    for sign in ("-", "+"):
        for O in OPERATORS:
            inner = build(O, names[:slots(O)])
            out.append(("neg:%s/over/%s" % (sign, O), ("neg", sign, inner), {}))
            out.append(("neg:%s/over/%s/redundant" % (sign, O), ("neg", sign, inner), {(): 1, (0,): 1}))
            for s in range(slots(O)):
                args = [names[3], names[4], ("str", "z")][:slots(O)]
                args[s] = ("neg", sign, names[0])
                out.append(("neg:%s/in/%s/%d" % (sign, O, s), build(O, args), {}))
        out.append(("neg:%s/chain" % sign, ("neg", sign, ("neg", "-", ("neg", "+", names[0]))), {}))
    return out


def with_signs(r, e, p=0.2):
    """copy of a core expression with unary signs inserted at random nodes"""
    k = e[0]
    if k in ("ident", "qident", "num", "str", "ph", "null", "bool"):
        out = e
    elif k == "bin": out = ("bin", e[1], with_signs(r, e[2], p), with_signs(r, e[3], p))
    elif k == "not": out = ("not", with_signs(r, e[1], p))
    elif k == "isnull": out = ("isnull", with_signs(r, e[1], p), e[2])
    elif k == "in": out = ("in", with_signs(r, e[1], p), e[2], [with_signs(r, x, p) for x in e[3]])
    elif k == "between": out = ("between", with_signs(r, e[1], p), e[2], with_signs(r, e[3], p), with_signs(r, e[4], p))
    elif k == "like": out = ("like", with_signs(r, e[1], p), e[2], e[3], with_signs(r, e[4], p))
    elif k in ("castop", "cast"): out = (k, with_signs(r, e[1], p), e[2])
    elif k == "func": out = ("func", e[1], e[2], [with_signs(r, x, p) for x in e[3]])
    elif k == "case":
        out = ("case", None if e[1] is None else with_signs(r, e[1], p), [(with_signs(r, c, p), with_signs(r, v, p)) for c, v in e[2]],
               None if e[3] is None else with_signs(r, e[3], p))
    elif k == "tuple": out = ("tuple", [with_signs(r, x, p) for x in e[1]])
    else: out = e
    if r.random() < p:
        out = ("neg", r.choice(["-", "-", "+"]), out)
    return out


def rand_expr(r, budget, boolean=None):
    """random core expression with about `budget` nodes"""
    if budget <= 1:
        return atom(r)
    k = r.choice(["bin", "bin", "bin", "bin", "not", "isnull", "in", "between", "like", "castop", "func", "case", "cast", "tuple", "cmp", "logic"])
    def split(n, parts):
        cuts = sorted(r.randrange(0, n + 1) for _ in range(parts - 1))
        prev, out = 0, []
        for c in cuts + [n]:
            out.append(max(1, c - prev)); prev = c
        return out
    b = budget - 1
    if k in ("bin", "cmp", "logic"):
        op = r.choice(list(BIN_CTX)) if k == "bin" else r.choice(CMP_OPS) if k == "cmp" else r.choice(["AND", "OR"])
        x, y = split(b, 2)
        return ("bin", op, rand_expr(r, x), rand_expr(r, y))
    if k == "not": return ("not", rand_expr(r, b))
    if k == "isnull": return ("isnull", rand_expr(r, b), r.random() < 0.5)
    if k == "in":
        n = r.randrange(1, 4)
        ps = split(b, n + 1)
        return ("in", rand_expr(r, ps[0]), r.random() < 0.4, [rand_expr(r, p) for p in ps[1:]])
    if k == "between":
        x, y, z = split(b, 3)
        return ("between", rand_expr(r, x), r.random() < 0.4, rand_expr(r, y), rand_expr(r, z))
    if k == "like":
        x, y = split(b, 2)
        return ("like", rand_expr(r, x), r.random() < 0.4, r.random() < 0.3, rand_expr(r, y))
    if k == "castop": return ("castop", rand_expr(r, b), r.choice(TYPES))
    if k == "func":
        n = r.randrange(0, 4)
        if n == 0: return ("func", r.choice(FNAMES), False, [])
        return ("func", r.choice(FNAMES), r.random() < 0.2, [rand_expr(r, p) for p in split(b, n)])
    if k == "case":
        n = r.randrange(1, 3)
        hs, he = r.random() < 0.4, r.random() < 0.6
        ps = split(b, 2 * n + hs + he)
        i = 0
        scrut = None
        if hs: scrut = rand_expr(r, ps[i]); i += 1
        whens = []
        for _ in range(n):
            whens.append((rand_expr(r, ps[i]), rand_expr(r, ps[i + 1]))); i += 2
        els = rand_expr(r, ps[i]) if he else None
        return ("case", scrut, whens, els)
    if k == "cast": return ("cast", rand_expr(r, b), r.choice(TYPES))
    n = r.randrange(2, 4)
    return ("tuple", [rand_expr(r, p) for p in split(b, n)])


def all_paths(e, path=()):
    out = [path]
    for i, _, c in children(e):
        out += all_paths(c, path + (i,))
    return out


def rand_rho(r, e, p=0.15):
    rho = {}
    for path in all_paths(e):
        if r.random() < p:
            rho[path] = 1 if r.random() < 0.8 else 2
    return rho


def pdepth(lv, e, rho, path=()):
    """mirror of RefGrammar.pdepth (nesting the parser's depth counter reaches)"""
    k = e[0]
    par = rho.get(path, 0) + (1 if level_of(e) < lv else 0)
    P = lambda lv2, c, i: pdepth(lv2, c, rho, path + (i,))
    if k in ("ident", "qident", "num", "str", "ph", "null", "bool"): b = 0
    elif k == "bin":
        a, c = BIN_CTX[e[1]]
        b = max(P(a, e[2], 0), P(c, e[3], 1))
    elif k == "not": b = 1 + P(2, e[1], 0)
    elif k == "isnull": b = P(4, e[1], 0)
    elif k == "in": b = max(P(4, e[1], 0), 1 + max(P(0, x, 1 + i) for i, x in enumerate(e[3])))
    elif k == "between": b = max(P(4, e[1], 0), P(4, e[3], 1), P(4, e[4], 2))
    elif k == "like": b = max(P(4, e[1], 0), P(4, e[4], 1))
    elif k == "castop": b = P(7, e[1], 0)
    elif k == "func": b = 1 + max([P(0, x, i) for i, x in enumerate(e[3])] + [0])
    elif k == "case":
        ds = [P(lv2, c, i) for i, lv2, c in children(e)]
        b = 1 + max(ds + [0])
    elif k == "cast": b = 1 + P(0, e[1], 0)
    elif k == "tuple": b = 1 + max(P(0, x, i) for i, x in enumerate(e[1]))
    elif k == "neg": b = 1 + P(6.5, e[2], 0)
    else: raise ValueError(k)
    return par + b


# corruption of a token-text list (for the model-vs-code correspondence on inputs outside the surface)
JUNK = ["(", ")", ",", "AND", "OR", "NOT", "=", "+", "*", "||", "::", "IS", "NULL", "IN", "BETWEEN", "LIKE", "CASE", "WHEN", "THEN",
        "ELSE", "END", "CAST", "AS", "x", "1", "'s'", ".", "SELECT", "EXISTS", "DISTINCT", "[", "]", "-", "<", "ILIKE", "INTERVAL",
        "REGEXP", "ANY", "f(", "t.*", "*", "ORDER", "BY", "SEPARATOR", ";", "FILTER", "OVER", "INT", "$1", ":", "IF", "ARRAY"]


def corrupt(r, texts):
    t = list(texts)
    k = r.randrange(5)
    if not t: return [r.choice(JUNK)]
    i = r.randrange(len(t))
    if k == 0: del t[i]
    elif k == 1: t.insert(i, t[i])
    elif k == 2: t[i] = r.choice(JUNK)
    elif k == 3: t = t[:i]
    else: t.insert(i, r.choice(JUNK))
    return t


# ================================================================================================
# statements: model objects (dicts), rendering to text, prescribed trees

def ident_ok(s):
    return s


class StmtGen:
    """random model statements of the documented surface; every statement is a dict with 'kind'"""
    def __init__(self, rng, known_off=True):
        self.r = rng
        self.known_off = known_off      # do not generate shapes that are listed known findings
        self.n = 0

    # ---- expressions inside statements: core expressions plus sub-query forms, window functions, etc.
    def expr(self, budget=6, allow_sub=True, depth=0):
        r = self.r
        k = r.random()
        if allow_sub and depth < 2 and k < 0.10:
            q = self.select(depth + 1, simple=True)
            form = r.choice(["exists", "notexists", "subq_cmp", "insub", "anyall"])
            if form == "exists": return ("exists", q)
            if form == "notexists": return ("notexists", q)
            if form == "subq_cmp": return ("bin", r.choice(CMP_OPS), ("subq", self.select(depth + 1, simple=True, scalar=True)), atom(r))
            if form == "insub": return ("insub", atom(r), r.random() < 0.4, q)
            return ("anyall", r.random() < 0.5, atom(r), r.choice(CMP_OPS), q)
        if k < 0.16:
            return self.funcx(depth)
        if k < 0.19:
            return ("interval", r.choice(["1 day", "2 hours", "1 year 2 months"]))
        if k < 0.22:
            return ("array", [rand_expr(r, 2) for _ in range(r.randrange(0, 3))])
        if k < 0.25:
            return ("subscript", ("ident", False, r.choice(IDENTS)), [("num", "1")] + ([("ident", False, "i")] if r.random() < 0.3 else []))
        if k < 0.27:
            return ("niladic", r.choice(NILADIC))
        if k < 0.33:
            # unary minus / plus: a signed atom, a signed operand inside arithmetic, a sign over a whole expression
            sg = r.choice(["-", "-", "+"])
            form = r.randrange(3)
            if form == 0: return ("neg", sg, r.choice([("num", r.choice(NUMS)), ("ident", False, r.choice(IDENTS))]))
            if form == 1: return ("bin", r.choice(["+", "-", "*", "/", "=", "<"]), rand_expr(r, 2), ("neg", sg, rand_expr(r, 2)))
            return ("neg", sg, rand_expr(r, max(1, budget - 1)))
        e = rand_expr(r, budget)
        return e

    def order_items(self, n=None):
        r = self.r
        out = []
        for _ in range(n or r.randrange(1, 3)):
            out.append((rand_expr(r, r.choice([1, 1, 3])), r.choice([None, "ASC", "DESC"]), r.choice([None, None, True, False])))
        return out

    def funcx(self, depth):
        r = self.r
        k = r.choice(["filter", "over", "over", "orderby", "within", "star"])
        if k == "star":
            return ("func", "COUNT", False, [("star",)])
        x = {}
        name, args = r.choice(["SUM", "COUNT", "AVG", "MAX"]), [("ident", False, r.choice(IDENTS))]
        if k == "filter":
            x["filter"] = rand_expr(r, 3)
        elif k == "orderby":
            name, args = "STRING_AGG", [("ident", False, "name"), ("str", ", ")]
            x["order_by"] = self.order_items()
        elif k == "within":
            name, args = "PERCENTILE_CONT", [("num", "0.5")]
            x["within"] = self.order_items(1)
        else:
            if r.random() < 0.3:
                name, args = r.choice(["ROW_NUMBER", "RANK"]), []
            w = {}
            if r.random() < 0.6: w["partition"] = [rand_expr(r, 1) for _ in range(r.randrange(1, 3))]
            if r.random() < 0.7: w["order"] = self.order_items()
            if r.random() < 0.5:
                st = r.choice([("UNBOUNDED PRECEDING", None), ("CURRENT ROW", None), ("PRECEDING", ("num", "1")), ("FOLLOWING", ("num", "2"))])
                en = r.choice([None, ("CURRENT ROW", None), ("UNBOUNDED FOLLOWING", None), ("FOLLOWING", ("num", "3"))])
                w["frame"] = (r.choice(["ROWS", "RANGE"]), st, en)
            x["over"] = w
            if r.random() < 0.2: x["filter"] = rand_expr(r, 3)
        return ("funcx", name, False, args, x)

    def tname(self):
        r = self.r
        t = r.choice(["t", "u", "users", "orders", "items"])
        if r.random() < 0.2: t = r.choice(["s", "public", "db.s"]) + "." + t
        return t

    def alias(self):
        self.n += 1
        return "x%d" % self.n

    def tableref(self, depth, allow_sub=True):
        r = self.r
        if allow_sub and depth < 2 and r.random() < 0.2:
            sub = self.select(depth + 1, simple=True)
            if r.random() < 0.2: sub["with_"] = self.with_clause(depth + 1)     # derived table starting with WITH
            return dict(name="", sub=sub, alias=self.alias(), as_kw=r.random() < 0.6, lateral=False)
        al = self.alias() if r.random() < 0.4 else ""
        return dict(name=self.tname(), sub=None, alias=al, as_kw=bool(al) and r.random() < 0.5, lateral=False)

    def select(self, depth=0, simple=False, scalar=False):
        r = self.r
        s = dict(kind="select", distinct=False, distinct_on=[], all_kw=False, cols=[], from_=[], joins=[], where=None, group_by=[],
                 rollup_mysql=None, having=None, order_by=[], limit=None, offset=None, offset_rows=False, fetch=None, for_=None, with_=None)
        if not scalar and r.random() < 0.15:
            s["distinct"] = True
            if r.random() < 0.4: s["distinct_on"] = [rand_expr(r, 1) for _ in range(r.randrange(1, 3))]
        elif r.random() < 0.05:
            s["all_kw"] = True
        ncols = 1 if scalar else r.randrange(1, 4)
        for _ in range(ncols):
            k = r.random()
            if not scalar and k < 0.1:
                s["cols"].append((("star",), None, False)); continue
            if not scalar and k < 0.15:
                s["cols"].append((("qstar", r.choice(TABS)), None, False)); continue
            e = self.expr(r.choice([1, 3, 6]), allow_sub=not simple, depth=depth)
            al, askw = None, False
            if not scalar and r.random() < 0.35:
                al, askw = self.alias(), r.random() < 0.6
                if e[0] in ("ident", "qident", "star", "qstar", "subscript"):
                    askw = True      # implicit alias after a bare column is a listed known finding
            s["cols"].append((e, al, askw))
        if scalar and r.random() < 0.3:
            return s            # SELECT 1
        nfrom = 1 if r.random() < 0.8 else 2
        for _ in range(nfrom):
            s["from_"].append(self.tableref(depth, allow_sub=not simple))
        if not simple and r.random() < 0.45:
            for _ in range(r.randrange(1, 4)):
                jt = r.choice(["JOIN", "INNER JOIN", "LEFT JOIN", "LEFT OUTER JOIN", "RIGHT JOIN", "RIGHT OUTER JOIN", "FULL JOIN", "FULL OUTER JOIN",
                               "CROSS JOIN", "NATURAL JOIN", "NATURAL LEFT JOIN"])
                tr = self.tableref(depth)
                if tr["sub"] is not None and r.random() < 0.3: tr["lateral"] = True
                cond = None
                if not (jt.startswith("CROSS") or jt.startswith("NATURAL")):
                    cond = ("on", self.expr(4, allow_sub=False, depth=depth)) if r.random() < 0.7 else ("using", [r.choice(IDENTS) for _ in range(r.randrange(1, 3))])
                s["joins"].append((jt, tr, cond))
        if r.random() < 0.6: s["where"] = self.expr(8, allow_sub=not simple, depth=depth)
        if not scalar and r.random() < 0.3:
            for _ in range(r.randrange(1, 3)):
                k = r.random()
                if k < 0.7 or simple: s["group_by"].append(("expr", rand_expr(r, r.choice([1, 1, 3]))))
                elif k < 0.8: s["group_by"].append(("rollup", [rand_expr(r, 1) for _ in range(r.randrange(1, 3))]))
                elif k < 0.9: s["group_by"].append(("cube", [rand_expr(r, 1) for _ in range(r.randrange(1, 3))]))
                else:
                    # one grouping set = a list of expressions ( e, ... ) - possibly empty - or ("bare", column reference) written without parentheses
                    s["group_by"].append(("sets", [("bare", ("ident", False, r.choice(IDENTS))) if r.random() < 0.2 else
                                                    [rand_expr(r, 1) for _ in range(r.randrange(0, 3))] for _ in range(r.randrange(1, 3))]))
            if r.random() < 0.4: s["having"] = self.expr(5, allow_sub=False, depth=depth)
        if not scalar and r.random() < 0.3: s["order_by"] = self.order_items()
        if not scalar and r.random() < 0.25:
            k = r.random()
            if k < 0.6:
                s["limit"] = r.randrange(0, 100)
                if r.random() < 0.5: s["offset"] = r.randrange(0, 50)
            elif k < 0.8:
                s["offset"] = r.randrange(1, 50); s["offset_rows"] = r.random() < 0.5
            else:
                if r.random() < 0.5: s["offset"], s["offset_rows"] = r.randrange(1, 50), True
                s["fetch"] = dict(type=r.choice(["FIRST", "NEXT"]), value=r.randrange(1, 50), percent=r.random() < 0.2,
                                  rows=r.choice(["ROWS", "ROW", ""]), ties=r.random() < 0.3)
        if not scalar and r.random() < 0.05:
            s["from_"], s["joins"] = [], []          # SELECT without FROM keeps its other clauses (SELECT 1 WHERE ... ORDER BY 1)
        if depth == 0 and not simple and r.random() < 0.1:
            s["for_"] = dict(lock=r.choice(["UPDATE", "SHARE", "NO KEY UPDATE", "KEY SHARE"]),
                             tables=[r.choice(TABS) for _ in range(r.randrange(0, 3))], wait=r.choice(["", "NOWAIT", "SKIP LOCKED"]))
        return s

    def with_clause(self, depth):
        r = self.r
        ctes = []
        for i in range(r.randrange(1, 3)):
            q = self.select(depth + 1, simple=True)
            if r.random() < 0.2:
                right = self.select(depth + 1, simple=True)
                # operands of set operations carry no ORDER BY / LIMIT of their own (known finding setop-trailing-order-by)
                for x in (q, right):
                    for k in ("order_by", "limit", "offset", "fetch", "for_"): x[k] = [] if k == "order_by" else None
                q = dict(kind="setop", left=q, op=r.choice(["UNION", "EXCEPT", "INTERSECT"]), all=r.random() < 0.4, right=right)
            ctes.append(dict(name="cte%d" % (i + 1), cols=[r.choice(IDENTS) for _ in range(r.randrange(0, 3))], stmt=q,
                             mat=r.choice([None, None, None, True, False])))
        return dict(recursive=r.random() < 0.2, ctes=ctes)

    def query(self, depth=0):
        r = self.r
        q = self.select(depth)
        nops = 0
        while r.random() < 0.15 and nops < 3:
            # operands of set operations carry no ORDER BY / LIMIT / FOR of their own (that needs parentheses)
            for k in ("order_by", "limit", "offset", "fetch", "for_"):
                if isinstance(q, dict) and q["kind"] == "select": q[k] = [] if k == "order_by" else None
            right = self.select(depth, simple=True)
            for k in ("order_by", "limit", "offset", "fetch", "for_"): right[k] = [] if k == "order_by" else None
            q = dict(kind="setop", left=q, op=r.choice(["UNION", "EXCEPT", "INTERSECT"]), all=r.random() < 0.4, right=right)
            nops += 1
        if r.random() < 0.15:
            q["with_"] = self.with_clause(depth)
        return q

    def returning(self):
        r = self.r
        if r.random() < 0.7: return []
        return [("star",)] if r.random() < 0.3 else [rand_expr(r, r.choice([1, 3])) for _ in range(r.randrange(1, 3))]

    def insert(self):
        r = self.r
        s = dict(kind="insert", table=self.tname(), cols=[r.choice(IDENTS) for _ in range(r.randrange(0, 4))], rows=None, query=None,
                 conflict=None, returning=self.returning(), with_=None)
        if r.random() < 0.7:
            n = max(1, len(s["cols"])) if s["cols"] else r.randrange(1, 4)
            s["rows"] = [[rand_expr(r, r.choice([1, 1, 3])) for _ in range(n)] for _ in range(r.randrange(1, 4))]
        else:
            s["query"] = self.query(1)
            s["query"].pop("with_", None)
        if r.random() < 0.3:
            c = dict(target=[r.choice(IDENTS) for _ in range(r.randrange(0, 3))], constraint="", nothing=r.random() < 0.5, updates=[], where=None)
            if not c["target"] and r.random() < 0.4: c["constraint"] = r.choice(["cn1", "t_pkey"])
            if not c["nothing"]:
                c["updates"] = [(r.choice(IDENTS), rand_expr(r, r.choice([1, 3]))) for _ in range(r.randrange(1, 3))]
                if r.random() < 0.4: c["where"] = rand_expr(r, 4)
            s["conflict"] = c
        if r.random() < 0.1: s["with_"] = self.with_clause(0)
        return s

    def update(self):
        r = self.r
        s = dict(kind="update", table=self.tname(), sets=[(r.choice(IDENTS), self.expr(r.choice([1, 1, 3, 5]), depth=1)) for _ in range(r.randrange(1, 4))],
                 where=self.expr(6, depth=1) if r.random() < 0.7 else None, returning=self.returning(), with_=None)
        if r.random() < 0.1: s["with_"] = self.with_clause(0)
        return s

    def delete(self):
        r = self.r
        s = dict(kind="delete", table=self.tname(), where=self.expr(6, depth=1) if r.random() < 0.8 else None, returning=self.returning(), with_=None)
        if r.random() < 0.1: s["with_"] = self.with_clause(0)
        return s

    def merge(self):
        r = self.r
        s = dict(kind="merge", target=self.tname(), talias=r.choice(["", "tgt", "x"]), tas=r.random() < 0.5, source=self.tname(),
                 salias=r.choice(["", "src", "y"]), sas=r.random() < 0.5, on=rand_expr(r, 3), whens=[], into=r.random() < 0.8)
        for _ in range(r.randrange(1, 4)):
            ty = r.choice(["MATCHED", "NOT_MATCHED", "NOT_MATCHED_BY_SOURCE"])
            w = dict(type=ty, cond=rand_expr(r, 3) if r.random() < 0.4 else None)
            if ty == "NOT_MATCHED":
                if r.random() < 0.2: w["action"] = dict(type="INSERT", cols=[], values=[], default=True)
                else:
                    n = r.randrange(1, 3)
                    w["action"] = dict(type="INSERT", cols=[r.choice(IDENTS) for _ in range(n)] if r.random() < 0.7 else [],
                                       values=[rand_expr(r, r.choice([1, 3])) for _ in range(n)], default=False)
            elif r.random() < 0.3:
                w["action"] = dict(type="DELETE")
            else:
                w["action"] = dict(type="UPDATE", sets=[((r.choice(["", "tgt."]) + r.choice(IDENTS)), rand_expr(r, r.choice([1, 3]))) for _ in range(r.randrange(1, 3))])
            s["whens"].append(w)
        return s

    def ddl(self):
        r = self.r
        k = r.choice(["table", "table", "index", "view", "drop", "truncate"])
        if k == "table":
            cols = []
            for i in range(r.randrange(1, 5)):
                ty = r.choice([("INT", []), ("VARCHAR", ["50"]), ("DECIMAL", ["10", "2"]), ("TEXT", []), ("BOOLEAN", [])])
                cons = []
                for c in r.sample(["pk", "notnull", "null", "unique", "default", "check", "ref"], r.randrange(0, 3)):
                    if c == "default": cons.append(("default", rand_expr(r, 1)))
                    elif c == "check": cons.append(("check", rand_expr(r, 3)))
                    elif c == "ref": cons.append(("ref", r.choice(TABS), [r.choice(IDENTS)] if r.random() < 0.7 else [], r.choice(["", "CASCADE", "SET NULL", "RESTRICT"]), r.choice(["", "CASCADE", "NO ACTION"])))
                    else: cons.append((c,))
                cols.append(("c%d" % i, ty, cons))
            tcons = []
            for c in r.sample(["pk", "unique", "fk", "check"], r.randrange(0, 3)):
                name = r.choice(["", "cn1"])
                if c == "fk": tcons.append(("fk", name, [r.choice(IDENTS)], r.choice(TABS), [r.choice(IDENTS)]))
                elif c == "check": tcons.append(("check", name, rand_expr(r, 3)))
                else: tcons.append((c, name, [r.choice(IDENTS) for _ in range(r.randrange(1, 3))]))
            return dict(kind="create_table", name=self.tname(), temp=r.random() < 0.15, ine=r.random() < 0.3, cols=cols, tcons=tcons)
        if k == "index":
            return dict(kind="create_index", name="ix1", table=self.tname(), unique=r.random() < 0.3, ine=r.random() < 0.3,
                        using=r.choice(["", "", "btree", "gin", "hash"]), cols=[(r.choice(IDENTS), r.choice(["", "ASC", "DESC"])) for _ in range(r.randrange(1, 3))],
                        where=rand_expr(r, 3) if r.random() < 0.3 else None)
        if k == "view":
            q = self.query(1); q.pop("with_", None)
            return dict(kind="create_view", name=self.tname(), replace=r.random() < 0.3, temp=False, cols=[r.choice(IDENTS) for _ in range(r.randrange(0, 3))], query=q)
        if k == "drop":
            return dict(kind="drop", obj=r.choice(["TABLE", "VIEW", "INDEX"]), ife=r.random() < 0.4, names=[self.tname() for _ in range(r.randrange(1, 3))],
                        cascade=r.choice(["", "", "CASCADE", "RESTRICT"]))
        return dict(kind="truncate", table_kw=r.random() < 0.7, names=[self.tname() for _ in range(r.randrange(1, 3))],
                    identity=r.choice(["", "RESTART", "CONTINUE"]), cascade=r.choice(["", "CASCADE", "RESTRICT"]))

    def statement(self):
        k = self.r.random()
        if k < 0.55: return self.query()
        if k < 0.65: return self.insert()
        if k < 0.73: return self.update()
        if k < 0.80: return self.delete()
        if k < 0.87: return self.merge()
        return self.ddl()


def features(s):
    """clause tags of a statement (for the coverage evidence)"""
    out = set()
    k = s["kind"]
    out.add(k)
    if k == "select":
        for f in ("distinct", "distinct_on", "joins", "where", "group_by", "having", "order_by", "fetch", "for_", "with_"):
            if s.get(f): out.add(f)
        if s.get("limit") is not None: out.add("limit")
        if s.get("offset") is not None: out.add("offset")
        if len(s["from_"]) > 1: out.add("from_list")
        if any(t["sub"] for t in s["from_"]): out.add("derived")
        for jt, tr, c in s["joins"]:
            out.add("join:" + jt.replace(" JOIN", "").replace("JOIN", "INNER"))
            if c: out.add("join_" + c[0])
        for g in s["group_by"]: out.add("group:" + g[0])
    elif k == "setop":
        out |= features(s["left"]) | {"setop:" + s["op"] + (" ALL" if s["all"] else "")}
        if s.get("with_"): out.add("with_")
    elif k == "insert":
        out.add("insert_values" if s["rows"] else "insert_select")
        if s["conflict"]: out.add("on_conflict")
        if s["returning"]: out.add("returning")
    elif k in ("update", "delete"):
        if s["returning"]: out.add("returning")
        if s.get("with_"): out.add("with_")
    elif k == "merge":
        for w in s["whens"]: out.add("merge:" + w["type"] + "/" + w["action"]["type"])
    return out


class StmtRenderer:
    """text (list of token texts) of a model statement; expressions with redundant parentheses at random"""
    def __init__(self, rng, paren_p=0.1):
        self.r, self.paren_p = rng, paren_p

    def E(self, e, lv=0):
        rho = rand_rho(self.r, e, self.paren_p) if self.paren_p else {}
        # a parenthesised sub-query expression / star would change meaning: no redundant parentheses on those nodes
        for p in list(rho):
            n = e
            try:
                for i in p:
                    n = dict((j, c) for j, _, c in children(n))[i]
            except KeyError:
                del rho[p]; continue
            if n[0] in ("star", "qstar", "subq"): del rho[p]
        return [t[2] for t in Renderer(rho, stmt_renderer=self.S).render(lv, e)]

    def order(self, items):
        out = []
        for i, (e, d, n) in enumerate(items):
            if i: out.append(",")
            out += self.E(e)
            if d: out.append(d)
            if n is not None: out += ["NULLS", "FIRST" if n else "LAST"]
        return out

    def commas(self, lists):
        out = []
        for i, l in enumerate(lists):
            if i: out.append(",")
            out += l
        return out

    def gset(self, st):
        """one grouping set: ("bare", column reference) is written without parentheses, a list as ( e, ... )"""
        if isinstance(st, tuple): return self.E(st[1])
        return ["("] + self.commas([self.E(x) for x in st]) + [")"]

    def table(self, t):
        out = ["LATERAL"] if t.get("lateral") else []
        out += ["("] + self.S(t["sub"]) + [")"] if t["sub"] is not None else [t["name"]]
        if t["alias"]:
            out += (["AS"] if t["as_kw"] else []) + [t["alias"]]
        return out

    def with_(self, w):
        out = ["WITH"] + (["RECURSIVE"] if w["recursive"] else [])
        parts = []
        for c in w["ctes"]:
            p = [c["name"]]
            if c["cols"]: p += ["("] + self.commas([[x] for x in c["cols"]]) + [")"]
            p.append("AS")
            if c["mat"] is True: p.append("MATERIALIZED")
            if c["mat"] is False: p += ["NOT", "MATERIALIZED"]
            p += ["("] + self.S(c["stmt"]) + [")"]
            parts.append(p)
        return out + self.commas(parts)

    def S(self, s):
        k = s["kind"]
        out = self.with_(s["with_"]) if s.get("with_") else []
        if k == "select":
            out.append("SELECT")
            if s["distinct"]:
                out.append("DISTINCT")
                if s["distinct_on"]: out += ["ON", "("] + self.commas([self.E(e) for e in s["distinct_on"]]) + [")"]
            elif s["all_kw"]: out.append("ALL")
            cols = []
            for e, al, askw in s["cols"]:
                c = self.E(e)
                if al: c += (["AS"] if askw else []) + [al]
                cols.append(c)
            out += self.commas(cols)
            if s["from_"]:
                out += ["FROM"] + self.commas([self.table(t) for t in s["from_"]])
            for jt, tr, cond in s["joins"]:
                out += jt.split() + self.table(tr)
                if cond and cond[0] == "on": out += ["ON"] + self.E(cond[1])
                if cond and cond[0] == "using": out += ["USING", "("] + self.commas([[c] for c in cond[1]]) + [")"]
            if s["where"] is not None: out += ["WHERE"] + self.E(s["where"])
            if s["group_by"]:
                gs = []
                for g in s["group_by"]:
                    if g[0] == "expr": gs.append(self.E(g[1]))
                    elif g[0] == "rollup": gs.append(["ROLLUP", "("] + self.commas([self.E(x) for x in g[1]]) + [")"])
                    elif g[0] == "cube": gs.append(["CUBE", "("] + self.commas([self.E(x) for x in g[1]]) + [")"])
                    else: gs.append(["GROUPING", "SETS", "("] + self.commas([self.gset(st) for st in g[1]]) + [")"])
                out += ["GROUP", "BY"] + self.commas(gs)
            if s["having"] is not None: out += ["HAVING"] + self.E(s["having"])
            if s["order_by"]: out += ["ORDER", "BY"] + self.order(s["order_by"])
            if s["limit"] is not None: out += ["LIMIT", str(s["limit"])]
            if s["offset"] is not None: out += ["OFFSET", str(s["offset"])] + (["ROWS"] if s["offset_rows"] else [])
            if s["fetch"]:
                f = s["fetch"]
                out += ["FETCH", f["type"], str(f["value"])] + (["PERCENT"] if f["percent"] else []) + ([f["rows"]] if f["rows"] else [])
                out += ["WITH", "TIES"] if f["ties"] else ["ONLY"]
            if s["for_"]:
                f = s["for_"]
                out += ["FOR"] + f["lock"].split()
                if f["tables"]: out += ["OF"] + self.commas([[t] for t in f["tables"]])
                if f["wait"]: out += f["wait"].split()
            return out
        if k == "setop":
            return out + self.S(s["left"]) + [s["op"]] + (["ALL"] if s["all"] else []) + self.S(s["right"])
        if k == "insert":
            out += ["INSERT", "INTO", s["table"]]
            if s["cols"]: out += ["("] + self.commas([[c] for c in s["cols"]]) + [")"]
            if s["rows"] is not None:
                out += ["VALUES"] + self.commas([["("] + self.commas([self.E(e) for e in row]) + [")"] for row in s["rows"]])
            else:
                out += self.S(s["query"])
            c = s["conflict"]
            if c:
                out += ["ON", "CONFLICT"]
                if c["target"]: out += ["("] + self.commas([[x] for x in c["target"]]) + [")"]
                elif c["constraint"]: out += ["ON", "CONSTRAINT", c["constraint"]]
                if c["nothing"]: out += ["DO", "NOTHING"]
                else:
                    out += ["DO", "UPDATE", "SET"] + self.commas([[n, "="] + self.E(e) for n, e in c["updates"]])
                    if c["where"] is not None: out += ["WHERE"] + self.E(c["where"])
            if s["returning"]: out += ["RETURNING"] + self.commas([self.E(e) for e in s["returning"]])
            return out
        if k == "update":
            out += ["UPDATE", s["table"], "SET"] + self.commas([[n, "="] + self.E(e) for n, e in s["sets"]])
            if s["where"] is not None: out += ["WHERE"] + self.E(s["where"])
            if s["returning"]: out += ["RETURNING"] + self.commas([self.E(e) for e in s["returning"]])
            return out
        if k == "delete":
            out += ["DELETE", "FROM", s["table"]]
            if s["where"] is not None: out += ["WHERE"] + self.E(s["where"])
            if s["returning"]: out += ["RETURNING"] + self.commas([self.E(e) for e in s["returning"]])
            return out
        if k == "merge":
            out = ["MERGE"] + (["INTO"] if s.get("into", True) else []) + [s["target"]]
            if s["talias"]: out += (["AS"] if s["tas"] else []) + [s["talias"]]
            out += ["USING", s["source"]]
            if s["salias"]: out += (["AS"] if s["sas"] else []) + [s["salias"]]
            out += ["ON"] + self.E(s["on"])
            for w in s["whens"]:
                out += ["WHEN"] + {"MATCHED": ["MATCHED"], "NOT_MATCHED": ["NOT", "MATCHED"], "NOT_MATCHED_BY_SOURCE": ["NOT", "MATCHED", "BY", "SOURCE"]}[w["type"]]
                if w["cond"] is not None: out += ["AND"] + self.E(w["cond"])
                out.append("THEN")
                a = w["action"]
                if a["type"] == "DELETE": out.append("DELETE")
                elif a["type"] == "UPDATE": out += ["UPDATE", "SET"] + self.commas([[n, "="] + self.E(e) for n, e in a["sets"]])
                else:
                    out.append("INSERT")
                    if a["cols"]: out += ["("] + self.commas([[c] for c in a["cols"]]) + [")"]
                    if a["default"]: out += ["DEFAULT", "VALUES"]
                    else: out += ["VALUES", "("] + self.commas([self.E(e) for e in a["values"]]) + [")"]
            return out
        if k == "create_table":
            out = ["CREATE"] + (["TEMPORARY"] if s["temp"] else []) + ["TABLE"] + (["IF", "NOT", "EXISTS"] if s["ine"] else []) + [s["name"], "("]
            items = []
            for name, ty, cons in s["cols"]:
                it = [name, type_str(ty)]
                for c in cons:
                    if c[0] == "pk": it += ["PRIMARY", "KEY"]
                    elif c[0] == "notnull": it += ["NOT", "NULL"]
                    elif c[0] == "null": it += ["NULL"]
                    elif c[0] == "unique": it += ["UNIQUE"]
                    elif c[0] == "default": it += ["DEFAULT"] + self.E(c[1], 8)
                    elif c[0] == "check": it += ["CHECK", "("] + self.E(c[1]) + [")"]
                    elif c[0] == "ref":
                        it += ["REFERENCES", c[1]] + (["("] + self.commas([[x] for x in c[2]]) + [")"] if c[2] else [])
                        if c[3]: it += ["ON", "DELETE"] + c[3].split()
                        if c[4]: it += ["ON", "UPDATE"] + c[4].split()
                items.append(it)
            for c in s["tcons"]:
                it = ["CONSTRAINT", c[1]] if c[1] else []
                if c[0] == "pk": it += ["PRIMARY", "KEY", "("] + self.commas([[x] for x in c[2]]) + [")"]
                elif c[0] == "unique": it += ["UNIQUE", "("] + self.commas([[x] for x in c[2]]) + [")"]
                elif c[0] == "fk": it += ["FOREIGN", "KEY", "("] + self.commas([[x] for x in c[2]]) + [")", "REFERENCES", c[3], "("] + self.commas([[x] for x in c[4]]) + [")"]
                else: it += ["CHECK", "("] + self.E(c[2]) + [")"]
                items.append(it)
            return out + self.commas(items) + [")"]
        if k == "create_index":
            out = ["CREATE"] + (["UNIQUE"] if s["unique"] else []) + ["INDEX"] + (["IF", "NOT", "EXISTS"] if s["ine"] else []) + [s["name"], "ON", s["table"]]
            if s["using"]: out += ["USING", s["using"]]
            out += ["("] + self.commas([[c] + ([d] if d else []) for c, d in s["cols"]]) + [")"]
            if s["where"] is not None: out += ["WHERE"] + self.E(s["where"])
            return out
        if k == "create_view":
            out = ["CREATE"] + (["OR", "REPLACE"] if s["replace"] else []) + ["VIEW", s["name"]]
            if s["cols"]: out += ["("] + self.commas([[c] for c in s["cols"]]) + [")"]
            return out + ["AS"] + self.S(s["query"])
        if k == "drop":
            return ["DROP", s["obj"]] + (["IF", "EXISTS"] if s["ife"] else []) + self.commas([[n] for n in s["names"]]) + ([s["cascade"]] if s["cascade"] else [])
        if k == "truncate":
            out = ["TRUNCATE"] + (["TABLE"] if s["table_kw"] else []) + self.commas([[n] for n in s["names"]])
            if s["identity"]: out += [s["identity"], "IDENTITY"]
            return out + ([s["cascade"]] if s["cascade"] else [])
        raise ValueError(k)


class StmtPrescriber:
    def __init__(self):
        self.P = Prescriber(stmt_ast=self.ast)

    def E(self, e):
        return self.P.ast_of(e)

    def table(self, t):
        return node("TableReference", Name=t["name"], Alias=t["alias"], Subquery=None if t["sub"] is None else self.ast(t["sub"]), Lateral=t.get("lateral", False))

    def with_(self, w):
        ctes = []
        for c in w["ctes"]:
            d = node("CommonTableExpr", Name=c["name"], Columns=list(c["cols"]), Statement=self.ast(c["stmt"]))
            if c["mat"] is not None: d["Materialized"] = {"*": c["mat"]}
            ctes.append(d)
        return node("WithClause", Recursive=w["recursive"], CTEs=ctes)

    def updexprs(self, sets):
        return [node("UpdateExpression", Column=node("Identifier", Name=n), Value=self.E(e)) for n, e in sets]

    def ast(self, s):
        k = s["kind"]
        W = self.with_(s["with_"]) if s.get("with_") else None
        if k == "select":
            cols = []
            for e, al, _ in s["cols"]:
                c = self.E(e)
                cols.append(node("AliasedExpression", Expr=c, Alias=al) if al else c)
            joins = []
            first = self.table(s["from_"][-1]) if s["from_"] else None      # JOIN binds tighter than the comma
            for i, (jt, tr, cond) in enumerate(s["joins"]):
                words = jt.split()[:-1]
                words = [w for w in words if w != "OUTER"]
                nat = "NATURAL" in words
                base = [w for w in words if w != "NATURAL"]
                ty = (base[0] if base else "INNER")
                if nat: ty = "NATURAL " + ty
                left = first if i == 0 else node("TableReference", Name="(%s_with_%d_joins)" % (s["from_"][-1]["name"], i))
                c = None
                if cond and cond[0] == "on": c = self.E(cond[1])
                if cond and cond[0] == "using":
                    ids = [node("Identifier", Name=x) for x in cond[1]]
                    c = ids[0] if len(ids) == 1 else node("ListExpression", Values=ids)
                joins.append(node("JoinClause", Type=ty, Left=left, Right=self.table(tr), Condition=c))
            gb = []
            for g in s["group_by"]:
                if g[0] == "expr": gb.append(self.E(g[1]))
                elif g[0] == "rollup": gb.append(node("RollupExpression", Expressions=[self.E(x) for x in g[1]]))
                elif g[0] == "cube": gb.append(node("CubeExpression", Expressions=[self.E(x) for x in g[1]]))
                else:
                    d = {"_": "GroupingSetsExpression", "Sets": [[self.E(st[1])] if isinstance(st, tuple) else [self.E(x) for x in st] for st in g[1]]}
                    gb.append(d)
            d = node("SelectStatement", With=W, Distinct=s["distinct"], DistinctOnColumns=[self.E(e) for e in s["distinct_on"]], Columns=cols,
                     From=[self.table(t) for t in s["from_"]], TableName=s["from_"][0]["name"] if s["from_"] else "", Joins=joins,
                     Where=None if s["where"] is None else self.E(s["where"]), GroupBy=gb,
                     Having=None if s["having"] is None else self.E(s["having"]), OrderBy=[self.P.order(o) for o in s["order_by"]])
            if s["limit"] is not None: d["Limit"] = {"*": s["limit"]}
            if s["offset"] is not None: d["Offset"] = {"*": s["offset"]}
            if s["fetch"]:
                f = s["fetch"]
                d["Fetch"] = node("FetchClause", FetchType=f["type"], IsPercent=f["percent"], WithTies=f["ties"])
                d["Fetch"]["FetchValue"] = {"*": f["value"]}
            if s["for_"]:
                f = s["for_"]
                d["For"] = node("ForClause", LockType=f["lock"], Tables=list(f["tables"]), NoWait=f["wait"] == "NOWAIT", SkipLocked=f["wait"] == "SKIP LOCKED")
            return d
        if k == "setop":
            d = node("SetOperation", Left=self.ast(s["left"]), Operator=s["op"], All=s["all"], Right=self.ast(s["right"]))
            if W:
                # the tree has no WITH slot on a set operation: the clause belongs to the left-most SELECT
                x = d
                while x["Left"]["_"] == "SetOperation": x = x["Left"]
                x["Left"]["With"] = W
            return d
        if k == "insert":
            d = node("InsertStatement", With=W, TableName=s["table"], Columns=[node("Identifier", Name=c) for c in s["cols"]],
                     Values=None if s["rows"] is None else [[self.E(e) for e in row] for row in s["rows"]],
                     Query=None if s["query"] is None else self.ast(s["query"]), Returning=[self.E(e) for e in s["returning"]])
            c = s["conflict"]
            if c:
                act = node("OnConflictAction", DoNothing=c["nothing"], DoUpdate=self.updexprs(c["updates"]), Where=None if c["where"] is None else self.E(c["where"]))
                d["OnConflict"] = node("OnConflict", Target=[node("Identifier", Name=x) for x in c["target"]], Constraint=c["constraint"])
                d["OnConflict"]["Action"] = act
            return d
        if k == "update":
            return node("UpdateStatement", With=W, TableName=s["table"], Assignments=self.updexprs(s["sets"]),
                        Where=None if s["where"] is None else self.E(s["where"]), Returning=[self.E(e) for e in s["returning"]])
        if k == "delete":
            return node("DeleteStatement", With=W, TableName=s["table"], Where=None if s["where"] is None else self.E(s["where"]),
                        Returning=[self.E(e) for e in s["returning"]])
        if k == "merge":
            whens = []
            for w in s["whens"]:
                a = w["action"]
                if a["type"] == "DELETE": act = node("MergeAction", ActionType="DELETE")
                elif a["type"] == "UPDATE": act = node("MergeAction", ActionType="UPDATE", SetClauses=[node("SetClause", Column=n, Value=self.E(e)) for n, e in a["sets"]])
                else: act = node("MergeAction", ActionType="INSERT", Columns=list(a["cols"]), Values=[self.E(e) for e in a["values"]], DefaultValues=a["default"])
                whens.append(node("MergeWhenClause", Type=w["type"], Condition=None if w["cond"] is None else self.E(w["cond"]), Action=act))
            return node("MergeStatement", TargetTable=node("TableReference", Name=s["target"]), TargetAlias=s["talias"],
                        SourceTable=node("TableReference", Name=s["source"]), SourceAlias=s["salias"], OnCondition=self.E(s["on"]), WhenClauses=whens)
        if k == "create_table":
            cols = []
            for name, ty, cons in s["cols"]:
                cs = []
                for c in cons:
                    if c[0] == "pk": cs.append(node("ColumnConstraint", Type="PRIMARY KEY"))
                    elif c[0] == "notnull": cs.append(node("ColumnConstraint", Type="NOT NULL"))
                    elif c[0] == "null": cs.append(node("ColumnConstraint", Type="NULL"))
                    elif c[0] == "unique": cs.append(node("ColumnConstraint", Type="UNIQUE"))
                    elif c[0] == "default": cs.append(node("ColumnConstraint", Type="DEFAULT", Default=self.E(c[1])))
                    elif c[0] == "check": cs.append(node("ColumnConstraint", Type="CHECK", Check=self.E(c[1])))
                    elif c[0] == "ref":
                        cs.append(node("ColumnConstraint", Type="REFERENCES",
                                       References=node("ReferenceDefinition", Table=c[1], Columns=list(c[2]), OnDelete=c[3], OnUpdate=c[4])))
                cols.append(node("ColumnDef", Name=name, Type=type_str(ty), Constraints=cs))
            tcs = []
            for c in s["tcons"]:
                if c[0] == "pk": tcs.append(node("TableConstraint", Name=c[1], Type="PRIMARY KEY", Columns=list(c[2])))
                elif c[0] == "unique": tcs.append(node("TableConstraint", Name=c[1], Type="UNIQUE", Columns=list(c[2])))
                elif c[0] == "fk": tcs.append(node("TableConstraint", Name=c[1], Type="FOREIGN KEY", Columns=list(c[2]),
                                                   References=node("ReferenceDefinition", Table=c[3], Columns=list(c[4]))))
                else: tcs.append(node("TableConstraint", Name=c[1], Type="CHECK", Check=self.E(c[2])))
            return node("CreateTableStatement", Name=s["name"], Temporary=s["temp"], IfNotExists=s["ine"], Columns=cols, Constraints=tcs)
        if k == "create_index":
            return node("CreateIndexStatement", Name=s["name"], Table=s["table"], Unique=s["unique"], IfNotExists=s["ine"], Using=s["using"],
                        Columns=[node("IndexColumn", Column=c, Direction=d) for c, d in s["cols"]],
                        Where=None if s["where"] is None else self.E(s["where"]))
        if k == "create_view":
            return node("CreateViewStatement", Name=s["name"], OrReplace=s["replace"], Columns=list(s["cols"]), Query=self.ast(s["query"]))
        if k == "drop":
            return node("DropStatement", ObjectType=s["obj"], IfExists=s["ife"], Names=list(s["names"]), CascadeType=s["cascade"])
        if k == "truncate":
            return node("TruncateStatement", Tables=list(s["names"]), RestartIdentity=s["identity"] == "RESTART",
                        ContinueIdentity=s["identity"] == "CONTINUE", CascadeType=s["cascade"])
        raise ValueError(k)


# clause keywords whose spelling never reaches the tree: safe to write in lower case (layout variation)
CASE_FREE_KEYWORDS = {"SELECT", "FROM", "WHERE", "GROUP", "BY", "HAVING", "ORDER", "LIMIT", "OFFSET", "INSERT", "INTO", "VALUES", "UPDATE", "SET",
                      "DELETE", "RETURNING", "ON", "CONFLICT", "DO", "NOTHING", "CONSTRAINT", "WITH", "RECURSIVE", "AS", "JOIN", "INNER", "LEFT", "RIGHT",
                      "FULL", "OUTER", "CROSS", "NATURAL", "USING", "DISTINCT", "MATERIALIZED", "NULLS", "FIRST", "LAST", "ASC", "DESC", "ROLLUP", "CUBE",
                      # keywords whose spelling used to be copied into the tree; since repo a8df5c2 4f7af58 7e001b2 the parser stores the
                      # canonical upper-case spelling (BinaryExpression.Operator, SetOperation.Operator, WindowFrame.Type)
                      "AND", "OR", "LIKE", "ILIKE", "UNION", "EXCEPT", "INTERSECT", "ROWS", "RANGE"}


def lower_clause_keywords(words):
    return [w.lower() if w in CASE_FREE_KEYWORDS else w for w in words]
