"""C03 — reference-grammar objects in Python: model expressions / statements as tuples, their renderings (token
list with text, for every parenthesisation choice), and the PRESCRIBED tree `ast_of` in the JSON shape of the
harness dump (struct -> {"_": type, non-zero fields}).  This is the generator side of the property oracle
(tie b); it never looks at the Gallina parser.  The same objects are emitted as Coq terms so that
Spec/RefGrammar.v `render` / Model/Expr.v `ast_of` are cross-checked against this file on every run.

Expression nodes (first group = Spec/RefGrammar.v `mexpr`, second group = statement-level extensions that
exist only here):
  ("ident", quoted, name) ("qident", table, name) ("num", s) ("str", s) ("ph", s) ("null",) ("bool", b)
  ("bin", op, l, r) ("not", e) ("isnull", e, neg) ("in", e, neg, items) ("between", e, neg, lo, hi)
  ("like", e, neg, ci, pat) ("castop", e, (tname, args)) ("func", name, distinct, args)
  ("case", scrut|None, whens, els|None) ("cast", e, (tname, args)) ("tuple", es)
  ("star",) ("qstar", table) ("exists", q) ("notexists", q) ("subq", q) ("insub", e, neg, q)
  ("anyall", all, e, op, q) ("funcx", name, distinct, args, extras) ("interval", s) ("array", es)
  ("subscript", e, idx) ("slice", e, lo, hi)
"""
import random

CMP_OPS = ["=", "<>", "!=", "<", ">", "<=", ">="]
BIN_CTX = {"OR": (0, 1), "AND": (1, 2), "||": (4, 5), "+": (5, 6), "-": (5, 6), "*": (6, 7), "/": (6, 7), "%": (6, 7)}
for _c in CMP_OPS:
    BIN_CTX[_c] = (4, 4)
BIN_LEVEL = {"OR": 0, "AND": 1, "||": 4, "+": 5, "-": 5, "*": 6, "/": 6, "%": 6}
for _c in CMP_OPS:
    BIN_LEVEL[_c] = 3
BIN_TY = {"OR": "TyOr", "AND": "TyAnd", "=": "TyEq", "<>": "TyNeq", "!=": "TyNeq", "<": "TyLt", ">": "TyGt", "<=": "TyLtEq",
          ">=": "TyGtEq", "||": "TyStringConcat", "+": "TyPlus", "-": "TyMinus", "*": "TyAsterisk", "/": "TyDiv", "%": "TyMod"}
BIN_COQ = {"OR": "BOr", "AND": "BAnd", "=": "(BCmp CEq)", "<>": "(BCmp CNeq)", "!=": "(BCmp CBangEq)", "<": "(BCmp CLt)",
           ">": "(BCmp CGt)", "<=": "(BCmp CLe)", ">=": "(BCmp CGe)", "||": "BConcat", "+": "BAdd", "-": "BSub", "*": "BMul",
           "/": "BDiv", "%": "BMod"}

CORE = {"ident", "qident", "num", "str", "ph", "null", "bool", "bin", "not", "isnull", "in", "between", "like", "castop",
        "func", "case", "cast", "tuple"}


def level_of(e):
    k = e[0]
    if k == "bin": return BIN_LEVEL[e[1]]
    if k == "not": return 2
    if k in ("isnull", "in", "between", "like", "insub", "anyall"): return 3
    if k == "castop": return 7
    return 8


def children(e):
    """(index, context level, child) for every expression child, indices as in RefGrammar.render"""
    k = e[0]
    if k == "bin":
        a, b = BIN_CTX[e[1]]
        return [(0, a, e[2]), (1, b, e[3])]
    if k == "not": return [(0, 2, e[1])]
    if k == "isnull": return [(0, 4, e[1])]
    if k == "in": return [(0, 4, e[1])] + [(1 + i, 0, x) for i, x in enumerate(e[3])]
    if k == "between": return [(0, 4, e[1]), (1, 4, e[3]), (2, 4, e[4])]
    if k == "like": return [(0, 4, e[1]), (1, 4, e[4])]
    if k == "castop": return [(0, 7, e[1])]
    if k == "func": return [(i, 0, x) for i, x in enumerate(e[3])]
    if k == "case":
        out = []
        if e[1] is not None: out.append((0, 0, e[1]))
        if e[3] is not None: out.append((1, 0, e[3]))
        for i, (c, v) in enumerate(e[2]):
            out += [(2 + 2 * i, 0, c), (3 + 2 * i, 0, v)]
        return out
    if k == "cast": return [(0, 0, e[1])]
    if k == "tuple": return [(i, 0, x) for i, x in enumerate(e[1])]
    if k == "insub": return [(0, 4, e[1])]
    if k == "anyall": return [(0, 4, e[2])]
    if k == "funcx": return [(i, 0, x) for i, x in enumerate(e[3])]
    if k == "array": return [(i, 0, x) for i, x in enumerate(e[1])]
    if k == "subscript": return [(0, 8, e[1])] + [(1 + i, 0, x) for i, x in enumerate(e[2])]
    return []


def is_core(e):
    return e[0] in CORE and all(is_core(c) for _, _, c in children(e))


def size(e):
    return 1 + sum(size(c) for _, _, c in children(e))


# ------------------------------------------------------------------------------------------------
# rendering: tokens are (ty, lit, text)

def T(ty, lit, text=None):
    return (ty, lit, lit if text is None else text)


LP, RP, COMMA = T("TyLParen", "("), T("TyRParen", ")"), T("TyComma", ",")


def sql_string(s):
    return "'" + s.replace("'", "''") + "'"


def type_toks(t):
    out = [T("TyIdent", t[0])]
    if t[1]:
        out.append(LP)
        for i, a in enumerate(t[1]):
            if i: out.append(COMMA)
            out.append(T("TyNumber", a))
        out.append(RP)
    return out


def type_str(t):
    return t[0] + ("(" + ",".join(t[1]) + ")" if t[1] else "")


def sep(lists, s=COMMA):
    out = []
    for i, l in enumerate(lists):
        if i: out.append(s)
        out += l
    return out


def KW(ty, s):
    return T(ty, s)


class Renderer:
    """rho: dict path(tuple) -> number of redundant parenthesis pairs; kwcase: function applied to keyword text"""
    def __init__(self, rho=None, stmt_renderer=None, like_primary=False, cmp_primary=False):
        self.rho = rho or {}
        self.sr = stmt_renderer
        # context levels of the pinned (defective) parser, used only to build inputs it accepts
        self.like_primary, self.cmp_primary = like_primary, cmp_primary

    def render(self, lv, e, path=()):
        n = self.rho.get(path, 0) + (1 if level_of(e) < lv else 0)
        body = self.body(e, path)
        return [LP] * n + body + [RP] * n

    def body(self, e, path):
        k = e[0]
        R = lambda lv, c, i: self.render(lv, c, path + (i,))
        nt = lambda neg: [KW("TyNot", "NOT")] if neg else []
        if k == "ident": return [T("TyDQuoted" if e[1] else "TyIdent", e[2], '"%s"' % e[2] if e[1] else e[2])]
        if k == "qident": return [T("TyIdent", e[1]), T("TyPeriod", "."), T("TyIdent", e[2])]
        if k == "num": return [T("TyNumber", e[1])]
        if k == "str": return [T("TySQuoted", e[1], sql_string(e[1]))]
        if k == "ph": return [T("TyPlaceholder", e[1])]
        if k == "null": return [KW("TyNull", "NULL")]
        if k == "bool": return [KW("TyTrue", "TRUE") if e[1] else KW("TyFalse", "FALSE")]
        if k == "bin":
            a, b = BIN_CTX[e[1]]
            if self.cmp_primary and level_of(e) == 3: b = 8
            return R(a, e[2], 0) + [T(BIN_TY[e[1]], e[1])] + R(b, e[3], 1)
        if k == "not": return [KW("TyNot", "NOT")] + R(2, e[1], 0)
        if k == "isnull": return R(4, e[1], 0) + [KW("TyIs", "IS")] + nt(e[2]) + [KW("TyNull", "NULL")]
        if k == "in":
            return R(4, e[1], 0) + nt(e[2]) + [KW("TyIn", "IN"), LP] + sep([R(0, x, 1 + i) for i, x in enumerate(e[3])]) + [RP]
        if k == "between":
            return R(4, e[1], 0) + nt(e[2]) + [KW("TyBetween", "BETWEEN")] + R(4, e[3], 1) + [KW("TyAnd", "AND")] + R(4, e[4], 2)
        if k == "like":
            return (R(4, e[1], 0) + nt(e[2]) + [KW("TyILike", "ILIKE") if e[3] else KW("TyLike", "LIKE")]
                    + R(8 if self.like_primary else 4, e[4], 1))
        if k == "castop": return R(7, e[1], 0) + [T("TyDoubleColon", "::")] + type_toks(e[2])
        if k == "func":
            return ([T("TyIdent", e[1]), LP] + ([KW("TyDistinct", "DISTINCT")] if e[2] else [])
                    + sep([R(0, x, i) for i, x in enumerate(e[3])]) + [RP])
        if k == "case":
            out = [KW("TyCase", "CASE")]
            if e[1] is not None: out += R(0, e[1], 0)
            for i, (c, v) in enumerate(e[2]):
                out += [KW("TyWhen", "WHEN")] + R(0, c, 2 + 2 * i) + [KW("TyThen", "THEN")] + R(0, v, 3 + 2 * i)
            if e[3] is not None: out += [KW("TyElse", "ELSE")] + R(0, e[3], 1)
            return out + [KW("TyEnd", "END")]
        if k == "cast": return [KW("TyCast", "CAST"), LP] + R(0, e[1], 0) + [KW("TyAs", "AS")] + type_toks(e[2]) + [RP]
        if k == "tuple": return [LP] + sep([R(0, x, i) for i, x in enumerate(e[1])]) + [RP]
        # ---- statement-level extensions (text only matters: ty "?" = not used by the Coq cross-checks)
        W = lambda s: T("?", s)
        Q = lambda q: [W(t) for t in self.sr(q)]
        if k == "star": return [T("TyAsterisk", "*")]
        if k == "qstar": return [T("TyIdent", e[1]), T("TyPeriod", "."), T("TyAsterisk", "*")]
        if k == "exists": return [W("EXISTS"), LP] + Q(e[1]) + [RP]
        if k == "notexists": return [W("NOT"), W("EXISTS"), LP] + Q(e[1]) + [RP]
        if k == "subq": return [LP] + Q(e[1]) + [RP]
        if k == "insub": return R(4, e[1], 0) + nt(e[2]) + [W("IN"), LP] + Q(e[3]) + [RP]
        if k == "anyall": return R(4, e[2], 0) + [W(e[3]), W("ALL" if e[1] else "ANY"), LP] + Q(e[4]) + [RP]
        if k == "interval": return [W("INTERVAL"), W(sql_string(e[1]))]
        if k == "array": return [W("ARRAY"), W("[")] + sep([R(0, x, i) for i, x in enumerate(e[1])]) + [W("]")]
        if k == "subscript":
            out = R(8, e[1], 0)
            for i, x in enumerate(e[2]):
                out += [W("[")] + R(0, x, 1 + i) + [W("]")]
            return out
        if k == "funcx":
            x = e[4]
            out = [T("TyIdent", e[1]), LP] + ([W("DISTINCT")] if e[2] else []) + sep([R(0, a, i) for i, a in enumerate(e[3])])
            if x.get("order_by"):
                out += [W("ORDER"), W("BY")] + sep([self.order_item(o, path + (100 + i,)) for i, o in enumerate(x["order_by"])])
            out += [RP]
            if x.get("within"):
                out += [W("WITHIN"), W("GROUP"), LP, W("ORDER"), W("BY")] + sep([self.order_item(o, path + (200 + i,)) for i, o in enumerate(x["within"])]) + [RP]
            if x.get("filter") is not None:
                out += [W("FILTER"), LP, W("WHERE")] + self.render(0, x["filter"], path + (300,)) + [RP]
            if x.get("over") is not None:
                out += [W("OVER")] + self.window(x["over"], path + (400,))
            return out
        raise ValueError(k)

    def order_item(self, o, path):
        e, direction, nulls = o
        out = self.render(0, e, path)
        if direction: out.append(T("?", direction))
        if nulls is not None: out += [T("?", "NULLS"), T("?", "FIRST" if nulls else "LAST")]
        return out

    def window(self, w, path):
        out = [LP]
        if w.get("partition"):
            out += [T("?", "PARTITION"), T("?", "BY")] + sep([self.render(0, x, path + (i,)) for i, x in enumerate(w["partition"])])
        if w.get("order"):
            out += [T("?", "ORDER"), T("?", "BY")] + sep([self.order_item(o, path + (50 + i,)) for i, o in enumerate(w["order"])])
        if w.get("frame"):
            ty, st, en = w["frame"]
            out.append(T("?", ty))
            if en is not None:
                out += [T("?", "BETWEEN")] + self.bound(st, path + (90,)) + [T("?", "AND")] + self.bound(en, path + (91,))
            else:
                out += self.bound(st, path + (90,))
        return out + [RP]

    def bound(self, b, path):
        ty, v = b
        if v is not None:
            return self.render(0, v, path) + [T("?", ty)]
        return [T("?", w) for w in ty.split()]


def text_of(toks):
    return " ".join(t[2] for t in toks)


# ------------------------------------------------------------------------------------------------
# prescribed trees (JSON shape of the harness dump)

def node(ty, **fields):
    d = {"_": ty}
    for k, v in fields.items():
        if v is None or v is False or v == "" or v == [] or (isinstance(v, int) and not isinstance(v, bool) and v == 0):
            continue
        d[k] = v
    return d


def num_type(s):
    return "float" if any(c in s for c in ".eE") else "int"


NULL_LIT = {"_": "LiteralValue", "Type": "null"}


class Prescriber:
    def __init__(self, stmt_ast=None):
        self.stmt_ast = stmt_ast

    def ast_of(self, e):
        A = self.ast_of
        k = e[0]
        if k == "ident": return node("Identifier", Name=e[2])
        if k == "qident": return node("Identifier", Name=e[2], Table=e[1])
        if k == "num": return node("LiteralValue", Value=e[1], Type=num_type(e[1]))
        if k == "str":
            d = node("LiteralValue", Type="string")
            if e[1] != "": d["Value"] = e[1]
            else: d["Value"] = ""
            return d
        if k == "ph": return node("LiteralValue", Value=e[1], Type="placeholder")
        if k == "null": return dict(NULL_LIT)
        if k == "bool": return node("LiteralValue", Value="TRUE" if e[1] else "FALSE", Type="bool")
        if k == "bin": return node("BinaryExpression", Left=A(e[2]), Operator=e[1], Right=A(e[3]))
        if k == "not": return node("UnaryExpression", Operator=2, Expr=A(e[1]))
        if k == "isnull": return node("BinaryExpression", Left=A(e[1]), Operator="IS NULL", Right=dict(NULL_LIT), Not=e[2])
        if k == "in": return node("InExpression", Expr=A(e[1]), List=[A(x) for x in e[3]], Not=e[2])
        if k == "between": return node("BetweenExpression", Expr=A(e[1]), Lower=A(e[3]), Upper=A(e[4]), Not=e[2])
        if k == "like": return node("BinaryExpression", Left=A(e[1]), Operator="ILIKE" if e[3] else "LIKE", Right=A(e[4]), Not=e[2])
        if k in ("castop", "cast"): return node("CastExpression", Expr=A(e[1]), Type=type_str(e[2]))
        if k == "func": return node("FunctionCall", Name=e[1], Arguments=[A(x) for x in e[3]], Distinct=e[2])
        if k == "case":
            return node("CaseExpression", Value=None if e[1] is None else A(e[1]),
                        WhenClauses=[node("WhenClause", Condition=A(c), Result=A(v)) for c, v in e[2]],
                        ElseClause=None if e[3] is None else A(e[3]))
        if k == "tuple": return node("TupleExpression", Expressions=[A(x) for x in e[1]])
        S = self.stmt_ast
        if k == "star": return node("Identifier", Name="*")
        if k == "qstar": return node("Identifier", Name="*", Table=e[1])
        if k == "exists": return node("ExistsExpression", Subquery=S(e[1]))
        if k == "notexists":
            return node("BinaryExpression", Left=node("ExistsExpression", Subquery=S(e[1])), Operator="NOT", Not=True)
        if k == "subq": return node("SubqueryExpression", Subquery=S(e[1]))
        if k == "insub": return node("InExpression", Expr=A(e[1]), Subquery=S(e[3]), Not=e[2])
        if k == "anyall": return node("AllExpression" if e[1] else "AnyExpression", Expr=A(e[2]), Operator=e[3], Subquery=S(e[4]))
        if k == "interval": return node("IntervalExpression", Value=e[1])
        if k == "array": return node("ArrayConstructorExpression", Elements=[A(x) for x in e[1]])
        if k == "subscript":
            cur = A(e[1])
            for x in e[2]:
                cur = node("ArraySubscriptExpression", Array=cur, Indices=[A(x)])
            return cur
        if k == "funcx":
            x = e[4]
            return node("FunctionCall", Name=e[1], Arguments=[A(a) for a in e[3]], Distinct=e[2],
                        OrderBy=[self.order(o) for o in x.get("order_by") or []],
                        WithinGroup=[self.order(o) for o in x.get("within") or []],
                        Filter=None if x.get("filter") is None else A(x["filter"]),
                        Over=None if x.get("over") is None else self.window(x["over"]))
        raise ValueError(k)

    def order(self, o):
        e, direction, nulls = o
        d = node("OrderByExpression", Expression=self.ast_of(e), Ascending=(direction != "DESC"))
        if nulls is not None:
            d["NullsFirst"] = {"*": bool(nulls)}
        return d

    def window(self, w):
        d = node("WindowSpec", PartitionBy=[self.ast_of(x) for x in w.get("partition") or []],
                 OrderBy=[self.order(o) for o in w.get("order") or []])
        if w.get("frame"):
            ty, st, en = w["frame"]
            d["FrameClause"] = node("WindowFrame", Type=ty, Start=self.bound(st), End=None if en is None else self.bound(en))
        return d

    def bound(self, b):
        ty, v = b
        return node("WindowFrameBound", Type=ty, Value=None if v is None else self.ast_of(v))


# ------------------------------------------------------------------------------------------------
# tree comparison: first difference between prescribed and observed

def tree_diff(want, got, path="$"):
    if isinstance(want, dict) and isinstance(got, dict):
        if want.get("_") != got.get("_"):
            return "%s: node type %s, prescribed %s" % (path, got.get("_"), want.get("_"))
        for k in sorted(set(want) | set(got)):
            if k not in got:
                return "%s.%s: written but missing from the tree (prescribed %s)" % (path, k, short(want[k]))
            if k not in want:
                return "%s.%s: unwritten appears in the tree (%s)" % (path, k, short(got[k]))
            d = tree_diff(want[k], got[k], path + "." + k)
            if d: return d
        return None
    if isinstance(want, list) and isinstance(got, list):
        if len(want) != len(got):
            return "%s: %d elements, prescribed %d" % (path, len(got), len(want))
        for i, (a, b) in enumerate(zip(want, got)):
            d = tree_diff(a, b, "%s[%d]" % (path, i))
            if d: return d
        return None
    if type(want) != type(got) or want != got:
        return "%s: %s, prescribed %s" % (path, short(got), short(want))
    return None


def short(v):
    import json
    s = json.dumps(v)
    return s if len(s) < 120 else s[:117] + "..."


# ------------------------------------------------------------------------------------------------
# Coq emission

def coq_str(s):
    return '"' + s.replace('"', '""') + '"'


def coq_bool(b):
    return "true" if b else "false"


def coq_type(t):
    return "(MkType %s [%s])" % (coq_str(t[0]), "; ".join(coq_str(a) for a in t[1]))


def coq_mexpr(e):
    k = e[0]
    C = coq_mexpr
    L = lambda l: "[" + "; ".join(C(x) for x in l) + "]"
    if k == "ident": return "(MIdent %s %s)" % (coq_bool(e[1]), coq_str(e[2]))
    if k == "qident": return "(MQIdent %s %s)" % (coq_str(e[1]), coq_str(e[2]))
    if k == "num": return "(MNum %s)" % coq_str(e[1])
    if k == "str": return "(MStr %s)" % coq_str(e[1])
    if k == "ph": return "(MPlaceholder %s)" % coq_str(e[1])
    if k == "null": return "MNull"
    if k == "bool": return "(MBool %s)" % coq_bool(e[1])
    if k == "bin": return "(MBin %s %s %s)" % (BIN_COQ[e[1]], C(e[2]), C(e[3]))
    if k == "not": return "(MNot %s)" % C(e[1])
    if k == "isnull": return "(MIsNull %s %s)" % (C(e[1]), coq_bool(e[2]))
    if k == "in": return "(MIn %s %s %s)" % (C(e[1]), coq_bool(e[2]), L(e[3]))
    if k == "between": return "(MBetween %s %s %s %s)" % (C(e[1]), coq_bool(e[2]), C(e[3]), C(e[4]))
    if k == "like": return "(MLike %s %s %s %s)" % (C(e[1]), coq_bool(e[2]), coq_bool(e[3]), C(e[4]))
    if k == "castop": return "(MCastOp %s %s)" % (C(e[1]), coq_type(e[2]))
    if k == "func": return "(MFunc %s %s %s)" % (coq_str(e[1]), coq_bool(e[2]), L(e[3]))
    if k == "case":
        return "(MCase %s [%s] %s)" % ("None" if e[1] is None else "(Some %s)" % C(e[1]),
                                       "; ".join("(%s, %s)" % (C(c), C(v)) for c, v in e[2]),
                                       "None" if e[3] is None else "(Some %s)" % C(e[3]))
    if k == "cast": return "(MCast %s %s)" % (C(e[1]), coq_type(e[2]))
    if k == "tuple": return "(MTuple %s)" % L(e[1])
    raise ValueError(k)


def coq_rho(rho):
    return "(rho_of [%s])" % "; ".join("([%s], %d)" % ("; ".join(str(i) for i in p), n) for p, n in sorted(rho.items()) if n)


def coq_tok(ty, lit, n=None):
    if ty == "TyOther":
        return "Tk (TyOther %d) %s" % (n, coq_str(lit))
    return "Tk %s %s" % (ty, coq_str(lit))


def coq_toks(toks):
    return "[" + "; ".join(coq_tok(t[0], t[1]) for t in toks) + "]"


def coq_sx(v):
    if isinstance(v, dict):
        if "*" in v and "_" not in v:
            return "(SPtr %s)" % coq_sx(v["*"])
        return "(SNode %s [%s])" % (coq_str(v["_"]), "; ".join("(%s, %s)" % (coq_str(k), coq_sx(v[k])) for k in sorted(v) if k != "_"))
    if isinstance(v, list): return "(SList [%s])" % "; ".join(coq_sx(x) for x in v)
    if isinstance(v, bool): return "(SBool %s)" % coq_bool(v)
    if isinstance(v, int): return "(SInt (%d)%%Z)" % v
    if isinstance(v, str): return "(SStr %s)" % coq_str(v)
    if v is None: return "SNil"
    raise ValueError(repr(v))


# ------------------------------------------------------------------------------------------------
# expression generators

IDENTS = ["a", "b", "c", "x", "y", "id", "name", "price", "qty", "status", "created_at", "Amount", "col1", "_u"]
TABS = ["t", "u", "users", "o"]
NUMS = ["0", "1", "2", "7", "42", "100", "3.14", "0.5", "1e3", "2.5E2", "007"]
STRS = ["x", "hello", "it's", "", "a b", "%a_", "2024-01-01", "OR", "naïve", "(", "a''b"]
PHS = ["$1", "$2", "@p", "@name"]
FNAMES = ["COUNT", "SUM", "UPPER", "coalesce", "f", "NULLIF", "my_func", "LENGTH"]
TYPES = [("INT", []), ("TEXT", []), ("VARCHAR", ["20"]), ("NUMERIC", ["10", "2"]), ("mytype", []), ("DECIMAL", ["8"])]


def atom(r):
    k = r.randrange(10)
    if k < 3: return ("ident", False, r.choice(IDENTS))
    if k == 3: return ("ident", True, r.choice(["Col", "my col", "select", "a.b"]))
    if k == 4: return ("qident", r.choice(TABS), r.choice(IDENTS))
    if k == 5: return ("num", r.choice(NUMS))
    if k == 6: return ("str", r.choice(STRS))
    if k == 7: return ("ph", r.choice(PHS))
    if k == 8: return ("null",)
    return ("bool", r.random() < 0.5)


OPERATORS = (["OR", "AND", "NOT"] + CMP_OPS + ["IS NULL", "IS NOT NULL", "IN", "NOT IN", "BETWEEN", "NOT BETWEEN", "LIKE", "NOT LIKE",
             "ILIKE", "NOT ILIKE", "||", "+", "-", "*", "/", "%", "::"])


def slots(op):
    if op in ("NOT", "IS NULL", "IS NOT NULL", "::"): return 1
    if op in ("BETWEEN", "NOT BETWEEN"): return 3
    return 2


def build(op, args):
    """node of operator `op` with the given operand list (len = slots(op))"""
    if op in BIN_CTX: return ("bin", op, args[0], args[1])
    if op == "NOT": return ("not", args[0])
    if op in ("IS NULL", "IS NOT NULL"): return ("isnull", args[0], op == "IS NOT NULL")
    if op in ("IN", "NOT IN"): return ("in", args[0], op == "NOT IN", [args[1], ("num", "9")])
    if op in ("BETWEEN", "NOT BETWEEN"): return ("between", args[0], op.startswith("NOT"), args[1], args[2])
    if op in ("LIKE", "NOT LIKE", "ILIKE", "NOT ILIKE"): return ("like", args[0], op.startswith("NOT"), "ILIKE" in op, args[1])
    if op == "::": return ("castop", args[0], ("INT", []))
    raise ValueError(op)


def pair_cases():
    """all (outer operator, slot, inner operator) trees x three parenthesisation variants"""
    out = []
    names = [("ident", False, "a"), ("ident", False, "b"), ("ident", False, "c"), ("num", "1"), ("ident", False, "d")]
    for O in OPERATORS:
        for s in range(slots(O)):
            for I in OPERATORS:
                inner = build(I, names[:slots(I)])
                args = [names[3], names[4], ("str", "z")][:slots(O)]
                args[s] = inner
                e = build(O, args)
                ipath = (s,)
                for variant, rho in (("required", {}), ("redundant-inner", {ipath: 1}),
                                     ("redundant-all", {(): 1, ipath: 2, ipath + (0,): 1})):
                    out.append(("pair:%s/%d/%s/%s" % (O, s, I, variant), e, rho))
    return out


def rand_expr(r, budget, boolean=None):
    """random core expression with about `budget` nodes"""
    if budget <= 1:
        return atom(r)
    k = r.choice(["bin", "bin", "bin", "bin", "not", "isnull", "in", "between", "like", "castop", "func", "case", "cast", "tuple", "cmp", "logic"])
    def split(n, parts):
        cuts = sorted(r.randrange(0, n + 1) for _ in range(parts - 1))
        prev, out = 0, []
        for c in cuts + [n]:
            out.append(max(1, c - prev)); prev = c
        return out
    b = budget - 1
    if k in ("bin", "cmp", "logic"):
        op = r.choice(list(BIN_CTX)) if k == "bin" else r.choice(CMP_OPS) if k == "cmp" else r.choice(["AND", "OR"])
        x, y = split(b, 2)
        return ("bin", op, rand_expr(r, x), rand_expr(r, y))
    if k == "not": return ("not", rand_expr(r, b))
    if k == "isnull": return ("isnull", rand_expr(r, b), r.random() < 0.5)
    if k == "in":
        n = r.randrange(1, 4)
        ps = split(b, n + 1)
        return ("in", rand_expr(r, ps[0]), r.random() < 0.4, [rand_expr(r, p) for p in ps[1:]])
    if k == "between":
        x, y, z = split(b, 3)
        return ("between", rand_expr(r, x), r.random() < 0.4, rand_expr(r, y), rand_expr(r, z))
    if k == "like":
        x, y = split(b, 2)
        return ("like", rand_expr(r, x), r.random() < 0.4, r.random() < 0.3, rand_expr(r, y))
    if k == "castop": return ("castop", rand_expr(r, b), r.choice(TYPES))
    if k == "func":
        n = r.randrange(0, 4)
        if n == 0: return ("func", r.choice(FNAMES), False, [])
        return ("func", r.choice(FNAMES), r.random() < 0.2, [rand_expr(r, p) for p in split(b, n)])
    if k == "case":
        n = r.randrange(1, 3)
        hs, he = r.random() < 0.4, r.random() < 0.6
        ps = split(b, 2 * n + hs + he)
        i = 0
        scrut = None
        if hs: scrut = rand_expr(r, ps[i]); i += 1
        whens = []
        for _ in range(n):
            whens.append((rand_expr(r, ps[i]), rand_expr(r, ps[i + 1]))); i += 2
        els = rand_expr(r, ps[i]) if he else None
        return ("case", scrut, whens, els)
    if k == "cast": return ("cast", rand_expr(r, b), r.choice(TYPES))
    n = r.randrange(2, 4)
    return ("tuple", [rand_expr(r, p) for p in split(b, n)])


def all_paths(e, path=()):
    out = [path]
    for i, _, c in children(e):
        out += all_paths(c, path + (i,))
    return out


def rand_rho(r, e, p=0.15):
    rho = {}
    for path in all_paths(e):
        if r.random() < p:
            rho[path] = 1 if r.random() < 0.8 else 2
    return rho


def pdepth(lv, e, rho, path=()):
    """mirror of RefGrammar.pdepth (nesting the parser's depth counter reaches)"""
    k = e[0]
    par = rho.get(path, 0) + (1 if level_of(e) < lv else 0)
    P = lambda lv2, c, i: pdepth(lv2, c, rho, path + (i,))
    if k in ("ident", "qident", "num", "str", "ph", "null", "bool"): b = 0
    elif k == "bin":
        a, c = BIN_CTX[e[1]]
        b = max(P(a, e[2], 0), P(c, e[3], 1))
    elif k == "not": b = 1 + P(2, e[1], 0)
    elif k == "isnull": b = P(4, e[1], 0)
    elif k == "in": b = max(P(4, e[1], 0), 1 + max(P(0, x, 1 + i) for i, x in enumerate(e[3])))
    elif k == "between": b = max(P(4, e[1], 0), P(4, e[3], 1), P(4, e[4], 2))
    elif k == "like": b = max(P(4, e[1], 0), P(4, e[4], 1))
    elif k == "castop": b = P(7, e[1], 0)
    elif k == "func": b = 1 + max([P(0, x, i) for i, x in enumerate(e[3])] + [0])
    elif k == "case":
        ds = [P(lv2, c, i) for i, lv2, c in children(e)]
        b = 1 + max(ds + [0])
    elif k == "cast": b = 1 + P(0, e[1], 0)
    elif k == "tuple": b = 1 + max(P(0, x, i) for i, x in enumerate(e[1]))
    else: raise ValueError(k)
    return par + b


# corruption of a token-text list (for the model-vs-code correspondence on inputs outside the surface)
JUNK = ["(", ")", ",", "AND", "OR", "NOT", "=", "+", "*", "||", "::", "IS", "NULL", "IN", "BETWEEN", "LIKE", "CASE", "WHEN", "THEN",
        "ELSE", "END", "CAST", "AS", "x", "1", "'s'", ".", "SELECT", "EXISTS", "DISTINCT", "[", "]", "-", "<", "ILIKE", "INTERVAL",
        "REGEXP", "ANY", "f(", "t.*", "*", "ORDER", "BY", "SEPARATOR", ";", "FILTER", "OVER", "INT", "$1", ":", "IF", "ARRAY"]


def corrupt(r, texts):
    t = list(texts)
    k = r.randrange(5)
    if not t: return [r.choice(JUNK)]
    i = r.randrange(len(t))
    if k == 0: del t[i]
    elif k == 1: t.insert(i, t[i])
    elif k == 2: t[i] = r.choice(JUNK)
    elif k == 3: t = t[:i]
    else: t.insert(i, r.choice(JUNK))
    return t
