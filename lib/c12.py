"""C12 — recovery parsing terminates, agrees with strict parsing, loses no good statement."""
import json, random
import common, sqlgen, loopgen, loopscommon as lc
from common import Report

MANIFEST = dict(
    technique="Coq proofs about the recovery loop (termination with fuel |tokens|+1, errors iff strict parsing fails, exact trees/errors on semicolon-separated segments) for every token list and statement parser + recorded-statement-parser correspondence with the real parseWithRecovery/synchronize + segment oracle on the implementation",
    text=("Model/Loops.v models parseWithRecovery as written (forced advance when a failed statement consumed nothing, synchronize to the next semicolon or statement keyword), parametric in the statement parser. "
          "Proved for every token list: the loop terminates within |tokens|+1 iterations for any statement parser that consumes on success and never moves backwards; it reports at least one error exactly when Parser.Parse fails; "
          "on semicolon-separated segments satisfying the locality hypotheses of the property it returns precisely the trees of the well-formed segments in order and one error per malformed segment located in that segment. "
          "The tie is checked on every run: the real parseStatement is recorded from every cursor position, the Coq recover/sync are evaluated on that table and must reproduce the real recovery result and synchronize() from every position; "
          "the progress hypotheses are measured on the real parseStatement; an implementation-side oracle compares ParseWithRecovery(S1;...;Sn) with Parse of each segment (n<=6, four corruption operators) and with Parse of the whole, plus token soup for termination and the iff clause."
          " C12_errors_located_in_own_segment: the token whose position an error carries (err_loc) lies between the first token of its statement and the terminator of that segment, no semicolon in between; tied by comparing every real error position with the position of token err_loc in the text that was passed in (harness-side token positions), under white-space layouts, with statements of every kind (MERGE, sub-queries, CTEs) as well-formed segments and keyword-like names after failure points."),
    note=common.BASE_NOTE + "The statement parser is abstract in the theorems; its progress/monotonicity hypotheses are measured on every recorded table (a violated hypothesis is reported).",
    design="6/C12")


def seg_oracle(r):
    """expected vs observed on one recseg row; returns None or a description"""
    if r.get("rec_panic"):
        return "ParseWithRecovery panicked: " + r["rec_panic"][:200]
    srs = r["seg_results"]
    if any(s["ntok"] < 0 for s in srs):
        return None   # a segment does not tokenize: recovery reports the tokenizer error for the whole input
    exp_trees = [t for s in srs if s["accepted"] for t in (s["trees"] or [])]
    bad_idx = [i for i, s in enumerate(srs) if not s["accepted"]]
    got_trees = r["rec_trees"] or []
    errs = r["rec_errs"] or []
    if got_trees != exp_trees:
        return "trees: recovery returned %d statements, the well-formed segments have %d (or order/content differs)" % (len(got_trees), len(exp_trees))
    if len(errs) != len(bad_idx):
        return "errors: %d reported, %d malformed segments" % (len(errs), len(bad_idx))
    # each error names a token inside its own segment
    start, ranges = 0, []
    for s in srs:
        ranges.append((start, start + s["ntok"]))
        start += s["ntok"] + 1
    for e, i in zip(errs, bad_idx):
        lo, hi = ranges[i]
        if not (lo <= e["idx"] < max(hi, lo + 1)):
            return "error %d names token %d, outside its segment %d = tokens [%d,%d)" % (errs.index(e), e["idx"], i, lo, hi)
    # ... and is located (line, column of the text that was passed in) inside its own segment: from the segment's
    # first character up to and including the semicolon that ends it (or the end of the input)
    whole = r["whole"]
    if r.get("spans") and whole.isascii():
        lines = whole.split("\n")
        starts = [0]
        for ln in lines:
            starts.append(starts[-1] + len(ln) + 1)
        for e, i in zip(errs, bad_idx):
            if not e.get("line"):
                return "position: error %d of malformed segment %d carries no line/column" % (errs.index(e), i)
            if e["line"] > len(lines):
                return "position: error for segment %d is located at line %d, the input has %d lines" % (i, e["line"], len(lines))
            # the tokenizer's documented column convention: a tab counts as 4 columns
            c, k, ltxt = 1, 0, lines[e["line"] - 1]
            while k < len(ltxt) and c < e["col"]:
                c += 4 if ltxt[k] == "\t" else 1
                k += 1
            off = starts[e["line"] - 1] + k + (e["col"] - c)
            lo, hi = r["spans"][i]
            semi = whole.find(";", hi)
            limit = semi if semi >= 0 else len(whole)
            if not (lo <= off <= limit):
                return "position: error for malformed segment %d (%r, characters %d..%d) is located at line %d column %d = character %d" % (
                    i, r["segs"][i][:60], lo, limit, e["line"], e["col"], off)
    if (len(errs) > 0) != (not r["strict_ok"]):
        return "iff: recovery reports %d errors but strict parsing %s" % (len(errs), "accepts" if r["strict_ok"] else "rejects")
    return None


def shape_of(r):
    """narrow shape of a segment failure: which segment kinds were involved"""
    return tuple(sorted(set(k for _, k in r["_segs"])))


def run(tier):
    rp = Report("C12", tier)
    rng = random.Random(common.seed())
    theorems = ["Props.C12.C12_recovery_terminates", "Props.C12.C12_errors_iff_strict_fails", "Props.C12.C12_recovery_segments", "Props.C12.C12_errors_located_in_own_segment"]
    try:
        with common.Lock():
            common.stage_harness()
            ok_inst, ok_props, _, logs = common.coq_stage(rp, ["theories/Proofs/LoopsP.vo"], "theories/Props/C12.v", theorems)
    except common.StageError as e:
        return common.stage_fail(rp, e)
    if not ok_inst or not ok_props:
        rp.violation({"kind": "proof", "theorem": "Props/C12.v", "log": (logs["inst"] + logs["props"])[-3000:]}, "props_c12", no_input=True)

    n = 500 if tier == "quick" else 15000
    known = [k for k in common.known_findings("C12")]
    scripts = [[(k["witness"]["segs"][i], "witness") for i in range(len(k["witness"]["segs"]))] for k in known
               if isinstance(k.get("witness"), dict) and k["witness"].get("segs")]
    scripts += loopgen.scripts(rng, n)
    layouts = [loopgen.layout(rng, len(sg)) for sg in scripts]
    p = common.vh(["recseg"], input="".join(json.dumps({"segs": [s for s, _ in sg], "prefix": lay[0], "seps": lay[1]}) + "\n"
                                            for sg, lay in zip(scripts, layouts)), timeout=1800)
    rows = [json.loads(l) for l in p.stdout.splitlines() if l.strip()]
    if p.returncode != 0 or len(rows) != len(scripts):
        rp.violation({"kind": "harness", "detail": p.stderr[-2000:], "got": len(rows), "want": len(scripts),
                      "note": "a hang or crash of recovery parsing shows up here (termination clause)"}, "recseg_harness", no_input=True)
    kinds_seen, nontrivial, failures = {}, set(), {}
    for sg, r in zip(scripts, rows):
        r["_segs"] = sg
        for _, k in sg:
            kinds_seen[k] = kinds_seen.get(k, 0) + 1
        nontrivial.add(tuple(s for s, _ in sg))
        if any(k == "valid_rich" and not sr["accepted"] for (_, k), sr in zip(sg, r["seg_results"])):
            continue   # a statement of the rich pool that the parser does not accept: not a script of this oracle
        why = seg_oracle(r)
        if why:
            failures.setdefault(why.split(":")[0], []).append((r, why))
    shown = 0
    for cls, lst in failures.items():
        lst.sort(key=lambda x: len(x[0]["whole"]))
        r, why = lst[0]
        # shrink: drop segments while the failure persists
        segs = list(r["segs"])
        prefix, seps = r.get("prefix") or "", list(r.get("seps") or [])
        changed = True
        while changed and len(segs) > 1:
            changed = False
            for i in range(len(segs)):
                cand = segs[:i] + segs[i + 1:]
                cseps = seps[:max(i - 1, 0)] + seps[max(i - 1, 0) + 1:]
                pr = common.vh(["recseg"], input=json.dumps({"segs": cand, "prefix": prefix, "seps": cseps}) + "\n")
                rr = json.loads(pr.stdout.splitlines()[0])
                if seg_oracle(rr):
                    segs, seps, changed, why = cand, cseps, True, seg_oracle(rr)
                    break
        rp.violation({"kind": "oracle", "segs": segs, "prefix": prefix, "seps": seps, "why": why, "count_in_run": len(lst),
                      "explanation": "ParseWithRecovery of the segments joined by ';' does not return precisely the trees of the well-formed segments and one error per malformed one inside it"},
                     "segments_%s" % cls)
        shown += 1
    rp.obligation("oracle: recovery = trees of well-formed segments + one error per malformed one, on %d scripts" % len(rows), not failures)

    # termination + iff + model correspondence on recorded tables (scripts with stray semicolons, soup, no-separator input)
    ins = [loopgen.join(rng, sg) for sg in scripts[: n // 2]] + loopgen.soup(rng, n // 2, maxlen=30) + loopgen.nospace_multi(rng, n // 10)
    ins += [";", ";;;", "SELECT", "SELECT SELECT SELECT", ") ) )", "SELECT 1 ; ) ; SELECT 2", "x", "INSERT INTO ; UPDATE ; DELETE"]
    ins += [rng.choice(["\n", "\n\n  ", "  ", "\t", " \n"]) + x for x in ins[:n // 4]]   # white space in front of the first token
    ins = list(dict.fromkeys(ins))
    pl, lrows = lc.run_loops(ins)
    if pl.returncode != 0 or len(lrows) != len(ins):
        rp.violation({"kind": "harness", "detail": pl.stderr[-2000:], "got": len(lrows), "want": len(ins)}, "loops_harness", no_input=True)
    iff_bad = []
    for r in lrows:
        if r.get("tok_err") or not any(c not in "SE" for c in r.get("kinds") or ""):
            continue
        rec, par = lc.entry(r, "gosqlx.ParseWithRecovery"), lc.entry(r, "Parser.Parse")
        if rec is None or par is None:
            continue
        if rec.get("panic") or (len(rec.get("rec_errs") or []) > 0) != (not par["accepted"]):
            iff_bad.append(r)
        elif par["accepted"] and (rec.get("trees") or []) != (par.get("trees") or []):
            iff_bad.append(r)
    rp.obligation("oracle: recovery reports an error iff Parse fails (and the same trees when it accepts), on %d inputs" % len(lrows), not iff_bad)
    for r in iff_bad[:2]:
        rp.violation({"kind": "oracle", "sql": r["sql"], "explanation": "recovery-mode parsing and strict parsing disagree on whether the input has an error (or on the trees of an accepted input)"},
                     "iff_%d" % len(rp.violations))
    sample = [r for r in lrows if not r.get("tok_err")]
    if tier == "quick":
        sample = sample[:500]
    if ok_inst:
        n_eval, bad, err = lc.model_correspondence(sample, "c12_cases")
        rp.cov["traces_validated_against_model"] = n_eval
        rp.obligation("correspondence: Coq recover/sync/parse = real loops on %d recorded tables" % n_eval, not bad and not err, err or "")
        if err:
            rp.violation({"kind": "correspondence", "detail": err}, "loops_cases_coq", no_input=True)
        for r, mask in bad[:3]:
            rec, par = lc.entry(r, "gosqlx.ParseWithRecovery"), lc.entry(r, "Parser.Parse")
            failing = (len(rec.get("rec_errs") or []) > 0) != (not par["accepted"])
            why = None
            if not failing and "'" not in r["sql"] and '"' not in r["sql"]:
                # decide with the segment oracle on the textual segments of this input
                segs = [x.strip() for x in r["sql"].split(";") if x.strip()]
                if segs:
                    pr = common.vh(["recseg"], input=json.dumps({"segs": segs}) + "\n")
                    if pr.stdout.strip():
                        why = seg_oracle(json.loads(pr.stdout.splitlines()[0]))
                        failing = bool(why)
            rp.violation({"kind": "correspondence", "sql": r["sql"], "differs_on": lc.mask_names(mask), "segment_oracle": why,
                          "theorem": "Props/C12.v theorems are about Model/Loops.v recover/sync, which no longer reproduce the real loop",
                          "explanation": "the Coq model of parseWithRecovery/synchronize, run on the recorded parseStatement table, differs from the real result"},
                         "recover_model_mismatch_%d" % len(rp.violations), no_input=not failing)
    locbad = []
    nloc = 0
    for r in lrows:
        rec = lc.entry(r, "gosqlx.ParseWithRecovery")
        nloc += len((rec or {}).get("rec_errs") or []) if r.get("tok_pos") else 0
        mm = lc.err_location_mismatches(r)
        if mm:
            locbad.append((r, mm))
    rp.cov["error_locations_compared"] = nloc
    rp.obligation("correspondence: every recovery error carries the position of token err_loc (the cursor where parseStatement gave up) in the text passed in, %d errors" % nloc, not locbad)
    for r, mm in locbad[:2]:
        rp.violation({"kind": "location", "sql": r["sql"], "mismatches": mm[:5],
                      "explanation": "a recovery error is not located at the token under the cursor when its statement failed (positions of the text that was passed in): C12_errors_located_in_own_segment is about that token"},
                     "err_location_%d" % len(rp.violations))
    hyp = {}
    for r in lrows:
        for h in lc.ps_hypotheses(r):
            hyp.setdefault(h.split(" at ")[0], r["sql"])
    for h, sql in hyp.items():
        rp.violation({"kind": "oracle", "sql": sql, "what": h, "explanation": "parseStatement breaks a hypothesis of the termination theorem (progress / monotone cursor / depth restored / no panic)"},
                     "ps_hypothesis_%d" % len(rp.violations))
    rp.cov["evaluations"] = len(rows) + len(lrows)
    rp.cov["distinct_nontrivial"] = len(nontrivial)
    rp.cov["segment_kinds"] = kinds_seen
    rp.cov["malformed_segments"] = sum(1 for r in rows for s in r["seg_results"] if not s["accepted"])
    rp.cov["wellformed_segments"] = sum(1 for r in rows for s in r["seg_results"] if s["accepted"])
    rp.cov["rule"] = ("scripts of 1-6 segments joined by ';' — each a valid generated/corpus statement or a corruption (token deleted, duplicated, replaced, truncated) without statement keyword after its first token; "
                      "token soup and separator-free input for termination and the iff clause; distinct = distinct segment list; non-trivial = every script (has at least one non-semicolon token)")
    rp.cov["samples"] = [{"segs": r["segs"], "rec_trees": len(r["rec_trees"] or []), "rec_errs": r["rec_errs"]} for r in rows[:3]]
    rp.assumptions = ["segments are compared through gosqlx.Parse of each segment alone", "tree equality = equality of the reflective dump of all exported fields"]
    return rp.finish()


def replay(path):
    d = json.load(open(path))
    if d.get("segs") is not None:
        pr = common.vh(["recseg"], input=json.dumps({"segs": d["segs"], "prefix": d.get("prefix") or "", "seps": d.get("seps") or []}) + "\n")
        r = json.loads(pr.stdout.splitlines()[0])
        why = seg_oracle(r)
        print(why or "recovery returns the well-formed segments' trees and one error per malformed segment")
        return 1 if why else 0
    if d.get("sql") is not None:
        _, rows = lc.run_loops([d["sql"]])
        r = rows[0]
        rec, par = lc.entry(r, "gosqlx.ParseWithRecovery"), lc.entry(r, "Parser.Parse")
        bad = bool(rec.get("panic")) or (len(rec.get("rec_errs") or []) > 0) != (not par["accepted"]) or bool(lc.ps_hypotheses(r)) or bool(lc.err_location_mismatches(r))
        segs = [x.strip() for x in d["sql"].split(";") if x.strip()]
        if not bad and segs and "'" not in d["sql"]:
            pr = common.vh(["recseg"], input=json.dumps({"segs": segs}) + "\n")
            bad = bool(seg_oracle(json.loads(pr.stdout.splitlines()[0])))
        print("fails" if bad else "holds")
        return 1 if bad else 0
    return 2
