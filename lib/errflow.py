"""Shared part of C13 / C11: the error-flow table (tools/gotables/errsites.go -> errflow.json), its analysis
(witness sets B and F, exception lists from the known findings), emission of coq/theories/Gen/ErrSites.v, and
the mapping between harness entry points / observed errors and table nodes."""
import json, os, re
import common
from common import GEN, write_if_changed, coq_list

KIND = {"fun": "KFun", "leaf": "KLeaf", "ctx": "KCtx", "bare": "KBare", "wrapw": "KWrapw", "rewrapv": "KRewrapv",
        "cause": "KCause", "unknown": "KUnknown"}
ORIGIN = {"pkg/sql/tokenizer": 1, "pkg/sql/parser": 2, "pkg/gosqlx": 3}
LIMIT = {"": 0, "MaxRecursionDepth": 1, "MaxTokens": 2, "MaxInputSize": 3}
LIMIT_CODE = {1: 2007, 2: 1007, 3: 1006}


def load():
    """the error-flow table of the current tree (stage_gotables must have run)"""
    for _ in range(3):   # the tree may change between the two hash computations: retry
        common.stage_gotables()
        path = os.path.join(common.stage_dir(), "errflow.json")
        if os.path.exists(path):
            return json.load(open(path))
    raise common.StageError("errflow", "translator did not write errflow.json", tree_caused=False)


def codenum(c):
    return int(c[1:]) if c and re.fullmatch(r"E\d{4}", c) else 0


def tokenizer_code(c): return 1001 <= c <= 1008
def parser_code(c): return 2001 <= c <= 2012 or 4001 <= c <= 4002
def documented(c): return tokenizer_code(c) or 2001 <= c <= 2012 or 3001 <= c <= 3004 or 4001 <= c <= 4002


def family_ok(origin, limit, code):
    fam = tokenizer_code(code) if origin == 1 else parser_code(code) if origin == 2 else documented(code)
    return fam and (limit == 0 or code == LIMIT_CODE[limit])


def is_api(n):
    """entry points that tokenize, parse or validate: exported functions with an error result, except the
    constructors (New...) and accessors (Unwrap)"""
    if n["kind"] != "fun" or not n.get("api"):
        return False
    name = n["func"].split(".")[-1].split(")")[-1].lstrip(".")
    return not (name.startswith("New") or name in ("Unwrap", "Error"))


def analyze(ef):
    """returns dict: nodes (by id), api, X13 (known structured/family exceptions), XR (known re-wrap sites),
    X11 (known re-wrap sites on poll paths), B, F, P, discards, problems (what the instance lemmas will trip on)"""
    nodes = ef["nodes"]
    byid = {n["id"]: n for n in nodes}
    bysig = {n["sig"]: n for n in nodes}
    for n in nodes:
        n["origin"] = ORIGIN.get(n["pkg"], 3)
        n["codenum"] = codenum(n.get("code", ""))
        n["limitnum"] = LIMIT.get(n.get("limit", ""), 0)
    api = sorted(n["id"] for n in nodes if is_api(n))
    k13 = [k for k in common.known_findings("C13") if k.get("status") == "known"]
    k11 = [k for k in common.known_findings("C11") if k.get("status") == "known"]
    def sites(ks, what):
        out, stale, keys = [], [], {}
        for k in ks:
            sg = k.get("signature", {})
            if sg.get("kind") != "call_site" or what not in sg.get("defect", []):
                continue
            n = bysig.get(sg.get("site"))
            if n is None:
                stale.append(k["key"])
            else:
                out.append(n["id"]); keys[n["id"]] = k
        return sorted(set(out)), stale, keys
    X13, stale13, key13 = sites(k13, "family")
    Xb, staleb, keyb = sites(k13, "bare")
    X13 = sorted(set(X13) | set(Xb)); key13.update(keyb)
    XR, staleR, keyR = sites(k13, "rewrap")
    X11, stale11, key11 = sites(k11, "rewrap_on_poll_path")
    # --- B: least set of nodes whose local condition fails or that pass a B node through
    def site_ok(n):
        k = n["kind"]
        if k in ("leaf", "cause"):
            return n["id"] in X13 or family_ok(n["origin"], n["limitnum"], n["codenum"])
        if k == "rewrapv":
            return n["id"] in X13 or (n["codenum"] != 0 and family_ok(n["origin"], n["limitnum"], n["codenum"]))
        if k == "ctx":
            return True
        if k in ("bare", "unknown"):
            return n["id"] in X13
        return True
    B = set(n["id"] for n in nodes if not site_ok(n))
    why = {i: "site" for i in B}
    ch = True
    while ch:
        ch = False
        for n in nodes:
            if n["id"] in B:
                continue
            if n["kind"] == "fun" or (n["kind"] == "wrapw" and n["id"] not in X13):
                bad = [m for m in n["inner"] if m in B]
                if bad:
                    B.add(n["id"]); why[n["id"]] = bad[0]; ch = True
    # --- P: nodes that can evaluate to an error made from a poll; F: the others
    P = set(n["id"] for n in nodes if n["kind"] == "ctx")
    ch = True
    while ch:
        ch = False
        for n in nodes:
            if n["id"] not in P and any(m in P for m in n["inner"] + n["dropped"]):
                P.add(n["id"]); ch = True
    F = sorted(set(byid) - P)
    funid = {}
    for n in nodes:
        if n["kind"] == "fun":
            funid.setdefault((n["pkg"], n["func"]), n["id"])
    discards = []
    for w in ef.get("swallows") or []:
        discards.append((funid.get((w["pkg"], w["func"]), 0), w["node"], w))
    problems = {
        "api_in_B": [i for i in api if i in B],
        "rewrap_unlisted": [n["id"] for n in nodes if n["kind"] == "rewrapv" and n["id"] not in XR],
        "rewrap_on_poll": [n["id"] for n in nodes if n["id"] not in X11 and any(m in P for m in n["dropped"])],
        "discard_on_poll": [d for d in discards if d[1] in P],
    }
    return dict(nodes=nodes, byid=byid, bysig=bysig, api=api, X13=X13, XR=XR, X11=X11, B=sorted(B), why=why, P=P, F=F,
                discards=discards, problems=problems, stale=stale13 + staleb + staleR + stale11,
                keys=dict(family=key13, rewrap=keyR, ctx=key11))


def path_to_site(an, i):
    """from a node in B follow the witness to the offending site"""
    seen = []
    while i in an["why"] and an["why"][i] != "site" and i not in seen:
        seen.append(i); i = an["why"][i]
    return seen + [i]


def describe(n):
    return "%s:%d %s %s %s%s" % (n["file"], n["line"], n["func"], n["kind"], n.get("code", ""),
                                  (" " + n["callee"]) if n.get("callee") else "")


def emit(ef, an):
    nl = lambda l: "[" + "; ".join(str(x) for x in l) + "]"
    txt = ("(* GENERATED by lib/errflow.py from tools/gotables/errsites.go's reading of /repo's current source — do not edit.\n"
           "   Error-flow table of pkg/sql/tokenizer, pkg/sql/parser, pkg/gosqlx. *)\n"
           "From Coq Require Import List NArith.\nFrom GV Require Import Model.ErrFlow.\nImport ListNotations.\nLocal Open Scope N_scope.\n\n")
    txt += "(* id kind location function [constructor] code\n"
    for n in an["nodes"]:
        txt += "   %3d %-8s %s:%d %s %s %s%s\n" % (n["id"], n["kind"], n["file"], n["line"], n["func"].replace("(*", "(ptr "), n.get("callee", ""),
                                                 n.get("code", ""), " limit:" + n["limit"] if n.get("limit") else "")
    txt += "*)\n\n"
    rows = []
    for n in an["nodes"]:
        rows.append("mkNode %d %s %d %d %d %s %s" % (n["id"], KIND[n["kind"]], n["origin"], n["codenum"], n["limitnum"], nl(n["inner"]), nl(n["dropped"])))
    txt += "Definition err_table : table :=\n  [" + ";\n   ".join(rows) + "].\n\n"
    txt += "(* entry points that tokenize, parse or validate (exported, error result) *)\nDefinition err_api : list N := %s.\n\n" % nl(an["api"])
    txt += "(* witness: nodes that are not claimed to expose a structured error (closed under pass-through) *)\nDefinition err_bad : list N := %s.\n\n" % nl(an["B"])
    txt += "(* exception lists from known_findings.d/C13.json, C11.json (call_site signatures resolved to node ids) *)\n"
    txt += "Definition err_known_family : list N := %s.\n" % nl(an["X13"])
    txt += "Definition err_known_rewrap : list N := %s.\n" % nl(an["XR"])
    txt += "Definition err_known_ctx : list N := %s.\n\n" % nl(an["X11"])
    txt += "(* witness: nodes that can never evaluate to an error made from a context poll *)\nDefinition err_ctx_free : list N := %s.\n\n" % nl(an["F"])
    txt += "(* poll sites *)\nDefinition err_polls : list N := %s.\n\n" % nl([n["id"] for n in an["nodes"] if n["kind"] == "ctx"])
    txt += "(* observed-and-thrown-away error values: (function node, source node) *)\nDefinition err_discards : list (N * N) := [%s].\n" % "; ".join("(%d,%d)" % (d[0], d[1]) for d in an["discards"])
    changed = write_if_changed(os.path.join(GEN, "ErrSites.v"), txt)
    return changed


def emit_current():
    ef = load()
    an = analyze(ef)
    emit(ef, an)
    return ef, an


# ---- harness entry point name -> table node ---------------------------------------------------------------
EP_NODE = {
    "gosqlx.Parse": ("pkg/gosqlx", "Parse"), "gosqlx.ParseWithContext": ("pkg/gosqlx", "ParseWithContext"),
    "gosqlx.Validate": ("pkg/gosqlx", "Validate"), "gosqlx.ParseBytes": ("pkg/gosqlx", "ParseBytes"),
    "gosqlx.ParseWithTimeout": ("pkg/gosqlx", "ParseWithTimeout"), "gosqlx.ParseMultiple": ("pkg/gosqlx", "ParseMultiple"),
    "gosqlx.ValidateMultiple": ("pkg/gosqlx", "ValidateMultiple"), "gosqlx.Format": ("pkg/gosqlx", "Format"),
    "gosqlx.ParseWithRecovery": ("pkg/gosqlx", "ParseWithRecovery"),
    "parser.ValidateBytes": ("pkg/sql/parser", "ValidateBytes"), "parser.Validate": ("pkg/sql/parser", "Validate"),
    "parser.ParseBytes": ("pkg/sql/parser", "ParseBytes"), "parser.ParseBytesWithTokens": ("pkg/sql/parser", "ParseBytesWithTokens"),
    "parser.ParseWithDialect": ("pkg/sql/parser", "ParseWithDialect"), "parser.ParseBytesWithDialect": ("pkg/sql/parser", "ParseBytesWithDialect"),
    "parser.ValidateWithDialect": ("pkg/sql/parser", "ValidateWithDialect"), "parser.ValidateBytesWithDialect": ("pkg/sql/parser", "ValidateBytesWithDialect"),
    "Tokenizer.Tokenize": ("pkg/sql/tokenizer", "(*Tokenizer).Tokenize"), "Tokenizer.TokenizeContext": ("pkg/sql/tokenizer", "(*Tokenizer).TokenizeContext"),
    "Parser.ParseFromModelTokens": ("pkg/sql/parser", "(*Parser).ParseFromModelTokens"),
    "Parser.ParseContextFromModelTokens": ("pkg/sql/parser", "(*Parser).ParseContextFromModelTokens"),
    "Parser.ParseFromModelTokensWithPositions": ("pkg/sql/parser", "(*Parser).ParseFromModelTokensWithPositions"),
    "Parser.ParseWithRecoveryFromModelTokens": ("pkg/sql/parser", "(*Parser).ParseWithRecoveryFromModelTokens"),
    "Parser.Parse": ("pkg/sql/parser", "(*Parser).Parse"), "Parser.ParseContext": ("pkg/sql/parser", "(*Parser).ParseContext"),
    "Parser.ParseWithPositions": ("pkg/sql/parser", "(*Parser).ParseWithPositions"),
    "Parser.ParseWithRecovery": ("pkg/sql/parser", "(*Parser).ParseWithRecovery"),
}


def ep_node(an, name):
    key = EP_NODE.get(name)
    if not key:
        return None
    for n in an["nodes"]:
        if n["kind"] == "fun" and n["pkg"] == key[0] and n["func"] == key[1]:
            return n["id"]
    return None


def shape_of(obs):
    """observed Unwrap chain -> list of (kind, code number); code 0 for the non-structured elements"""
    return [(c["k"], codenum(c.get("code", "")) if c["k"] == 0 else 0) for c in obs.get("chain") or []]


def _inhab(an):
    """nodes that can evaluate to some error value"""
    if "_inhab" in an:
        return an["_inhab"]
    S = set(n["id"] for n in an["nodes"] if n["kind"] in ("leaf", "ctx", "bare", "unknown"))
    ch = True
    while ch:
        ch = False
        for n in an["nodes"]:
            if n["id"] in S:
                continue
            src = n["dropped"] if n["kind"] == "rewrapv" else n["inner"]
            if any(m in S for m in src):
                S.add(n["id"]); ch = True
    an["_inhab"] = S
    return S


def _close(an, S):
    S = set(S)
    ch = True
    while ch:
        ch = False
        for n in an["nodes"]:
            if n["kind"] == "fun" and n["id"] not in S and any(m in S for m in n["inner"]):
                S.add(n["id"]); ch = True
    return S


def prod_set(an, shape, memo=None):
    """python mirror of ErrFlow.prod_set: the nodes that can produce the chain shape"""
    memo = an.setdefault("_prod", {}) if memo is None else memo
    shape = tuple(shape)
    if not shape:
        return set()
    if shape in memo:
        return memo[shape]
    # iterative from the end (chains of nested constructs are long)
    res = None
    for k in range(len(shape) - 1, -1, -1):
        suf = shape[k:]
        if suf in memo:
            res = memo[suf]
            continue
        hk, hc = suf[0]
        base = set()
        if len(suf) == 1:
            inh = _inhab(an)
            for n in an["nodes"]:
                kd = n["kind"]
                if (kd == "leaf" and hk == 0 and hc == n["codenum"]) or (kd == "ctx" and hk == 2 and hc == 0) or \
                   (kd in ("bare", "unknown") and hk == 3 and hc == 0) or \
                   (kd == "rewrapv" and ((hk == 3 and hc == 0) if n["codenum"] == 0 else (hk == 0 and hc == n["codenum"])) and any(m in inh for m in n["dropped"])):
                    base.add(n["id"])
        else:
            for n in an["nodes"]:
                kd = n["kind"]
                if ((kd == "wrapw" and hk == 1 and hc == 0) or (kd == "cause" and hk == 0 and hc == n["codenum"])) and any(m in res for m in n["inner"]):
                    base.add(n["id"])
        res = _close(an, base)
        memo[suf] = res
    return res


def produces(an, i, shape):
    return i in prod_set(an, shape)


def sites_matching(an, elem):
    """construction sites that can have built one observed chain element (by code and constant message text)"""
    out = []
    msg = elem.get("msg", "")
    for n in an["nodes"]:
        if n["kind"] in ("fun", "ctx"):
            continue
        if elem["k"] == 0:
            if n["kind"] not in ("leaf", "cause", "rewrapv") or n.get("code", "") != elem.get("code"):
                continue
        elif elem["k"] == 1:
            if n["kind"] != "wrapw":
                continue
        else:
            if n["kind"] not in ("bare", "unknown") and not (n["kind"] == "rewrapv" and not n.get("code")):
                continue
        t = n.get("msg") or n.get("fmt") or ""
        prefix = t.split("%")[0]
        if prefix and prefix not in msg:
            continue
        out.append(n["id"])
    return out


def coq_shape(sh):
    return "[" + "; ".join("(%d,%d)" % p for p in sh) + "]"
