"""keepseed2.py <prop> <src letter A|B> <dst letter> <pkgdir> <summary> <needs> <caught_by> — round-3 seeds from seeded/_incoming/<prop>-r2"""
import json, os, shutil, sys
prop, src_l, dst_l, pkg, summary, needs, caught = sys.argv[1:8]
src = '/verif/seeded/_incoming/%s-r5' % prop
dst = '/verif/seeded/%s-%s' % (prop, dst_l)
os.makedirs(dst, exist_ok=True)
shutil.copy(src + '/MUT_%s.diff' % src_l, dst + '/patch.diff')
shutil.copy(src + '/MUT_%s_demo_test.go' % src_l, dst + '/demo_test.go')
json.dump({"property": prop, "round": 5, "summary": summary, "needs_to_manifest": needs, "demo_package_dir": pkg,
           "confirmed_by": "bin/confirm_seed patch.diff demo_test.go %s  (scratch worktree: demo passes without patch, builds, demo fails with patch, pinned baseline passes with patch)" % pkg,
           "checked_with": "bin/selftest %s seeded/%s-%s/patch.diff" % (prop, prop, dst_l), "caught_by": caught},
          open(dst + '/meta.json', 'w'), indent=1)
