"""C13 — every failure is a structured, classifiable, reproducible error."""
import json, os, random, re
import common, sqlgen, errflow
from common import Report

MANIFEST = dict(
    technique='Coq proof over the error-flow model (error values as terms; inductive closure over the table of ALL error construction / wrapping sites and SSA value-flow edges of tokenizer, parser and gosqlx, regenerated from go/ssa every run; instance lemmas by complete vm_compute evaluation) + implementation sweep of every failing entry point with property oracles + chain-shape correspondence evaluated in Coq',
    text="Theorems C13_structured_reachable (every error value that can arrive at an entry point of the three packages is a context error or exposes through errors.As a structured error whose code is of the family of the site that built it: tokenizer sites E1xxx, parser sites E2xxx/E4xxx, limit checks their dedicated E1006/E1007/E2007), C13_cause_reachable (every error that went into the making of a returned error is on its Unwrap chain: no site rebuilds an error from another error's text), C13_origin_code_exposed (the originating code, e.g. a limit code, is exposed along the chain), proved generically over any site table and instantiated on the table regenerated from the current source (bare fmt.Errorf / errors.New / untracked values, wrong-family codes, re-wrap-by-text sites and limit checks without their code break an instance lemma); exception lists = the call sites of known_findings.d/C13.json. Every rejected input of the generators (single-token corruptions, lexical garbage, limit violations) goes through 27 failing entry points three times: errors.As, family vs. rejecting stage, non-empty message, location inside the input, identical code/message/location, text-embedded causes reachable; each observed Unwrap chain shape must be derivable in the model (C13_observed_shape_derivable makes the evaluator sound).",
    note=common.BASE_NOTE + "Error-site translator tools/gotables/errsites.go (SSA value flow of error results: phis, captured cells, struct fields, globals, parameters over the static call graph; calls through function values are followed to every function the value can evaluate to when those can be enumerated (tools/gotables/funcvals.go: closed-world walk over the stores of the module, cross-checked against a VTA call graph), otherwise they, like external callees, become 'unknown' nodes that fail the instance lemma if they reach an entry point). Reproducibility and location clauses are exploration-level (sweep on the implementation); message texts of pkg/errors builders are taken as given.",
    design='6/C13')

THEOREMS = ["Props.C13.C13_structured_reachable", "Props.C13.C13_cause_reachable", "Props.C13.C13_origin_code_exposed",
            "Props.C13.C13_cause_reachable_refuted_at_rewrap_sites", "Props.C13.C13_observed_shape_derivable",
            "Props.C13.C13_tokenizer_error_offset", "Props.C13.C13_tokenizer_error_location_inside"]
INST = ["Inst_C13.c13_site_table_ok", "Inst_C13.c13_no_rewrap", "Inst_C13.c13_table_closed", "Inst_C13.c13_api_nodes"]

TOK = re.compile(r"""\s+|--[^\n]*|/\*.*?\*/|'(?:[^'\\]|\\.|'')*'|"(?:[^"\\]|\\.)*"|`[^`]*`|[A-Za-z_][A-Za-z0-9_$]*|\d+(?:\.\d+)?(?:[eE][+-]?\d+)?|<>|<=|>=|!=|\|\||::|->>|->|.""", re.S)
REPL = ["SELECT", "FROM", "WHERE", ",", "(", ")", ";", "JOIN", "ON", "AND", "=", "*", "42", "'s'", "x", "BY", "AS", "NOT", "CASE", "END",
        "WITH", "UNION", "IN", "NULL", "[", "]", ".", "INTO", "VALUES", "SET", "THEN", "BETWEEN", "LIKE", "EXISTS", "::"]


def toks(sql):
    return [t for t in TOK.findall(sql)]


def corruptions(sql, rng, per):
    """single-token corruptions: delete, duplicate, replace, truncate-after"""
    ts = toks(sql)
    idx = [i for i, t in enumerate(ts) if not t.isspace()]
    out = []
    if not idx:
        return out
    for _ in range(per):
        i = rng.choice(idx)
        op = rng.choice(["delete", "dup", "replace", "replace", "truncate"])
        if op == "delete":
            s = "".join(ts[:i] + ts[i + 1:])
        elif op == "dup":
            s = "".join(ts[:i + 1] + [" "] + ts[i:])
        elif op == "replace":
            s = "".join(ts[:i] + [rng.choice(REPL)] + ts[i + 1:])
        else:
            s = "".join(ts[:i + 1])
        out.append((op, s))
    return out


def lexical_garbage(rng, n):
    """inputs whose failure, if any, is lexical by construction: unterminated quotes, bad escapes, lone punctuation"""
    base = ["SELECT %s FROM t", "SELECT a FROM t WHERE b = %s", "INSERT INTO t (a) VALUES (%s)", "%s", "SELECT 1;\n%s"]
    frag = []
    for q in ("'", '"', "`", "$$", "$tag$"):
        frag += [q + "abc", q + "a\nb", "x" + q]
    for e in ("q", "8", "x", "u12", "u{1", "U0001", "0", "\n"):
        frag += ["'a\\%s'" % e, "E'a\\%s'" % e, '"a\\%s"' % e]
    frag += ["'abc\\", '"abc\\', "'a\\u00"]
    for c in "#@~^?\\!&|$%{}`\x00\x01\x7f":
        frag += [c, "a %s b" % c, c + c]
    frag += ["1e", "1.e5x", "1e+", "0x", "1..2", "12abc", ".", "..", "1.2.3", "\xff\xfe", "caf\xc3", "/* open", "a /* b", "-- ok\n'x", "N'abc", "X'4", "B'012"]
    out = []
    for f in frag:
        out.append(rng.choice(base) % f)
    rng.shuffle(out)
    return out[:n] if n < len(out) else out


def depth_driver(name, d):
    import c02
    return c02.DRIVERS[name](d)


def build_inputs(tier, rng, limit_depth):
    inputs = []
    nq = tier == "quick"
    corpus = sqlgen.corpus_statements(limit=60 if nq else 400)
    gen = sqlgen.generated_statements(rng, 60 if nq else 600)
    seeds = list(sqlgen.SPECIAL) + corpus + gen
    per = 3 if nq else 8
    k = 0
    for s in seeds:
        if len(s) > 2000:
            continue
        for op, c in corruptions(s, rng, per):
            inputs.append({"id": "cor%d:%s" % (k, op), "sql": c, "class": "any"}); k += 1
    for i, g in enumerate(lexical_garbage(rng, 120 if nq else 100000)):
        inputs.append({"id": "lex%d" % i, "sql": g, "class": "lexical"})
        if i % 3 == 0:
            # the same failure behind a long run of blanks / blank lines / tabs (locations must not depend on what a
            # pooled tokenizer located before)
            pre = rng.choice([" " * 12, " " * 40, "\n\n\n   ", "\t\t\t", "  \n" + " " * 24])
            inputs.append({"id": "lexpre%d" % i, "sql": pre + g, "class": "lexical"})
    # malformed stream: byte soup / punctuation soup
    for i in range(30 if nq else 300):
        n = rng.randint(1, 12)
        inputs.append({"id": "soup%d" % i, "sql": " ".join(rng.choice(REPL + ["'", "\\", "@", "#", "$1", ":x", "?"]) for _ in range(n)), "class": "any"})
    for s in ["", ";", ";;", " ", "\n", "SELECT", "SELECT 1 SELECT 2", "(", ")", "SELECT * FROM", "WITH", "WITH x AS", "CASE"]:
        inputs.append({"id": "edge:%s" % s.strip()[:10], "sql": s, "class": "any"})
    # limit violations
    drivers = ["paren", "case_when", "in_subquery", "cte", "func", "not", "derived", "array_subscript", "setop_paren", "exists"]
    if not nq:
        import c02
        drivers = sorted(c02.DRIVERS)
    for dn in drivers:
        # the driver must be a well-formed statement at small depth, else deep nesting of it is not a limit violation
        inputs.append({"id": "depthprobe:%s" % dn, "sql": depth_driver(dn, 4), "class": "any", "big": True})
        for d in ([limit_depth + 60] if nq else [limit_depth + 3, limit_depth + 60, 4 * limit_depth]):
            inputs.append({"id": "depth:%s@%d" % (dn, d), "sql": depth_driver(dn, d), "class": "limit:depth", "big": True})
    inputs.append({"id": "size+1", "gen": {"kind": "size", "n": 10485761}, "class": "limit:size"})
    tk = {"id": "tokens+1", "gen": {"kind": "tokens", "n": 1000001}, "class": "limit:tokens"}
    if nq:   # a million tokens through three entry points instead of nine (quick tier budget)
        tk["only"] = ["Tokenizer.Tokenize", "Tokenizer.TokenizeContext", "gosqlx.Parse"]
    inputs.append(tk)
    return inputs


DEDICATED = {"limit:depth": "E2007", "limit:tokens": "E1007", "limit:size": "E1006"}


def oracle(o, ep):
    """property oracle on one failing entry point of one input; returns list of (kind, detail)"""
    bad = []
    ob = ep["obs"]
    if ep.get("panic"):
        return [("panic", ep["panic"][:300])]
    if ep["name"].endswith("#count"):
        return [("nondeterministic", "the number of reported errors differs between repeated calls")]
    if ob.get("nil"):
        return bad
    cls, stage = o["class"], o["stage"]
    is_ctx = ob["is_canceled"] or ob["is_deadline"]
    if not ob["as"] and not is_ctx:
        bad.append(("unstructured", "errors.As finds no *errors.Error: " + ob.get("text", "")[:120]))
    if ob["as"]:
        c = errflow.codenum(ob["as_code"])
        if not errflow.documented(c):
            bad.append(("undocumented_code", ob["as_code"]))
        if stage == "lexical" and not errflow.tokenizer_code(c):
            bad.append(("family", "the tokenizer rejects the input (lexical problem) but the code is %s" % ob["as_code"]))
        if stage in ("grammar", "convert") and not errflow.parser_code(c):
            bad.append(("family", "the parser rejects the input (grammar problem) but the code is %s" % ob["as_code"]))
        if ob["as_msg_empty"]:
            bad.append(("empty_message", ob["as_code"]))
        ln, col = ob["as_line"], ob["as_col"]
        if ln != 0 or col != 0:
            ok = 1 <= ln <= o["nlines"] and col >= 0
            if ok and o.get("line_len") and ln <= len(o["line_len"]):
                ok = col <= o["line_len"][ln - 1] + 1
            if not ok:
                bad.append(("location", "location %d:%d is outside the input (%d lines%s)" % (ln, col, o["nlines"],
                            ", line length %d" % o["line_len"][ln - 1] if o.get("line_len") and 1 <= ln <= len(o["line_len"]) else "")))
    if ob["text_empty"]:
        bad.append(("empty_message", "Error() is empty"))
    if cls in DEDICATED and stage != "accepted":
        codes = [c.get("code") for c in ob["chain"] if c["k"] == 0]
        if DEDICATED[cls] not in codes:
            bad.append(("limit_code", "limit violation (%s) exposes codes %s along the chain, not %s" % (cls, codes, DEDICATED[cls])))
    if not ep["same3"]:
        bad.append(("nondeterministic", "code / message / location differ between three calls on the same input"))
    if ep["name"].startswith("Parser(long-lived)"):
        # the parser that has seen every kind of failure before must report what a new parser reports
        sib = [e for e in o["eps"] if e["name"] == "Parser.ParseFromModelTokens"]
        if not sib or sib[0]["obs"].get("nil"):
            bad.append(("history_dependent", "a long-lived parser rejects (%s) an input that a new parser accepts" % ob.get("as_code")))
        else:
            so = sib[0]["obs"]
            if (ob.get("as_code"), ob.get("as_line"), ob.get("as_col")) != (so.get("as_code"), so.get("as_line"), so.get("as_col")):
                bad.append(("history_dependent", "a long-lived parser reports %s at %s:%s, a new parser %s at %s:%s for the same input" % (
                    ob.get("as_code"), ob.get("as_line"), ob.get("as_col"), so.get("as_code"), so.get("as_line"), so.get("as_col"))))
    if ob["headers"] > ob["structured"]:
        bad.append(("cause_unreachable", "the text embeds %d structured errors, the Unwrap chain has %d: a cause was folded into a message" % (ob["headers"], ob["structured"])))
    if ob["ctx_text"] and not is_ctx:
        bad.append(("cause_unreachable", "the text mentions a context error that errors.Is does not find"))
    if not ob["is_reach"]:
        bad.append(("cause_unreachable", "a chain element is not found by errors.Is"))
    return bad


def reach_from(an, i):
    """construction sites reachable from a node through kept and text-only flows"""
    memo = an.setdefault("_reach", {})
    if i in memo:
        return memo[i]
    seen, st = set(), [i]
    while st:
        x = st.pop()
        if x in seen or x not in an["byid"]:
            continue
        seen.add(x)
        st += an["byid"][x]["inner"] + an["byid"][x]["dropped"]
    memo[i] = seen
    return seen


def attribute(an, ob, kind, stage=None, epname=None):
    """table sites that can have produced the offending element of an observation"""
    ch = ob.get("chain") or []
    root = errflow.ep_node(an, epname) if epname else None
    within = reach_from(an, root) if root is not None else None
    pkg = {"lexical": "pkg/sql/tokenizer", "grammar": "pkg/sql/parser", "convert": "pkg/sql/parser"}.get(stage)
    if kind in ("family", "undocumented_code", "empty_message", "location", "limit_code"):
        el = [c for c in ch if c["k"] == 0][:1]
    elif kind == "cause_unreachable":
        el = [c for c in ch if c["k"] == 0 and "Error E" in c.get("msg", "")] or [c for c in ch if c["k"] == 0][-1:]
    elif kind == "unstructured":
        el = ch[-1:]
    else:
        el = []
    out = set()
    for e in el:
        out |= set(i for i in errflow.sites_matching(an, e) if (pkg is None or an["byid"][i]["pkg"] == pkg) and (within is None or i in within))
    if kind == "cause_unreachable":
        rw = [i for i in out if an["byid"][i]["kind"] == "rewrapv"]   # the element that folded another error into its text
        if rw:
            return sorted(rw)
    return sorted(out)


def run_sweep(inputs, timeout=2400, shards=8):
    """the sweep in parallel worker processes (contiguous shards keep the input order inside a shard)"""
    from concurrent.futures import ThreadPoolExecutor
    binp = common.stage_harness()
    n = max(1, (len(inputs) + shards - 1) // shards)
    parts = [inputs[i:i + n] for i in range(0, len(inputs), n)]
    def one(part):
        inp = "".join(json.dumps(i) + "\n" for i in part)
        return common.run([binp, "errsweep"], input=inp, timeout=timeout)
    with ThreadPoolExecutor(max_workers=shards) as ex:
        ps = list(ex.map(one, parts))
    outs = []
    for p in ps:
        outs += [json.loads(l) for l in p.stdout.splitlines() if l.strip()]
    for o in outs:
        o["eps"] = o.get("eps") or []
    class P: pass
    agg = P()
    agg.returncode = max([p.returncode for p in ps] or [0])
    agg.stderr = "".join(p.stderr[-1500:] for p in ps if p.returncode != 0)
    agg.stdout = ""
    return outs, agg


def run(tier):
    rp = Report("C13", tier)
    import shutil
    shutil.rmtree(os.path.join(common.REPLAYS, "C13"), ignore_errors=True)
    try:
        with common.Lock():
            static = common.stage_gotables()
            ef = errflow.load()
            an = errflow.analyze(ef)
            errflow.emit(ef, an)
            common.stage_harness()
            import gen04   # the tokenizer model (error-location theorems, Proofs/LexErrLocP.v) is built over the lexical tables of this tree
            gen04.emit_lextables(gen04.stage_lextables())
            ok_inst, ok_props, _, logs = common.coq_stage(
                rp, ["theories/Inst/Inst_C13.vo", "theories/Proofs/ErrFlowP.vo", "theories/Proofs/LexErrLocP.vo"], "theories/Props/C13.v", THEOREMS, inst_names=INST)
    except common.StageError as e:
        return common.stage_fail(rp, e)
    limit = int(static["consts"]["pkg/sql/parser.MaxRecursionDepth"])
    rng = random.Random(common.seed())
    kf = common.known_findings("C13")
    xfam, xrw = set(an["X13"]), set(an["XR"])
    nodes = an["nodes"]
    sites = [n for n in nodes if n["kind"] not in ("fun",)]
    rp.cov["site_table"] = {"nodes": len(nodes), "functions": sum(1 for n in nodes if n["kind"] == "fun"),
                            "error_returning_returns": sum(n.get("returns", 0) for n in nodes if n["kind"] == "fun"),
                            "construction_sites": {k: sum(1 for n in sites if n["kind"] == k) for k in sorted(set(n["kind"] for n in sites))},
                            "by_package": {p: sum(1 for n in sites if n["pkg"] == p) for p in sorted(set(n["pkg"] for n in sites))},
                            "entry_points": len(an["api"]), "not_structured_witness_B": len(an["B"]),
                            "translator_notes": ef.get("notes") or []}
    for s in an["stale"]:
        rp.cov["notes"].append("stale known-finding entry (its call site is no longer in the table): " + s)

    # ---- sweep
    inputs = build_inputs(tier, rng, limit)
    # witnesses of known / fixed findings first
    wit = []
    for k in kf:
        w = k.get("witness")
        if w and w.get("sql"):
            wit.append({"id": "witness:" + k["key"], "sql": w["sql"], "class": w.get("class", "any")})
    outs, proc = run_sweep(wit + inputs)
    if len(outs) < len(wit) + len(inputs):
        crashed = (wit + inputs)[len(outs)]
        rp.violation({"kind": "oracle", "oracle": "crash", "sql": crashed.get("sql", crashed.get("gen")), "stderr": proc.stderr[-1500:],
                      "explanation": "the harness process died on this input (fatal error in an entry point)"}, "crash_%s" % crashed["id"])
    byid = {o["id"]: o for o in outs}
    srcs = {i["id"]: i for i in wit + inputs}
    unusable = []
    for o in outs:
        if o["id"].startswith("depth:"):
            pr = byid.get("depthprobe:" + o["id"][6:].split("@")[0])
            if pr is None or pr["stage"] != "accepted":
                o["class"] = "any"
                unusable.append(o["id"])
    rp.cov["depth_drivers_unusable"] = sorted(set(u[6:].split("@")[0] for u in unusable))
    viol_seen, known_seen = {}, {}
    failed_inputs = set()
    reached, shapes = set(), {}
    rejected = 0
    stats = {"stage": {}, "codes": {}, "failing_observations": 0, "panics": 0, "class": {}}
    for o in outs:
        stats["stage"][o["stage"]] = stats["stage"].get(o["stage"], 0) + 1
        stats["class"][o["class"]] = stats["class"].get(o["class"], 0) + 1
        if o["stage"] != "accepted":
            rejected += 1
        for ep in o["eps"]:
            stats["failing_observations"] += 1
            ob = ep["obs"]
            if ep.get("panic"):
                stats["panics"] += 1
            for c in ob.get("chain") or []:
                if c["k"] == 0:
                    stats["codes"][c["code"]] = stats["codes"].get(c["code"], 0) + 1
                for sid in errflow.sites_matching(an, c):
                    reached.add(sid)
            nid = errflow.ep_node(an, ep["name"])
            if nid is not None and ob.get("chain"):
                sh = tuple(errflow.shape_of(ob))
                shapes.setdefault((nid, sh), (o["id"], ep["name"]))
            for kind, detail in oracle(o, ep):
                if kind == "panic":
                    continue   # crashes are C01's subject; counted in evidence
                failed_inputs.add(o["id"])
                cand = attribute(an, ob, kind, o["stage"], ep["name"])
                X = xrw if kind == "cause_unreachable" else xfam
                if cand and all(c in X for c in cand):
                    for c in cand:
                        key = (an["keys"]["rewrap" if kind == "cause_unreachable" else "family"].get(c) or {}).get("key")
                        if key:
                            known_seen.setdefault(key, (o["id"], ep["name"], kind, detail))
                    continue
                vkey = (kind, tuple(cand) if cand else ep["name"])
                if vkey not in viol_seen:
                    viol_seen[vkey] = dict(kind="oracle", oracle=kind, detail=detail, entry_point=ep["name"], input_id=o["id"],
                                           sql=srcs[o["id"]].get("sql"), gen=srcs[o["id"]].get("gen"), input_class=o["class"], stage=o["stage"],
                                           observed={k: ob.get(k) for k in ("as", "as_code", "as_line", "as_col", "headers", "structured", "text")},
                                           chain=ob.get("chain"), candidate_sites=[errflow.describe(an["byid"][c]) for c in cand])
    for key, (iid, epn, kind, detail) in sorted(known_seen.items()):
        k = [x for x in kf if x["key"] == key][0]
        rp.known(key, "%s [%s via %s on input %s]" % (k["what"][:160], kind, epn, iid))
    for vkey, v in viol_seen.items():
        v["sql"] = shrink(v) if v.get("sql") and len(v["sql"]) < 4000 else v.get("sql")
        if v.get("sql") and len(v["sql"]) > 6000:
            v["sql_prefix"], v["sql_len"] = v["sql"][:300], len(v["sql"])
            v["driver"] = v["input_id"]
            del v["sql"]
        rp.violation(v, "%s_%s" % (v["oracle"], re.sub(r"\W+", "_", str(vkey[1]))[:40]))

    # ---- witnesses of known and fixed findings
    for k in kf:
        w = k.get("witness")
        if not (w and w.get("sql")):
            continue
        o = byid.get("witness:" + k["key"])
        if o is None:
            continue
        fails = any(oracle(o, ep) for ep in o["eps"])
        if k["status"] == "known" and not fails:
            rp.cov["notes"].append("known finding %s: its witness no longer fails (stale entry)" % k["key"])
        if k["status"] == "fixed":
            still = [(ep["name"], b) for ep in o["eps"] for b in oracle(o, ep) if b[0] in (w.get("oracles") or [b[0]])]
            if still:
                rp.violation({"kind": "oracle", "oracle": still[0][1][0], "detail": still[0][1][1], "entry_point": still[0][0], "sql": w["sql"],
                              "explanation": "the defect fixed in %s is back: %s" % (k.get("commit"), k["what"])}, "regressed_" + k["key"])

    # ---- correspondence: every observed chain shape must be derivable at its entry point's node
    pairs = sorted(shapes)
    py_bad = [pr for pr in pairs if not errflow.produces(an, pr[0], list(pr[1]))]
    coq_bad, coq_ok = None, None
    if pairs:
        bysh = {}
        for i, sh in pairs:
            bysh.setdefault(sh, []).append(i)
        shl = sorted(bysh)
        # evaluated in parallel shards (one coqc each); indices are mapped back to positions in shl
        from concurrent.futures import ThreadPoolExecutor
        nsh = 8
        chunks = [list(range(k, len(shl), nsh)) for k in range(nsh)]
        def shard(k):
            idx = chunks[k]
            if not idx:
                return True, "bad = [] : list N", ""
            body = ("From Coq Require Import List NArith Bool.\nFrom GV Require Import Model.ErrFlow Gen.ErrSites.\nImport ListNotations.\nLocal Open Scope N_scope.\n"
                    "Definition cases : list (oshape * list N) :=\n  [%s].\n" % ";\n   ".join("(%s, [%s])" % (errflow.coq_shape(shl[j]), "; ".join(str(i) for i in bysh[shl[j]])) for j in idx) +
                    "Definition bad := Eval vm_compute in bad_cases (shape_case_ok err_table) 0 cases.\nPrint bad.\n")
            return common.coq_cases("c13_shapes_%d" % k, body)
        with ThreadPoolExecutor(max_workers=nsh) as ex:
            rs = list(ex.map(shard, range(nsh)))
        coq_ok = all(r[0] for r in rs)
        err = "".join(r[2][-600:] for r in rs if not r[0])
        badpos = []
        if coq_ok:
            for k, r in enumerate(rs):
                badpos += [chunks[k][j] for j in common.parse_nlist(r[1])]
        out = "bad = [%s] : list N" % "; ".join(str(j) for j in sorted(badpos))
        if coq_ok:
            coq_bad = [(i, shl[j]) for j in common.parse_nlist(out) for i in bysh[shl[j]] if not errflow.produces(an, i, list(shl[j]))] or \
                      [(bysh[shl[j]][0], shl[j]) for j in common.parse_nlist(out)]
            rp.obligation("correspondence: %d distinct observed (entry point, chain shape) pairs derivable in the model (vm_compute)" % len(pairs), not coq_bad,
                          "" if not coq_bad else str(coq_bad[:3]))
        else:
            rp.obligation("correspondence: evaluation of observed chain shapes in Coq", False, err[-300:])
            rp.violation({"kind": "correspondence", "broken": "coq evaluation of observed shapes", "log": err[-2000:]}, "shape_eval", no_input=True)
    for pr in (coq_bad if coq_bad is not None else py_bad)[:3]:
        iid, epn = shapes[pr]
        already = iid in failed_inputs
        rp.violation({"kind": "correspondence", "broken": "observed Unwrap chain shape is not derivable from the error-site table at this entry point",
                      "entry_point": epn, "node": pr[0], "shape": list(pr[1]), "sql": srcs[iid].get("sql"), "input_id": iid,
                      "explanation": "the model (site table regenerated from source) does not predict this error shape: the translator misses a flow, or the code builds errors in a way the table does not describe"},
                     "shape_%d_%s" % (pr[0], "_".join("%d%d" % p for p in pr[1]))[:70], no_input=not already)

    # ---- broken instance lemmas: name the table entry, point at a failing input if the sweep found one
    if not ok_inst:
        pb = an["problems"]
        reported = False
        for a in pb["api_in_B"][:6]:
            path = errflow.path_to_site(an, a)
            site = an["byid"][path[-1]]
            found = [v for v in viol_seen.values() if errflow.describe(site) in v.get("candidate_sites", [])]
            rp.violation({"kind": "table-gap", "theorem": "Inst_C13.c13_site_table_ok", "entry_point": errflow.describe(an["byid"][a]),
                          "site": errflow.describe(site), "site_signature": site["sig"], "path": [errflow.describe(an["byid"][i]) for i in path],
                          "explanation": "an error built at this site can arrive at the entry point without exposing a structured error of the right family "
                                         "(bare / untracked value, wrong-family code, or limit check without its dedicated code)",
                          "failing_input": found[0].get("sql") if found else None},
                         "site_%s" % re.sub(r"\W+", "_", site["sig"])[:60], no_input=not found)
            reported = True
            break
        for r in pb["rewrap_unlisted"][:6]:
            site = an["byid"][r]
            found = [v for v in viol_seen.values() if v["oracle"] == "cause_unreachable" and errflow.describe(site) in v.get("candidate_sites", [])]
            rp.violation({"kind": "table-gap", "theorem": "Inst_C13.c13_no_rewrap", "site": errflow.describe(site), "site_signature": site["sig"],
                          "operands": [errflow.describe(an["byid"][m]) for m in site["dropped"]],
                          "explanation": "this site builds a new error from the TEXT of another error (%v / .Error()): the cause is no longer reachable with errors.Is / errors.As",
                          "failing_input": found[0].get("sql") if found else None},
                         "rewrap_%s" % re.sub(r"\W+", "_", site["sig"])[:60], no_input=not found)
            reported = True
        if not reported:
            rp.violation({"kind": "proof", "theorem": "Inst_C13", "log": logs["inst"][-3000:]}, "inst_c13", no_input=True)
    if ok_inst and not ok_props:
        rp.violation({"kind": "proof", "theorem": "Props/C13.v", "log": logs["props"][-3000:]}, "props_c13", no_input=True)

    # ---- evidence
    unreached = [n for n in sites if n["id"] not in reached and n["kind"] != "ctx"]
    rp.cov["sites_reached"] = len([n for n in sites if n["id"] in reached])
    rp.cov["sites_never_reached"] = [errflow.describe(n) for n in unreached]
    rp.cov["input_distribution"] = stats
    rp.cov["evaluations"] = stats["failing_observations"]
    rp.cov["distinct_nontrivial"] = rejected
    rp.cov["distinct_chain_shapes"] = len(pairs)
    rp.cov["rule"] = ("inputs: single-token corruptions (delete / duplicate / replace / truncate) of SPECIAL + corpus + generated statements, lexical garbage "
                      "(unterminated quotes of 5 styles, bad escapes, lone punctuation, malformed numbers, invalid UTF-8), token soup, empty / fragment edge cases, "
                      "nesting beyond the limit through %s self-embedding productions, input one byte / one token past MaxInputSize / MaxTokens; each through every failing entry point "
                      "(27; 9 for the big inputs), three calls each; non-trivial = rejected by at least one entry point (counted)" % ("10" if tier == "quick" else "all 45+"))
    rp.cov["samples"] = [{"id": o["id"], "stage": o["stage"], "first": (o["eps"][0]["obs"].get("chain") if o["eps"] else None)} for o in outs[:3]]
    rp.assumptions = ["the static call graph and SSA value flow see every way an error value reaches a return (reflection, unsafe and cgo are not used by these packages); call sites through function values whose targets cannot be enumerated in a closed world produce 'unknown' nodes",
                      "pkg/errors builders are summarised by their code and cause parameter (summaries recomputed from SSA every run)",
                      "errors.As / errors.Is / errors.Unwrap behave as documented for chains of *errors.Error, fmt wrap errors and ParseError"]
    return rp.finish()


def shrink(v):
    """greedy token deletion keeping the same oracle kind on the same entry point"""
    sql = v["sql"]
    want, epn = v["oracle"], v["entry_point"]
    def still(s):
        outs, _ = run_sweep([{"id": "s", "sql": s, "class": v.get("input_class", "any")}], timeout=120)
        if not outs:
            return False
        return any(ep["name"] == epn and any(b[0] == want for b in oracle(outs[0], ep)) for ep in outs[0]["eps"])
    ts = [t for t in toks(sql)]
    if len(ts) > 60:
        return sql
    i = 0
    budget = 40
    while i < len(ts) and budget > 0:
        cand = ts[:i] + ts[i + 1:]
        budget -= 1
        if still("".join(cand)):
            ts = cand
        else:
            i += 1
    return "".join(ts)


def replay(path):
    d = json.load(open(path))
    print(json.dumps({k: (v if not isinstance(v, str) or len(v) < 400 else v[:400] + "...") for k, v in d.items()}, indent=1))
    sql = d.get("sql") or d.get("failing_input")
    item = None
    if sql:
        item = {"id": "replay", "sql": sql, "class": d.get("input_class", "any")}
    elif d.get("gen"):
        item = {"id": "replay", "gen": d["gen"], "class": d.get("input_class", "any")}
    elif d.get("driver", "").startswith("depth:"):
        dn, dd = d["driver"][6:].split("@")
        item = {"id": "replay", "sql": depth_driver(dn, int(dd)), "class": "limit:depth", "big": True}
    if item is None:
        print("no input in this replay file (table-level finding): re-run bin/check C13 quick")
        return 2
    outs, p = run_sweep([item], timeout=600)
    if not outs:
        print("harness died:", p.stderr[-500:])
        return 1
    bad = [(ep["name"], b) for ep in outs[0]["eps"] for b in oracle(outs[0], ep) if b[0] != "panic"]
    want = d.get("oracle")
    hit = [b for b in bad if want in (None, b[1][0])]
    for b in hit[:5]:
        print("still fails:", b)
    return 1 if hit else 0
