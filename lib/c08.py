"""C08 — results never depend on what a reused or pooled object did before."""
import json, os, random, re
import common, sqlgen
from common import Report

MANIFEST = dict(
    technique='Coq non-interference proof over all operation histories (generic footprint framework; parser and tokenizer state transformers written from the code, parametric in the statement parser / lexer, failures and cancellations included) + per-method field read/write tables regenerated from go/ssa each run and checked against the model tables by complete evaluation + seeded history exploration on one real instance (probe vs fresh instance, reflect-level state comparison after every Reset/Release/Put/Get, per-field dirtiness trace compared with the Coq model)',
    text='Theorems C08_no_carry_over / C08_tok_no_carry_over: for every statement parser (lexer) and every finite history of parse entry points, recovery parses, ApplyOptions, Reset, Release, Put/Get (tokenize, TokenizeContext, SetDialect, SetLogger, Reset, Put/Get) with arbitrary inputs, failures and cancellations, on an instance that was new or came out of the pool after arbitrary use, the outcome of any probe call equals its outcome on a new instance carrying only the options the current holder applied; C08_depth_ctx_never_left_behind: after any history depth = 0 and ctx = nil; C08_reset_is_fresh, C08_pool_get_is_fresh, C08_tok_pool_get_is_fresh: the state after Reset / Release / Put, and every instance the pool can hand out, is EQUAL to a newly constructed one (tokenizer Reset: equal to a new one with the holder\'s dialect, logger excepted). Proved once for any implementation that respects a footprint table satisfying a decidable read-before-write condition (C08_no_carry_over_any_implementation), and the model transformers are proved to respect their table; five _refuted theorems exhibit the carry-over for each repaired defect switched back on.',
    note=common.BASE_NOTE + 'The model transformers are hand-written from the Go code; their footprint table is tied to the source by the regenerated go/ssa field-effect table (Inst_C08: every model column is played by exactly one struct field, found by its role, the depth counter being the field the C02 guard recogniser identified; every other struct field is dead on entry of every method or well behaved, C08_extra_fields_admitted; no unmodelled incoming read, every boundary operation stores every field on every path) and to the behaviour by the history correspondence; statement parser and lexer are abstract (any function of the fields the table lets them read); sync.Pool modelled as handing out any previously put instance or a new one; the currentToken field is justified by a guard lemma (cursor bound checked first), not by the SSA table.',
    design='6/C08')

# the model's columns, named after ROLES: read from the Coq model itself (Model/Reuse.v: map pfield_name all_pfields /
# map tfield_name all_tfields, evaluated by load_model_columns once the theories are built) - no field name is written
# down here.  The struct field that currently plays a role comes from the regenerated table (static.json
# fieldfx[].roles: found by type / use, the depth counter by the C02 recogniser; tools/gotables/roles.go, parser and
# tokenizer alike), so a renamed field is the same column and an added field is an "extra" column
PFIELDS, TFIELDS = [], []
ROLE_HDR = {}      # current names of the fields playing the parser's depth / ctx roles, handed to the harness


def load_model_columns():
    """column (role) names of the two footprint tables, in model order, as the Coq model defines them"""
    body = ("From Coq Require Import List String.\nFrom GV Require Import Model.Reuse.\nImport ListNotations.\n"
            "Definition pcols := Eval vm_compute in map pfield_name all_pfields.\nDefinition tcols := Eval vm_compute in map tfield_name all_tfields.\n"
            "Print pcols.\nPrint tcols.\n")
    ok, out, err = common.coq_cases("c08_columns", body)
    m = re.search(r"pcols\s*=\s*(\[.*?\])\s*:.*?tcols\s*=\s*(\[.*?\])\s*:", out, re.S) if ok else None
    if not m:
        raise common.StageError("model-columns", "cannot read the columns of Model/Reuse.v: " + (err or out)[-1500:])
    PFIELDS[:] = re.findall(r'"([^"]+)"', m.group(1))
    TFIELDS[:] = re.findall(r'"([^"]+)"', m.group(2))
    if not PFIELDS or not TFIELDS:
        raise common.StageError("model-columns", "empty column list: " + out[-500:])


def set_role_header(fx):
    roles = (fx or {}).get("parser_roles") or {}
    ROLE_HDR.clear()
    # the harness checks these two after EVERY call; it is told which struct fields play them today
    ROLE_HDR.update({"depth_field": roles.get("depth", "depth"), "ctx_field": roles.get("ctx", "ctx")})
# Go methods a model operation stands for (Model/Reuse.v pop_methods / top_methods)
OP_METHODS = {"OParse": ["Parse", "ParseFromModelTokens"], "OParsePos": ["ParseWithPositions", "ParseFromModelTokensWithPositions"],
              "OParseCtx": ["ParseContext", "ParseContextFromModelTokens"], "ORecover": ["ParseWithRecovery"],
              "ORecoverPos": ["ParseWithRecoveryFromModelTokens"], "OApply": ["ApplyOptions"], "OReset": ["Reset"], "ORelease": ["Release"],
              "OPutGet": ["PutParser"], "OTokenize": ["Tokenize"], "OTokenizeCtx": ["TokenizeContext"], "OSetDialect": ["SetDialect"],
              "OSetLogger": ["SetLogger"], "OTReset": ["Reset"], "OTPutGet": ["PutTokenizer"]}


def current_names(fx, kind):
    """current struct-field names of the model's columns, in model order"""
    roles = (fx or {}).get(kind + "_roles") or {}
    return [roles.get(r, r) for r in (PFIELDS if kind == "parser" else TFIELDS)]


def extra_effect(fx, kind, op, field):
    """footprint of a struct field the model has no column for under a model operation, from its regenerated cells
    (mirror of Reuse.eff_of_cell / eff_join)"""
    raw = ((fx or {}).get("raw") or {}).get(kind) or {}
    effs = []
    for m in OP_METHODS[op]:
        c = (raw.get(m) or {}).get(field)
        if c is None:
            effs.append("Any")
            continue
        _, cls, az = c
        effs.append({"none": "Keep", "balanced": "Keep", "must": "Zero" if az else "Det", "zero_or_keep": "KZ", "may": "Any"}[cls])
    e = effs[0]
    for x in effs[1:]:
        if x != e:
            e = "KZ" if {x, e} <= {"Keep", "Zero", "KZ"} else "Any"
    return e
POP = {"parse": "OParse", "parse_raw_empty": "OParse", "parse_raw_nil": "OParse", "parse_noeof": "OParse", "parsepos": "OParsePos",
       "parsectx": "OParseCtx", "recover": "ORecover", "recoverpos": "ORecoverPos", "apply": "OApply", "reset": "OReset",
       "release": "ORelease", "putget": "OPutGet", "putget_other": "OPutGet"}
TOP = {"tokenize": "OTokenize", "toolarge": "OTokenize", "tokenizectx": "OTokenizeCtx", "toolargectx": "OTokenizeCtx",
       "setdialect": "OSetDialect", "setlogger": "OSetLogger", "reset": "OTReset", "putget": "OTPutGet", "putget_other": "OTPutGet"}

PARSE_CALLS = ["parse", "parsepos", "parsectx", "recover", "recoverpos"]
CTX_MODES = ["bg", "bg", "cancelled", "deadline", "poll:1", "poll:2", "poll:3", "poll:5", "polld:2", "poll:9"]
DIALECTS = ["mysql", "postgresql", "sqlite", "sqlserver", "oracle", "snowflake", ""]


def nest(d, inner="a"):
    return "SELECT " + "".join("(" + ("\n" if i % 20 == 19 else "") for i in range(d)) + inner + ")" * d + " FROM t"


def build_inputs(rng, tier):
    """input classes for the histories; every parser input tokenizes"""
    cls = {}
    valid = ["SELECT 1", "SELECT a, b FROM t WHERE a = 1", "SELECT a\nFROM t\nWHERE b IN (1, 2)\nORDER BY a",
             "INSERT INTO t (a) VALUES (1)", "UPDATE t SET a = 1 WHERE b = 2", "DELETE FROM t WHERE a = 1",
             "SELECT 1; SELECT 2", "SELECT a FROM t;\nSELECT b FROM u;\nSELECT c FROM v"]
    valid += sqlgen.SPECIAL[:24] + sqlgen.generated_statements(rng, 40 if tier == "quick" else 200)
    valid += sqlgen.corpus_statements(40 if tier == "quick" else 300)
    cls["valid"] = valid
    inv = ["SELECT FROM", "SELECT a FROM t WHERE", "SELECT a\n\n\nFROM t WHERE", "SELECT (a", "SELECT a FROM", "FROM t", "SELECT a,\n b,\n FROM t",
           "SELECT 1;\nSELECT FROM;\nSELECT 3", "INSERT INTO", "UPDATE t SET", "SELECT a FROM t t2 t3", "SELECT * FROM t WHERE a IN (SELECT",
           "SELECT 1 2", "x", "SELECT\n\n\n\n\n\n\n)", "WITH c AS (SELECT 1", "CREATE TABLE t (", "SELECT CASE WHEN a THEN", "SELECT a FROM t ORDER",
           "SELECT 1; garbage here; SELECT 2; more garbage"]
    for s in valid[:60]:
        ws = s.split(" ")
        if len(ws) > 3:
            k = rng.randrange(1, len(ws))
            inv.append(" ".join(ws[:k]).replace(" ", "\n", 1))
    cls["invalid"] = inv
    cls["semis"] = [";", ";;", ";;SELECT 1;;", "SELECT 1;;SELECT 2", ";\n;\nSELECT a FROM t", "SELECT 1;", ";SELECT FROM"]
    cls["mysql"] = ["SELECT a FROM t LIMIT 10, 20", "SELECT a FROM t ORDER BY a LIMIT 1, 2", "SELECT a FROM t LIMIT 10, 20; SELECT FROM"]
    cls["deep_ok"] = [nest(60), nest(90), nest(97), "SELECT " + "f(" * 80 + "a" + ")" * 80 + " FROM t"] + sqlgen.deep_statements("quick")[:6]
    cls["deep_bad"] = [nest(101), nest(150), nest(400), nest(150, "a +"), "SELECT " + "CASE WHEN " * 120 + "a" + " THEN 1 END" * 120]
    cls["empty"] = ["", " ", "\n\n", "-- only a comment\n"]
    cls["comments"] = ["SELECT 1 -- c1\n", "/* a */ SELECT /* b */ 2 -- c", "-- x\n-- y\nSELECT a /* z */ FROM t", "SELECT a -- first\nFROM t -- second\nWHERE b = 1 /* third */"]
    cls["leading_ws"] = ["\n\n  SELECT a\nFROM t", "   SELECT 1", "\n\n\n-- c\n  SELECT 'x", "\t\n \n    SELECT a, b -- c\n  FROM t WHERE", "\n;\n\n  SELECT FROM"]
    cls["untok"] = ["SELECT 'abc", "SELECT \"abc", "SELECT a FROM t WHERE b = 'x\n-- c\n", "SELECT 1 /* c */ \x01", "SELECT `a", "/* c */ SELECT 'unterminated"]
    inputs, index = [], {}
    for c, l in cls.items():
        index[c] = []
        for s in l:
            index[c].append(len(inputs))
            inputs.append(s)
    return inputs, index


PARSER_CLASSES = ["valid", "valid", "invalid", "invalid", "semis", "mysql", "deep_ok", "deep_bad", "empty", "comments", "leading_ws"]
TOK_CLASSES = ["valid", "invalid", "comments", "comments", "untok", "untok", "empty", "deep_ok", "semis", "leading_ws", "leading_ws"]


def pick(rng, index, classes):
    c = rng.choice(classes)
    return rng.choice(index[c])


def parser_call(rng, index, classes=PARSER_CLASSES):
    op = rng.choice(["parse", "parse", "parsepos", "parsepos", "parsectx", "parsectx", "recover", "recoverpos", "parse_noeof", "parse_raw_empty", "parse_raw_nil"])
    o = {"op": op, "in": pick(rng, index, classes)}
    if op == "parse_noeof":
        o["in"] = rng.choice(index["noeof_safe"])
    if op == "parsectx":
        o["ctx"] = rng.choice(CTX_MODES)
    return o


def parser_probe(rng, index):
    o = parser_call(rng, index, ["invalid", "invalid", "semis", "mysql", "deep_ok", "valid", "empty"])
    if o["op"] == "parsectx":
        o["ctx"] = rng.choice(["bg", "bg", "bg", "poll:2", "cancelled"])
    return o


def parser_op(rng, index):
    r = rng.random()
    if r < 0.62:
        return parser_call(rng, index)
    if r < 0.80:
        opt = rng.choice(["strict", "dialect:mysql", "dialect:mysql", "dialect:postgresql", "strict,dialect:mysql", "dialect:" + rng.choice(DIALECTS)])
        return {"op": "apply", "in": -1, "opt": opt}
    return {"op": rng.choice(["reset", "release", "putget", "putget", "putget_other"]), "in": -1}


def tok_call(rng, index):
    op = rng.choice(["tokenize", "tokenize", "tokenize", "tokenizectx", "tokenizectx", "toolarge", "toolargectx"])
    o = {"op": op, "in": pick(rng, index, TOK_CLASSES)}
    if op.endswith("ctx"):
        o["ctx"] = rng.choice(["bg", "bg", "cancelled", "deadline", "poll:1", "poll:2"])
    return o


def tok_op(rng, index):
    r = rng.random()
    if r < 0.6:
        return tok_call(rng, index)
    if r < 0.75:
        return {"op": "setdialect", "in": -1, "opt": "dialect:" + rng.choice(DIALECTS)}
    if r < 0.82:
        return {"op": "setlogger", "in": -1, "opt": rng.choice(["logger:on", "logger:off"])}
    return {"op": rng.choice(["reset", "putget", "putget", "putget_other"]), "in": -1}


API_CALLS = ["gosqlx.Parse", "gosqlx.ParseWithContext", "gosqlx.Validate", "gosqlx.ParseMultiple", "gosqlx.ParseWithRecovery",
             "parser.ValidateBytes", "parser.ParseBytes", "parser.ParseWithDialect", "parser.ValidateWithDialect",
             "parser.ParseMultiWithRecovery", "pool.parser", "pool.parser", "pool.tokenizer"]


def api_op(rng, index, probe=False):
    calls = [c for c in API_CALLS if not (probe and c.startswith("pool."))]
    op = rng.choice(calls)
    o = {"op": op, "in": pick(rng, index, ["valid", "invalid", "invalid", "semis", "mysql", "mysql", "deep_ok", "deep_bad", "comments", "untok", "empty"])}
    if op == "gosqlx.ParseWithContext":
        o["ctx"] = "bg" if probe else rng.choice(["bg", "cancelled", "deadline", "poll:1", "poll:2", "poll:4"])
    if op in ("parser.ParseWithDialect", "parser.ValidateWithDialect"):
        o["opt"] = "dialect:" + rng.choice(["mysql", "postgresql", "sqlite"])
    if op == "pool.parser":
        o["opt"] = rng.choice(["strict", "dialect:mysql", "strict,dialect:mysql"])
    if op == "pool.tokenizer":
        o["opt"] = rng.choice(["dialect:mysql", "dialect:sqlite", "logger:on"])
    return o


def gen_histories(rng, index, n_random, trace_every):
    hs = []
    hid = 0
    # systematic pairs: every dirtying operation on a sample of every input class, then every probe shape
    dirty_ops = []
    for c in ["valid", "invalid", "semis", "mysql", "deep_bad", "comments"]:
        for i in index[c][:3]:
            for op in PARSE_CALLS:
                for ctx in (["bg", "cancelled", "poll:2"] if op == "parsectx" else [None]):
                    o = {"op": op, "in": i}
                    if ctx:
                        o["ctx"] = ctx
                    dirty_ops.append([o])
    for opt in ["strict", "dialect:mysql", "strict,dialect:mysql"]:
        for b in ["reset", "release", "putget", "putget_other"]:
            dirty_ops.append([{"op": "apply", "in": -1, "opt": opt}, {"op": b, "in": -1}])
            dirty_ops.append([{"op": "apply", "in": -1, "opt": opt}, {"op": "parsepos", "in": index["invalid"][2]}, {"op": b, "in": -1}])
        dirty_ops.append([{"op": "apply", "in": -1, "opt": opt}])
    probes = []
    for c, k in [("invalid", 4), ("semis", 3), ("mysql", 2), ("deep_ok", 2), ("valid", 2), ("empty", 1)]:
        for i in index[c][:k]:
            for op in PARSE_CALLS + ["parse_noeof"]:
                if op == "parse_noeof" and i not in index["noeof_safe"]:
                    continue
                probes.append({"op": op, "in": i, **({"ctx": "bg"} if op == "parsectx" else {})})
    probes += [{"op": "parse_raw_empty", "in": 0}, {"op": "parse_raw_nil", "in": 0}]
    for ops in dirty_ops:
        for pr in rng.sample(probes, 8):
            hs.append({"id": hid, "kind": "parser", "start": rng.choice(["new", "pool"]), "ops": ops, "probe": pr, "trace": hid % trace_every == 0})
            hid += 1
    # tokenizer pairs
    tdirty = [[{"op": "tokenize", "in": i}] for i in index["comments"] + index["untok"][:3] + index["valid"][:2]]
    tdirty += [[{"op": "tokenize", "in": i}, {"op": b, "in": -1}] for i in index["comments"][2:] + index["valid"][2:4] for b in ["reset", "putget"]]
    tdirty += [[{"op": "setdialect", "in": -1, "opt": "dialect:mysql"}, {"op": b, "in": -1}] for b in ["reset", "putget"]]
    tdirty += [[{"op": "setdialect", "in": -1, "opt": "dialect:mysql"}, {"op": "tokenize", "in": index["comments"][1]}, {"op": "putget", "in": -1}]]
    tdirty += [[{"op": "setlogger", "in": -1, "opt": "logger:on"}, {"op": b, "in": -1}] for b in ["reset", "putget"]]
    tdirty += [[{"op": "tokenize", "in": i}] for i in index["empty"][:3] + index["semis"][:2]]
    tprobes = [{"op": "tokenize", "in": i} for i in index["comments"][:2] + index["untok"][:2] + index["valid"][:1] + index["empty"][:1] + index["leading_ws"]]
    tprobes += [{"op": "tokenizectx", "in": index["comments"][0], "ctx": m} for m in ["bg", "cancelled", "deadline", "poll:1"]]
    tprobes += [{"op": "toolarge", "in": 0}, {"op": "toolargectx", "in": 0, "ctx": "bg"}, {"op": "toolargectx", "in": 0, "ctx": "cancelled"}]
    for ops in tdirty:
        for pr in tprobes:
            hs.append({"id": hid, "kind": "tokenizer", "start": rng.choice(["new", "pool"]), "ops": ops, "probe": pr, "trace": hid % trace_every == 0})
            hid += 1
    # API level (gosqlx.* / parser.* convenience calls over the pools): warm pools vs empty pools
    for k in range(max(60, n_random // 4)):
        ops = [api_op(rng, index) for _ in range(rng.randrange(1, 13))]
        hs.append({"id": hid, "kind": "api", "start": "pool", "ops": ops, "probe": api_op(rng, index, probe=True), "trace": False})
        hid += 1
    # random histories, length <= 40
    for k in range(n_random):
        if k % 4 == 3:
            ln = rng.randrange(1, 41)
            ops = [tok_op(rng, index) for _ in range(ln)]
            pr = tok_call(rng, index)
            kind = "tokenizer"
        else:
            ln = rng.randrange(1, 41)
            ops = [parser_op(rng, index) for _ in range(ln)]
            pr = parser_probe(rng, index)
            kind = "parser"
        hs.append({"id": hid, "kind": kind, "start": rng.choice(["new", "pool"]), "ops": ops, "probe": pr, "trace": hid % trace_every == 0})
        hid += 1
    return hs


class _P:
    def __init__(self, rc, err):
        self.returncode, self.stderr, self.stdout = rc, err, ""


DIED = []      # histories on which the implementation hung or exhausted memory (C01 territory; listed in the evidence)


def run_histories(hs, inputs, timeout=3000, mem_kb=6000000):
    """run the histories in the harness under a memory limit; a history on which the implementation hangs or
    exhausts memory kills the process: it is recorded in DIED and the remaining histories are run in a new process"""
    import subprocess
    binp = common.stage_harness()
    outs, rest, rc, err = [], list(hs), 0, ""
    for attempt in range(8):
        if not rest:
            break
        body = json.dumps(dict({"inputs": inputs}, **ROLE_HDR)) + "\n" + "".join(json.dumps(h) + "\n" for h in rest)
        try:
            p = subprocess.run(["bash", "-c", "ulimit -v %d; exec %s reuse" % (mem_kb, binp)], input=body, stdout=subprocess.PIPE,
                               stderr=subprocess.PIPE, text=True, timeout=timeout)
            so, rc, err = p.stdout, p.returncode, p.stderr
        except subprocess.TimeoutExpired as e:
            so, rc, err = (e.stdout.decode() if isinstance(e.stdout, bytes) else (e.stdout or "")), 124, "timeout"
        got = []
        for line in so.splitlines():
            try:
                got.append(json.loads(line))
            except ValueError:
                break
        outs += got
        if len(got) >= len(rest):
            rest = []
            break
        why = "timeout" if rc == 124 else next((l.strip() for l in err.splitlines() if l.startswith("fatal error") or l.startswith("runtime:")), "killed")
        if "out of memory" in why:
            why = "out of memory (ulimit -v %d kB)" % mem_kb
        DIED.append({"history": self_contained(rest[len(got)], inputs), "exit": rc, "why": why[:80]})
        rest = rest[len(got) + 1:]
    return _P(0 if not rest else rc, err), outs


def screen_noeof(inputs, idxs):
    """inputs on which Parse of the EOF-less token slice returns (the implementation hangs on some: C01's matter)"""
    hs = [{"id": k, "kind": "parser", "start": "new", "ops": [{"op": "parse_noeof", "in": i}], "probe": {"op": "parse_raw_nil", "in": 0}, "trace": False}
          for k, i in enumerate(idxs)]
    _, outs = run_histories(hs, inputs, timeout=300, mem_kb=2000000)
    ok = {o["id"] for o in outs}
    return [i for k, i in enumerate(idxs) if k in ok]


def failing(o):
    return bool(o.get("mismatch") or o.get("state_fail") or o.get("depth_fail") or o.get("panic"))


def self_contained(h, inputs):
    """replay form of a history: carries its own inputs"""
    used = sorted({o["in"] for o in h["ops"] + [h["probe"]] if o.get("in", -1) >= 0})
    remap = {i: k for k, i in enumerate(used)}
    def r(o):
        o = dict(o)
        if o.get("in", -1) >= 0:
            o["in"] = remap[o["in"]]
        return o
    return {"id": 0, "kind": h["kind"], "start": h["start"], "ops": [r(o) for o in h["ops"]], "probe": r(h["probe"]),
            "trace": False, "inputs": [inputs[i] for i in used]}


def shrink(h, inputs, budget=40):
    """delta debugging over the operations: remove chunks (halves, quarters, ... single operations) while the
    history still fails; every round is one harness call with all candidates of the current chunk size"""
    cur = dict(h)
    cur["trace"] = False
    n = max(1, len(cur["ops"]) // 2)
    calls = 0
    while n >= 1 and calls < budget and cur["ops"]:
        cands = []
        for i in range(0, len(cur["ops"]), n):
            c = dict(cur)
            c["ops"] = cur["ops"][:i] + cur["ops"][i + n:]
            c["id"] = len(cands)
            cands.append(c)
        _, outs = run_histories(cands, inputs, timeout=600)
        calls += 1
        bad = [o["id"] for o in outs if failing(o)]
        if bad:
            cur = dict(cands[bad[0]])
            n = max(1, min(n, len(cur["ops"]) // 2)) if len(cur["ops"]) > 1 else 1
            if not cur["ops"]:
                break
        else:
            if n == 1:
                break
            n = max(1, n // 2)
    cur["id"] = h["id"]
    return cur


def signature_of(out, h):
    """(field, operation) signature of a failure, for matching narrow known findings"""
    sigs = set()
    for s in out.get("state_fail") or []:
        m = re.match(r"after op \d+ \((\w+)\): (.*)", s)
        if m:
            for part in m.group(2).split("; "):
                sigs.add((h["kind"], part.split(":")[0], m.group(1)))
    if out.get("mismatch"):
        sigs.add((h["kind"], "probe", h["probe"]["op"]))
    return sigs


def coq_bool(b):
    return "true" if b else "false"


def dirtiness_cases(outs, hs_by_id, fx=None):
    """Coq cases for the per-field dirtiness correspondence (columns found by role; extra struct fields are checked
    here against the footprint their regenerated column stands for)"""
    pcases, tcases, pid, tid = [], [], [], []
    broken, extra_bad = [], []
    for o in outs:
        if not o.get("trace"):
            continue
        kind = o["kind"]
        model = PFIELDS if kind == "parser" else TFIELDS
        names = current_names(fx, kind)
        now = o.get("fields") or []
        if len(set(names)) != len(names) or any(n not in now for n in names):
            broken.append({"id": o["id"], "kind": kind, "fields_now": now, "fields_model": model, "played_by": names})
            continue
        idx = [now.index(n) for n in names]
        extras = [i for i in range(len(now)) if i not in idx]
        steps = []
        dirty = {i: False for i in extras}
        for st in o["trace"]:
            name = (POP if kind == "parser" else TOP)[st["op"]]
            obs = "; ".join("(%s, %s)" % (coq_bool(st["obs"][i]["d"]), coq_bool(st["obs"][i]["c"])) for i in idx)
            steps.append("(%s, [%s])" % (name, obs))
            for i in extras:
                e = extra_effect(fx, kind, name, now[i])
                dirty[i] = {"Keep": dirty[i], "KZ": dirty[i], "Zero": False}.get(e, True)
                x = st["obs"][i]
                if (x["d"] and not dirty[i]) or (e == "Keep" and x["c"]):
                    extra_bad.append({"id": o["id"], "field": now[i], "op": st["op"], "footprint": e, "observed": x})
        (pcases if kind == "parser" else tcases).append("[" + "; ".join(steps) + "]")
        (pid if kind == "parser" else tid).append(o["id"])
    return pcases, pid, tcases, tid, broken, extra_bad


def switches():
    """defect switches as recorded (status known) in known_findings.d/C08.json"""
    ks = [k for k in common.known_findings("C08") if k["status"] == "known" and k.get("switch")]
    sw = {k["switch"] for k in ks}
    d = "(mkD %s %s %s)" % tuple(coq_bool(x in sw) for x in ["d_stale_positions", "d_reset_keeps_dialect", "d_release_keeps_cfg"])
    td = "(mkTD %s %s)" % tuple(coq_bool(x in sw) for x in ["td_put_keeps_dialect", "td_early_return_keeps_comments"])
    return d, td, ks


def run_dirtiness(rp, outs, hs_by_id, fx=None):
    pcases, pid, tcases, tid, broken, extra_bad = dirtiness_cases(outs, hs_by_id, fx)
    broken = broken + [dict(e, kind="extra-field") for e in extra_bad[:3]]
    d, td, _ = switches()
    bad_ids = []
    n = 0
    for name, cases, ids, tab, ty in [("c08_pdirty", pcases, pid, "ptable " + d, "pop"), ("c08_tdirty", tcases, tid, "ttable " + td, "top")]:
        for s in range(0, len(cases), 400):
            chunk = cases[s:s + 400]
            body = ("From Coq Require Import List NArith Bool.\nFrom GV Require Import Model.Reuse.\nImport ListNotations.\n"
                    "Definition T := %s.\nDefinition cases : list (list (%s * list (bool * bool))) := [\n%s].\n"
                    "Definition bad := Eval vm_compute in bad_indices (fun h => dcheck T (dstart T) h) 0%%N cases.\nPrint bad.\n"
                    % (tab, ty, ";\n".join(chunk)))
            ok, out, err = common.coq_cases("%s_%d" % (name, s), body)
            if not ok:
                rp.violation({"kind": "correspondence", "broken": "dirtiness cases do not compile", "detail": err[-2000:]}, "dirtiness_cases", no_input=True)
                return n, [], broken
            bad_ids += [ids[s + i] for i in common.parse_nlist(out)]
            n += len(chunk)
    return n, bad_ids, broken


def check_witnesses(rp):
    """replay the witnesses of recorded findings: fixed ones must pass, known ones should still fail"""
    stale = []
    for k in common.known_findings("C08"):
        w = k.get("witness")
        if not isinstance(w, dict) or "ops" not in w:
            continue
        _, outs = run_histories([w], [], timeout=600)
        bad = bool(outs) and failing(outs[0])
        if k["status"] == "fixed" and bad:
            rp.violation({"kind": "oracle", "regressed": k["key"], "history": w, "observed": outs[0],
                          "explanation": "a repaired carry-over is back: " + k.get("what", "")}, "regressed_" + k["key"])
        if k["status"] == "known" and not bad:
            stale.append(k["key"])
    return stale


def run(tier):
    rp = Report("C08", tier)
    rng = random.Random(common.seed())
    try:
        with common.Lock():
            static = common.stage_gotables()
            import gen, gen08
            gen.emit_callgraph(static)
            fx = gen08.emit_fieldfx(static)
            ok_inst, ok_props, full_ok, logs = common.coq_stage(
                rp, ["theories/Inst/Inst_C08.vo", "theories/Proofs/ReuseP.vo"], "theories/Props/C08.v",
                ["Props.C08.C08_no_carry_over_any_implementation", "Props.C08.C08_extra_fields_admitted", "Props.C08.C08_no_carry_over", "Props.C08.C08_reset_is_fresh",
                 "Props.C08.C08_pool_get_is_fresh", "Props.C08.C08_depth_ctx_never_left_behind", "Props.C08.C08_tok_no_carry_over", "Props.C08.C08_tok_pool_get_is_fresh",
                 "Props.C08.C08_tok_reset_is_fresh",
                 "Props.C08.C08_stale_positions_refuted (+ put_keeps_dialect, release_keeps_config, tok_put_keeps_dialect, tok_early_return _refuted)"],
                inst_names=["Inst_C08.parser_fieldfx_ok", "Inst_C08.tokenizer_fieldfx_ok", "Inst_C08.depth_balanced_ok"])
            common.stage_harness()
            load_model_columns()
            set_role_header(fx)
    except common.StageError as e:
        return common.stage_fail(rp, e)

    inputs, index = build_inputs(rng, tier)
    cand = [i for c in ("valid", "invalid", "semis", "mysql", "empty", "comments") for i in index[c]]
    index["noeof_safe"] = screen_noeof(inputs, cand)
    n_random = 500 if tier == "quick" else 12000
    hs = gen_histories(rng, index, n_random, trace_every=2 if tier == "quick" else 8)
    hs_by_id = {h["id"]: h for h in hs}
    p, outs = run_histories(hs, inputs)
    if p.returncode != 0 or len(outs) != len(hs):
        rp.violation({"kind": "harness", "detail": p.stderr[-2000:], "got": len(outs), "want": len(hs)}, "reuse_harness", no_input=True)
    _, _, known = switches()
    ksig = {(k["signature"].get("instance"), k["signature"].get("field"), k["signature"].get("operation")): k for k in known}

    # property oracle + reflect oracle
    fails = [o for o in outs if failing(o)]
    reported, known_hit = set(), set()
    for o in fails:
        h = hs_by_id[o["id"]]
        sigs = signature_of(o, h)
        if sigs and all(s in ksig for s in sigs):
            for s in sigs:
                if s not in known_hit:
                    known_hit.add(s)
                    rp.known(ksig[s]["key"], ksig[s].get("what", ""))
            continue
        key = tuple(sorted(sigs - set(ksig))) or (("panic", o.get("panic", "")[:40]),)
        if key in reported or len(reported) >= 3:
            continue
        reported.add(key)
        small = shrink(h, inputs)
        _, so = run_histories([small], inputs, timeout=600)
        rp.violation({"kind": "oracle", "history": self_contained(small, inputs), "observed": (so[0] if so else o),
                      "original_length": len(h["ops"]), "seed": common.seed(),
                      "explanation": "after this history on ONE instance the probe call differs from the same call on a new instance carrying only the current holder's options, "
                                     "or the instance is not equal to a new one after Reset/Release/Put+Get, or depth/ctx were left behind"},
                     "history_%s_%d" % (h["kind"], o["id"]))

    # correspondence: observed per-field dirtiness vs the Coq footprint model
    ncases, bad_ids, broken = run_dirtiness(rp, outs, hs_by_id, fx)
    rp.obligation("correspondence: observed per-field dirtiness of the real instance agrees with the footprint model (Keep => unchanged, clean => equal to a new instance)",
                  not bad_ids and not broken, "%d histories" % ncases)
    if (bad_ids or broken) and not reported:
        # the oracle saw nothing wrong on these histories: report the broken correspondence itself
        what = {"kind": "correspondence", "broken": "Model/Reuse.v footprint table vs observed field dirtiness",
                "theorem": "C08_no_carry_over (psem_respects / tsem_respects)", "struct_changed": broken[:2],
                "histories": [self_contained(hs_by_id[i], inputs) for i in bad_ids[:2]],
                "note": "no probe on the explored histories distinguishes the used instance from a new one"}
        rp.violation(what, "dirtiness_correspondence", no_input=True)

    # proof obligations
    if not ok_inst and not reported:
        # regenerated field-effect table no longer satisfies the instance lemma, and the oracle found nothing: targeted search
        found = targeted_search(rp, fx, rng, inputs, index)
        if not found:
            rp.violation({"kind": "proof", "theorem": "Inst_C08 (field-effect table regenerated from the source vs the model's footprint table)",
                          "incompatible_cells": bad_cells(), "struct_fields": {"parser": fx.get("parser_fields"), "tokenizer": fx.get("tokenizer_fields")},
                          "regenerated_table": fx.get("rows", []), "log": logs["inst"][-800:]}, "inst_c08", no_input=True)
    if ok_inst and not ok_props:
        rp.violation({"kind": "proof", "theorem": "Props/C08.v", "log": logs["props"][-3000:]}, "props_c08", no_input=True)

    stale = check_witnesses(rp)

    nontrivial = sum(1 for o in outs if o.get("probe_class") and len(hs_by_id[o["id"]]["ops"]) > 0)
    reused = sum(1 for h in hs for o in h["ops"] if o["op"] in ("putget", "putget_other"))
    rp.cov["evaluations"] = len(outs)
    rp.cov["distinct_nontrivial"] = len({json.dumps([h["kind"], h["ops"], h["probe"]], sort_keys=True) for h in hs if h["ops"]})
    rp.cov["rule"] = ("a case is one operation history on one real instance followed by a probe call compared with the same call on a new instance carrying the current holder's options; "
                      "non-trivial = at least one operation before the probe (distinct (ops, probe) counted); systematic part: every dirtying call shape x input class x 8 probe shapes, "
                      "every option x every boundary operation; random part: length 1..40, seeded")
    pc = {}
    for o in outs:
        pc[o.get("probe_class") or "none"] = pc.get(o.get("probe_class") or "none", 0) + 1
    oc = {}
    for h in hs:
        for o in h["ops"]:
            oc[o["op"]] = oc.get(o["op"], 0) + 1
    rp.cov["histories"] = {"total": len(hs), "parser": sum(1 for h in hs if h["kind"] == "parser"), "tokenizer": sum(1 for h in hs if h["kind"] == "tokenizer"),
                           "api": sum(1 for h in hs if h["kind"] == "api"),
                           "operations": sum(len(h["ops"]) for h in hs), "max_length": max(len(h["ops"]) for h in hs), "by_operation": oc,
                           "pool_put_get": reused, "pool_returned_other_object": sum(o.get("pool_other", 0) for o in outs),
                           "probe_outcome_classes": pc, "inputs": {c: len(v) for c, v in index.items()}}
    rp.cov["dirtiness_correspondence"] = {"histories": ncases, "mismatching": len(bad_ids), "struct_mismatch": len(broken)}
    rp.cov["field_effect_table"] = {"methods": len(fx.get("rows", [])), "parser_fields": fx.get("parser_fields"), "tokenizer_fields": fx.get("tokenizer_fields"),
                                    "parser_roles": fx.get("parser_roles"), "depth_counter": fx.get("parser_counter"),
                                    "extra_fields": {k: [f for f in (fx.get(k + "_fields") or []) if f not in current_names(fx, k)] for k in ("parser", "tokenizer")}}
    rp.cov["samples"] = [self_contained(hs[0], inputs), self_contained(hs[-1], inputs)]
    if DIED:
        rp.cov["implementation_hangs_skipped"] = DIED[:5]
        rp.cov["notes"].append("%d histories killed the harness process (hang / memory exhaustion of the implementation on an EOF-less token slice or similar): "
                               "that is C01's statement, not C08's; they are listed under implementation_hangs_skipped and skipped" % len(DIED))
    if stale:
        rp.cov["notes"].append("stale known findings (witness no longer fails): " + ", ".join(stale))
    rp.cov["notes"].append("Tokenizer.Reset (called by Tokenize) also drops the logger set by SetLogger: the logger never influences an outcome; stated in C08_tok_reset_is_fresh")
    rp.assumptions = ["the statement parser / lexer are abstract: any function of the fields the footprint table lets them read (tied by the regenerated go/ssa field-effect table and the history correspondence)",
                      "depth is restored by the deferred decrement on every path (checked: depth_inc = depth_defer_dec in the regenerated call-graph table; depth read after every call of every history)",
                      "sync.Pool hands out only instances previously Put or built by New",
                      "currentToken is not consulted when the token slice is empty (cursor bound checked first): lemma cur_guarded on the model loop + probes with empty / nil / EOF-less token slices"]
    return rp.finish()


def bad_cells():
    """ask Coq which (method, field) cells of the regenerated table are incompatible with the model's footprint table"""
    body = ("From Coq Require Import List String Bool.\nFrom GV Require Import Model.Reuse Gen.FieldFx.\nImport ListNotations.\n"
            "Definition badp := Eval vm_compute in fx_bad_cells (ptable no_defects) (role_name parser_roles pfield_name) pop_methods pguard_r pguard_w true parser_fields parser_fx.\n"
            "Definition badt := Eval vm_compute in fx_bad_cells (ttable no_tdefects) (role_name tokenizer_roles tfield_name) top_methods tguard_r tguard_w false tokenizer_fields tokenizer_fx.\n"
            "Print badp.\nPrint badt.\n")
    ok, out, err = common.coq_cases("c08_badcells", body)
    if not ok:
        return ["(diagnostics unavailable: %s)" % err[-200:]]
    cells = []
    for kind, name in (("Parser", "badp"), ("Tokenizer", "badt")):
        m = re.search(name + r"\s*=\s*(\[.*?\])\s*:\s*list", out, re.S)
        for a, b in re.findall(r'\(\s*"([^"]*)"(?:%string)?\s*,\s*"([^"]*)"(?:%string)?\s*\)', m.group(1) if m else ""):
            cells.append("%s.%s: %s" % (kind, a, b))
    return cells


def targeted_search(rp, fx, rng, inputs, index):
    """the regenerated table disagrees with the model: look for a concrete failing history with fresh randomness"""
    rng2 = random.Random(common.seed() + 7919)
    hs = gen_histories(rng2, index, 1500, trace_every=10 ** 9)
    _, outs = run_histories(hs, inputs)
    hb = {h["id"]: h for h in hs}
    for o in outs:
        if failing(o):
            small = shrink(hb[o["id"]], inputs)
            _, so = run_histories([small], inputs, timeout=600)
            rp.violation({"kind": "oracle", "history": self_contained(small, inputs), "observed": (so[0] if so else o), "incompatible_cells": bad_cells(),
                          "explanation": "the field-effect table regenerated from the source no longer satisfies Inst_C08; this history shows the carry-over on the implementation"},
                         "table_history_%d" % o["id"])
            return True
    return False


def replay(path):
    d = json.load(open(path))
    try:
        t = next((x for x in common.stage_gotables().get("fieldfx") or [] if x["type"] == "Parser"), None)
        set_role_header({"parser_roles": (t or {}).get("roles")})
    except Exception:
        pass
    h = d.get("history") or (d.get("histories") or [None])[0]
    if not h:
        print(json.dumps(d, indent=1)[:3000])
        return 2
    _, outs = run_histories([h], [], timeout=600)
    print(json.dumps(outs, indent=1))
    return 1 if (not outs or failing(outs[0])) else 0
