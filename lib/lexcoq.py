"""Turn a generated lexeme stream (lexeme texts, separator texts; lib/lexgen.py) into terms of the reference grammar
coq/theories/Spec/LexSpec.v, so that Coq itself decides well-formedness (wf) and computes the prescribed reading
(Spec/LexRefEval.v ref_check).  Purely syntactic: each text is cut into the constructor arguments of its class."""
import re
import lexgen

_num = re.compile(r"([0-9]+)(?:\.([0-9]+))?(?:([eE])([+-]?)([0-9]+))?\Z")


def nl(xs):
    return "[" + ";".join(str(int(x)) for x in xs) + "]"


def cps(s):
    return nl(ord(c) for c in s)


def bts(s):
    return nl(s.encode("utf-8", errors="surrogatepass"))


def lexeme_term(t):
    """Coq term of type lexeme for the lexeme text t, or None when t has no shape of the grammar"""
    ch = t[0]
    if lexgen.is_word_start(ch):
        return "LWord " + cps(t)
    if ch.isascii() and ch.isdigit():
        m = _num.match(t)
        if not m:
            return None
        ip, fp, e, sg, ds = m.groups()
        fpt = "None" if fp is None else "(Some %s)" % bts(fp)
        ext = "None" if e is None else "(Some (%d, %s, %s))" % (ord(e), "None" if not sg else "(Some %d)" % ord(sg), bts(ds))
        return "LNum %s %s %s" % (bts(ip), fpt, ext)
    if ch in lexgen.SQ:
        if t.startswith("'''") and len(t) >= 6 and t.endswith("'''"):
            return "LTriple " + cps(t[3:-3])
        # (a text that begins with three quotes without being a triple-quoted literal is rendered as the string it was
        # generated as; Spec lex_ok rejects it)
        if len(t) < 2:
            return None
        items, j, end = [], 1, len(t) - 1
        while j < end:
            c = t[j]
            if lexgen.NORMQ.get(c, c) == "'":
                if j + 1 >= end:
                    return None
                items.append("SQuote2 %d %d" % (ord(c), ord(t[j + 1]))); j += 2
            elif c == "\\":
                if j + 1 >= end:
                    return None
                items.append("SEsc %d" % ord(t[j + 1])); j += 2
            else:
                items.append("SChar %d" % ord(c)); j += 1
        return "LSStr %d %d [%s]" % (ord(t[0]), ord(t[-1]), "; ".join(items))
    if ch in lexgen.DQ:
        if len(t) < 2:
            return None
        items, j, end = [], 1, len(t) - 1
        while j < end:
            c = t[j]
            if lexgen.NORMQ.get(c, c) == '"':
                if j + 1 >= end:
                    return None
                items.append("QQuote2 %d %d" % (ord(c), ord(t[j + 1]))); j += 2
            else:
                items.append("QChar %d" % ord(c)); j += 1
        return "LQId %d %d [%s]" % (ord(t[0]), ord(t[-1]), "; ".join(items))
    if ch == "`":
        b = t.encode("utf-8", errors="surrogatepass")
        if len(b) < 2 or b[-1] != 96:
            return None
        items, j, end = [], 1, len(b) - 1
        while j < end:
            if b[j] == 96:
                if j + 1 >= end:
                    return None
                items.append("BTick2"); j += 2
            else:
                items.append("BByte %d" % b[j]); j += 1
        return "LBId [%s]" % "; ".join(items)
    if ch == "$":
        if len(t) == 1:
            return "LDollarSign"
        if t[1].isascii() and t[1].isdigit():
            return "LParamNum " + bts(t[1:])
        k = t.find("$", 1)
        if k < 0:
            return None
        closing = t[:k + 1]
        if len(t) < 2 * len(closing) or not t.endswith(closing):
            return None
        return "LDollar %s %s" % (cps(t[1:k]), bts(t[k + 1:len(t) - len(closing)]))
    if ch == "@":
        if len(t) == 1:
            return "LAt"
        if lexgen.is_word_start(t[1]):
            return "LParamAt " + cps(t[1:])
    return "(op_of %s)" % bts(t)


def sep_term(s):
    """Coq term of type sep (list trivia) for the separator text s, or None"""
    out, j, n = [], 0, len(s)
    while j < n:
        c = s[j]
        if c in " \t\r\n":
            out.append("TWs %d" % ord(c)); j += 1
        elif s.startswith("--", j):
            e = s.find("\n", j)
            e = n if e < 0 else e
            out.append("TLine " + bts(s[j + 2:e])); j = e
        elif s.startswith("/*", j):
            e = s.find("*/", j + 2)
            if e < 0:
                return None
            out.append("TBlock " + bts(s[j + 2:e])); j = e + 2
        else:
            return None
    return "[" + "; ".join(out) + "]"


def case_term(lex, seps, inp, want):
    ls = [lexeme_term(t) for t in lex]
    ss = [sep_term(s) for s in seps]
    if any(x is None for x in ls) or any(x is None for x in ss):
        return None
    return "([%s],\n   [%s],\n   %s,\n   %s)" % ("; ".join(ls), "; ".join(ss), nl(inp), nl(want))


HEADER = ["From Coq Require Import List NArith.", "From GV Require Import Gen.LexTables Model.Lexer Spec.LexSpec Spec.LexRefEval.",
          "Import ListNotations.", "Local Open Scope N_scope.",
          "Definition cases : list (list lexeme * list sep * list N * list N) := ["]
FOOTER = "].\nDefinition res := Eval vm_compute in map ref_check cases.\nPrint res."
