"""C14 — tree traversal reaches every node of every tree."""
import json, os, random
import common, gen, sqlgen
from common import Report, log


def gtree_term(nodes):
    """Coq term of a dumped tree (nodes: id, ty, parent, field)"""
    kids = {}
    for n in nodes:
        if n["parent"] >= 0:
            kids.setdefault(n["parent"], {}).setdefault(n["field"], []).append(n["id"])
    def term(i):
        n = nodes[i]
        ks = kids.get(i, {})
        parts = ["(%d, [%s])" % (f, "; ".join(term(c) for c in cs)) for f, cs in sorted(ks.items())]
        return "GNode %d %d [%s]" % (n["id"], n["ty"], "; ".join(parts))
    import sys
    sys.setrecursionlimit(10000)
    return term(0)


def run(tier):
    rp = Report("C14", tier)
    rng = random.Random(common.seed())
    try:
        with common.Lock():
            tables = common.stage_tables()
            ct, _ = gen.emit_children(tables)
            ok_inst, log_inst = common.coq_make(["theories/Inst/Inst_C14.vo", "theories/Proofs/WalkP.vo"])
            ok_props, out_props, err_props = (False, "", "")
            if ok_inst:
                ok_props, out_props, err_props = common.coqc_file("theories/Props/C14.v")
            full_ok = False
            if ok_inst and not ct["known"]:
                full_ok, out_full, _ = common.coqc_file("theories/Props/C14_full.v")
                out_props += out_full
    except common.StageError as e:
        rp.obligation("staging:" + e.stage, False, e.detail)
        rp.violation({"kind": "correspondence", "broken": "stage " + e.stage, "detail": e.detail,
                      "note": "the harness/translator no longer builds or runs against the tree"}, "stage_" + e.stage, no_input=True)
        return rp.finish()

    rows = ct["rows"]
    tid, fid = ct["tid"], ct["fid"]
    rev = {(tid[t], f): (t, p) for (t, p), f in fid.items()}
    gaps = [k for k in ct["fields"] if k not in set(ct["emitted"])]
    known_set = set(ct["known"])
    kf = {(k["signature"]["type"], k["signature"]["path"]): k for k in common.known_findings("C14")
          if k.get("signature", {}).get("kind") == "type_field"}

    # obligations: generic theorems + instance lemmas + property file
    for name in ["cover_ok", "within_ok", "known_are_gaps_ok", "no_foreign_children", "no_typed_nil_children", "all_slots_probed"]:
        rp.obligation("Inst_C14." + name, ok_inst, "" if ok_inst else log_inst[-300:])
    for name in ["C14_walk_complete_except", "C14_walk_sound", "C14_inspect_prune", "C14_walk_linear"]:
        rp.obligation("Props.C14." + name, ok_props, err_props[-300:])
    rp.cov["assumptions"] = common.parse_assumptions(out_props)
    rp.cov["full_strength_theorem_checked"] = bool(full_ok)
    rp.cov["checker_cmd"] = "make -C coq theories/Inst/Inst_C14.vo && coqc -R theories GV theories/Props/C14.v"
    bad = common.grep_forbidden()
    rp.obligation("no Admitted/Axiom in development", not bad, "; ".join(bad)[:300])

    # table gaps: known / new
    new_gaps = []
    for k in gaps:
        t, p = rev[k]
        if k in known_set:
            rp.known("Children:%s.%s" % (t, p), kf[(t, p)].get("what", "Children() does not return the node stored in this field"))
        else:
            new_gaps.append((t, p))
    for k in known_set:
        if k not in gaps:
            rp.cov["notes"].append("stale known finding (field is emitted now): %s.%s" % rev[k])
    for (t, p) in new_gaps:
        # the probe tree itself is the failing input: replay it on the implementation
        pr = common.vh(["walkprobe", t, p])
        failing = pr.returncode == 1
        rp.violation({"kind": "table-gap", "property": "C14", "theorem": "Inst_C14.cover_ok",
                      "type": t, "path": p, "replay_cmd": "bin/check C14 --replay <this file>",
                      "impl_result": pr.stdout[-2000:],
                      "explanation": "Children() of %s does not return the node stored at %s: ast.Inspect/Walk never visits it" % (t, p)},
                     "gap_%s_%s" % (t, p), no_input=not failing)
    for t in tables["children"]["types"]:
        if t["extra"] or t["zero_typed_nil"] or t.get("zero_panics"):
            rp.violation({"kind": "table", "type": t, "theorem": "Inst_C14.no_foreign_children/no_typed_nil_children",
                          "explanation": "Children() hands out nodes that are not part of the value, or typed-nil pointers, or panics on the zero value"},
                         "children_%s" % t["type"])
    if not ok_inst and not new_gaps:
        rp.violation({"kind": "proof", "theorem": "Inst_C14", "log": log_inst[-3000:]}, "inst_c14", no_input=True)
    if ok_inst and not ok_props:
        rp.violation({"kind": "proof", "theorem": "Props/C14.v", "log": err_props[-3000:]}, "props_c14", no_input=True)

    # correspondence + oracle on real trees
    stmts = sqlgen.corpus_statements()
    stmts += sqlgen.generated_statements(rng, 600 if tier == "quick" else 6000)
    stmts += sqlgen.SPECIAL + sqlgen.deep_statements(tier)
    inp = "".join(json.dumps({"sql": s}) + "\n" for s in stmts)
    p = common.vh(["walk"], input=inp, timeout=1200)
    results = [json.loads(l) for l in p.stdout.splitlines() if l.strip()]
    if p.returncode != 0 or len(results) != len(stmts):
        rp.violation({"kind": "harness", "detail": p.stderr[-2000:], "got": len(results), "want": len(stmts)}, "walk_harness", no_input=True)
    accepted = [r for r in results if r["accepted"]]
    rp.cov["evaluations"] = len(results)
    seen_shapes = set()
    types_seen, edges_seen = set(), set()
    miss_new = {}
    for r in accepted:
        shape = tuple((n["ty"], n["parent"], n["field"]) for n in r["nodes"])
        if 2 < len(r["nodes"]) < 3000:
            seen_shapes.add(shape)
        for n in r["nodes"]:
            types_seen.add(n["ty"])
            if n["parent"] >= 0:
                edges_seen.add((r["nodes"][n["parent"]]["ty"], n["field"]))
        if r.get("panic") or r.get("foreign") or r.get("typed_nil") or r.get("unknown_edges"):
            rp.violation({"kind": "oracle", "sql": r["sql"], "panic": r.get("panic"), "foreign": r.get("foreign"),
                          "typed_nil": r.get("typed_nil"), "unknown_edges": r.get("unknown_edges"),
                          "explanation": "Inspect panicked / visited a node that is not part of the tree / tree uses an edge absent from the table"},
                         "oracle_%d" % len(rp.violations))
            continue
        # missed nodes: attribute each to the first un-emitted edge on its path
        visited = set(r["visited"])
        for n in r["nodes"]:
            if n["id"] in visited or n["parent"] < 0:
                continue
            par = r["nodes"][n["parent"]]
            if par["id"] not in visited and par["parent"] >= 0:
                continue  # consequence of a gap higher up
            edge = (par["ty"], n["field"])
            if edge in known_set:
                continue
            miss_new.setdefault(edge, r["sql"])
    for edge, sql in miss_new.items():
        t, pth = rev.get(edge, ("?", "?"))
        rp.violation({"kind": "oracle", "sql": sql, "type": t, "path": pth,
                      "explanation": "ast.Inspect does not visit the node stored at %s.%s of this parsed statement" % (t, pth)},
                     "missed_%s_%s" % (t, pth))
    rp.cov["distinct_nontrivial"] = len(seen_shapes)
    rp.cov["rule"] = ("inputs: repository corpus statements + generated statements; each accepted input's tree is dumped by reflection, "
                      "walked by the real ast.Inspect and by the Coq model instantiated with the regenerated table; "
                      "non-trivial = accepted, more than 2 nodes; distinct = distinct reflected tree shape")
    rp.cov["accepted"] = len(accepted)
    rp.cov["node_types_seen"] = len(types_seen)
    rp.cov["edges_seen"] = len(edges_seen)
    rp.cov["edges_in_table"] = len(ct["fields"])
    rp.cov["table_rows"] = len(rows)
    rp.cov["exhaustive_table"] = True

    # model correspondence inside Coq on a sample of real trees
    sample = [r for r in accepted if 2 < len(r["nodes"]) <= 400 and not r.get("unknown_edges")]
    rng.shuffle(sample)
    sample = sample[:250 if tier == "quick" else 2000]
    if ok_inst and sample:
        shards = [sample[i::8] for i in range(8)] if tier != "quick" else [sample]
        bad_total = []
        for si, sh in enumerate(shards):
            if not sh:
                continue
            body = "From Coq Require Import List NArith.\nFrom GV Require Import Model.Walk Gen.ChildrenTable.\nImport ListNotations.\nOpen Scope N_scope.\n"
            body += "Definition cases : list (gtree * list N) := [\n" + ";\n".join(
                "(%s, [%s])" % (gtree_term(r["nodes"]), "; ".join(str(v) for v in sorted(set(r["visited"])))) for r in sh) + "].\n"
            body += "Definition bad := Eval vm_compute in bad_indices (walk_case_ok fields emitted) 0 cases.\nPrint bad.\n"
            okc, outc, errc = common.coq_cases("c14_cases_%d" % si, body)
            if not okc:
                rp.violation({"kind": "correspondence", "detail": errc[-2000:]}, "walk_cases_coq", no_input=True)
                break
            idxs = common.parse_nlist(outc)
            bad_total += [sh[i] for i in idxs]
        rp.cov["traces_validated_against_model"] = len(sample)
        rp.obligation("correspondence: Coq walk(emitted) = ast.Inspect on %d reflected real trees" % len(sample), not bad_total)
        for r in bad_total[:3]:
            rp.violation({"kind": "correspondence", "sql": r["sql"], "visited": r["visited"], "nodes": r["nodes"],
                          "explanation": "the traversal model instantiated with the probed Children() table visits a different node set than the real ast.Inspect: the table misdescribes the code (non-uniform Children())"},
                         "walk_model_mismatch_%d" % len(rp.violations))
    rp.cov["samples"] = [{"sql": r["sql"][:200], "nodes": len(r["nodes"]), "visited": len(r["visited"])} for r in accepted[:3]] + \
                        [{"table_row": rows[k]} for k in list(rows)[:2]]
    rp.assumptions = ["reflect-reachability through exported fields is what 'part of the tree' means",
                      "the Children() probe is field-wise uniform (validated by the model-vs-Inspect correspondence on real trees)"]
    return rp.finish()


def replay(path):
    d = json.load(open(path))
    if d.get("kind") == "table-gap":
        p = common.vh(["walkprobe", d["type"], d["path"]])
        print(p.stdout)
        return p.returncode
    if d.get("sql") is not None:
        p = common.vh(["walk"], input=json.dumps({"sql": d["sql"]}) + "\n")
        r = json.loads(p.stdout.splitlines()[0])
        print(json.dumps({k: r.get(k) for k in ("missed", "foreign", "panic", "typed_nil")}))
        return 1 if (r.get("missed") or r.get("foreign") or r.get("panic")) else 0
    return 2
