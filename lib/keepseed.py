"""keepseed.py <prop> <letter> <pkgdir> <summary> <needs> <caught_by>  — moves a confirmed seed from _incoming to seeded/<prop>-<letter>"""
import json, os, shutil, sys
prop, letter, pkg, summary, needs, caught = sys.argv[1:7]
src = '/verif/seeded/_incoming/%s' % prop
dst = '/verif/seeded/%s-%s' % (prop, letter)
os.makedirs(dst, exist_ok=True)
shutil.copy(src + '/MUT_%s.diff' % letter, dst + '/patch.diff')
shutil.copy(src + '/MUT_%s_demo_test.go' % letter, dst + '/demo_test.go')
json.dump({"property": prop, "summary": summary, "needs_to_manifest": needs, "demo_package_dir": pkg,
           "confirmed_by": "bin/confirm_seed patch.diff demo_test.go %s  (scratch worktree: demo passes without patch, builds, demo fails with patch, pinned baseline 6391/6391 passes with patch)" % pkg,
           "checked_with": "bin/selftest %s seeded/%s-%s/patch.diff" % (prop, prop, letter), "caught_by": caught},
          open(dst + '/meta.json', 'w'), indent=1)
