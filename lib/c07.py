"""C07 — all parsing and validation entry points agree."""
import json, random
import common, sqlgen, loopgen, loopscommon as lc
from common import Report

MANIFEST = dict(
    technique="Coq proofs that the separately modelled copies of the statement loop (Parse, ParseWithPositions, ParseContext, recovery) and the batch loop agree for every token list and every statement parser + recorded-statement-parser correspondence with the real loops + 15-way entry-point agreement oracle",
    text=("Model/Loops.v models each copy of the statement loop as written (Parser.Parse / ParseWithPositions, Parser.ParseContext, parseWithRecovery with "
          "its forced advance and synchronize, the batch loop of ParseMultiple/ValidateMultiple), parametric in the statement parser. Proved for every token list and every "
          "statement parser: the context variant equals Parse in default and strict mode; recovery accepts exactly when Parse accepts, with the same trees, and its first error "
          "carries Parse's error code; strict mode only ever adds the strict error; a batch returns exactly the individual results and fails at the first failing index. "
          "The tie is checked on every run: the real parseStatement is recorded from every cursor position of every input (result, cursor afterwards), the Coq loops are evaluated on "
          "that table and must reproduce what the real Parse, Parse(strict), ParseContext, ParseContext(strict), recovery and synchronize returned; an implementation-side oracle runs all 15 entry points "
          "of the property on every input and requires joint agreement (accept/reject, trees, error code), plus batch lists against the individual calls."
          " The batch on ONE reused parser (multi_st, state threaded from member to member) equals the batch of individual calls whenever every call leaves the parser as good as new (C07_batch_reused_parser; depth-counter instance and a leak refutation); exercised by long batches (120-320 members, 18 statement kinds x 150), batches with two malformed members, one accepted statement per pooled construct, statements framed by unusual blank characters, and one parser used through several of its methods in turn."),
    note=common.BASE_NOTE + "The wrappers (tokenize + convert + loop) are covered by the 15-way oracle, not by a theorem; the statement parser itself is abstract in the theorems (its determinism is property C08).",
    design="6/C07")

TREE_EPS = {"gosqlx.Parse", "gosqlx.ParseBytes", "gosqlx.ParseWithContext", "gosqlx.ParseWithTimeout", "gosqlx.ParseMultiple",
            "gosqlx.ParseWithRecovery", "parser.ParseBytes", "parser.ParseBytesWithTokens", "parser.ParseWithDialect",
            "Parser.Parse", "Parser.ParseContext", "Parser.ParseWithPositions", "Parser(reused).Parse", "Parser(reused).ParseWithPositions"}


def disagreement(row):
    """implementation-side oracle: returns a description of the first disagreement among the entry points, or None"""
    es = row.get("entries") or []
    if not es:
        return None
    for e in es:
        if e.get("panic"):
            return "%s panicked: %s" % (e["name"], e["panic"][:200])
    acc = {e["name"]: e["accepted"] for e in es}
    if len(set(acc.values())) > 1:
        return "accept/reject differs: accepted by %s, rejected by %s" % (
            sorted(n for n, a in acc.items() if a), sorted(n for n, a in acc.items() if not a))
    if all(acc.values()):
        trees = {e["name"]: tuple(e.get("trees") or []) for e in es if e["name"] in TREE_EPS}
        if len(set(trees.values())) > 1:
            return "trees differ: %s" % sorted(trees.items())[:4]
    else:
        codes = {e["name"]: e["err"].get("code", "") for e in es}
        if len(set(codes.values())) > 1:
            return "error codes differ: %s" % sorted(set((c, n) for n, c in codes.items()))[:6]
    return None


def strict_disagreement(row):
    ss = [row.get(k) for k in ("strict_parse", "strict_ctx", "strict_pos")]
    if any(s is None for s in ss):
        return None
    for s in ss:
        if s.get("panic"):
            return "%s panicked" % s["name"]
    sig = [(s["accepted"], tuple(s.get("trees") or []), s["err"].get("code", "")) for s in ss]
    if len(set(sig)) > 1:
        return "strict mode: " + "; ".join("%s -> %s" % (s["name"], "accepted" if g[0] else g[2]) for s, g in zip(ss, sig))
    return None


def has_non_semicolon(row):
    if row.get("tok_err"):
        return True
    return any(c not in "SE" for c in row.get("kinds") or "")


CONSTRUCTS = [
    "SELECT a[1], b[2:3], c[1][2] FROM t", "SELECT a[1] FROM t WHERE b[2] = c[3]", "SELECT CASE WHEN a = 1 THEN 'x' WHEN a = 2 THEN 'y' ELSE 'z' END FROM t",
    "SELECT CAST(a AS INT), b::text FROM t", "SELECT COUNT(*) FILTER (WHERE a > 1) FROM t", "SELECT a FROM t WHERE a IN (1, 2, 3) AND b BETWEEN 1 AND 2",
    "SELECT a FROM t WHERE EXISTS (SELECT 1 FROM u) AND a NOT IN (SELECT b FROM u)", "SELECT INTERVAL '1 day', EXTRACT(YEAR FROM d) FROM t",
    "SELECT (1, 2), ROW(1, 2) FROM t", "SELECT ARRAY[1, 2, 3] FROM t", "SELECT SUM(a) OVER (PARTITION BY b ORDER BY c ROWS BETWEEN 1 PRECEDING AND CURRENT ROW) FROM t",
    "SELECT a FROM t WHERE a IS NULL OR b IS NOT NULL", "SELECT a -> 'k', b ->> 'j', c #> '{x}' FROM t", "SELECT a FROM t WHERE a LIKE 'x%' OR b ILIKE 'y%'",
    "SELECT -a, +b, NOT c FROM t", "SELECT f(a, g(b)), UPPER(c) FROM t", "SELECT a FROM t ORDER BY a DESC NULLS LAST LIMIT 3 OFFSET 1",
    "SELECT a FROM t GROUP BY ROLLUP (a, b), CUBE (c)", "SELECT a FROM t GROUP BY GROUPING SETS ((a), (b, c), ())", "SELECT * FROM t1 JOIN t2 USING (a) LEFT JOIN t3 ON t1.a = t3.a",
    "WITH c AS (SELECT 1) SELECT * FROM c", "SELECT a FROM t UNION ALL SELECT b FROM u EXCEPT SELECT c FROM v", "INSERT INTO t (a, b) VALUES (1, 'x'), (2, 'y') ON CONFLICT (a) DO NOTHING",
    "UPDATE t SET a = 1, b = b + 1 WHERE c = 2 RETURNING a", "DELETE FROM t WHERE a = 1 RETURNING *",
    "MERGE INTO t USING s ON t.id = s.id WHEN MATCHED THEN UPDATE SET a = s.a WHEN NOT MATCHED THEN INSERT (id) VALUES (s.id)",
    "CREATE TABLE t (a INT PRIMARY KEY, b TEXT DEFAULT 'x' NOT NULL, c INT REFERENCES u (id) ON DELETE CASCADE)", "CREATE INDEX i ON t (a, b) WHERE a > 1",
    "CREATE VIEW v AS SELECT a FROM t", "ALTER TABLE t ADD COLUMN c INT", "DROP TABLE IF EXISTS t CASCADE", "TRUNCATE TABLE t",
    "SELECT a FROM t FOR UPDATE SKIP LOCKED", "SELECT DISTINCT ON (a) a, b FROM t", "SELECT a FROM t FETCH FIRST 3 ROWS ONLY", "SELECT $1, ?, :name FROM t",
]


def inputs(rng, tier):
    n = 500 if tier == "quick" else 12000
    ins = []
    ins += [s for s in sqlgen.corpus_statements() if len(s) < 600][: (150 if tier == "quick" else 2000)]
    ins += sqlgen.generated_statements(rng, n // 3)
    ins += sqlgen.SPECIAL
    for segs in loopgen.scripts(rng, n // 2):
        ins.append(loopgen.join(rng, segs))
    ins += loopgen.soup(rng, n // 4)
    ins += loopgen.nospace_multi(rng, n // 10)
    # one accepted statement per construct whose nodes come from the node pools (the validating entry points release
    # their trees: a tree-returning entry point that runs next on the same text takes those very nodes)
    ins += CONSTRUCTS
    # characters that Unicode counts as white space but the tokenizer may not, at the very start / end of a statement
    for s0 in ["SELECT id FROM users", "SELECT FROM", "SELECT a FROM t WHERE a = 1;"]:
        for ch in ["\f", "\v", "\u00a0", "\u0085", "\u2003", "\u3000", "\ufeff", "\r", "\u2028", "\u200b", "\x1c", "\x00"]:
            ins += [ch + s0, s0 + ch, ch + s0 + ch, s0.replace(" ", ch, 1)]
    ins += [";", ";;", "SELECT 1;", ";SELECT 1", "SELECT 1;;SELECT 2", "SELECT 'unterminated", "SELECT 1 FROM", "-- c\n;", "SELECT \x00"]
    ins += [loopgen.corrupt(rng, s)[1] for s in sqlgen.generated_statements(rng, n // 4)]
    ins = [k["witness"]["sql"] for k in common.known_findings("C07") if isinstance(k.get("witness"), dict) and k["witness"].get("sql")] + ins
    seen, out = set(), []
    for s in ins:
        if s not in seen:
            seen.add(s); out.append(s)
    return out


def run(tier):
    rp = Report("C07", tier)
    rng = random.Random(common.seed())
    theorems = ["Props.C07.C07_entry_points_agree", "Props.C07.C07_parse_context_agrees", "Props.C07.C07_recovery_accepts_iff", "Props.C07.C07_recovery_same_code",
                "Props.C07.C07_recovery_same_trees", "Props.C07.C07_strict_refines", "Props.C07.C07_batch_ok",
                "Props.C07.C07_batch_first_failure", "Props.C07.C07_batch_all_ok", "Props.C07.C07_batch_reused_parser",
                "Props.C07.C07_batch_depth_balanced", "Props.C07.C07_batch_depth_leak_refuted"]
    try:
        with common.Lock():
            common.stage_harness()
            ok_inst, ok_props, _, logs = common.coq_stage(rp, ["theories/Proofs/LoopsP.vo", "theories/Proofs/WrappersP.vo"], "theories/Props/C07.v", theorems)
    except common.StageError as e:
        return common.stage_fail(rp, e)
    if not ok_inst or not ok_props:
        rp.violation({"kind": "proof", "theorem": "Props/C07.v", "log": (logs["inst"] + logs["props"])[-3000:]}, "props_c07", no_input=True)

    ins = inputs(rng, tier)
    p, rows = lc.run_loops(ins)
    if p.returncode != 0 or len(rows) != len(ins):
        rp.violation({"kind": "harness", "detail": p.stderr[-2000:], "got": len(rows), "want": len(ins)}, "loops_harness", no_input=True)
    rp.cov["evaluations"] = len(rows)
    dist = {"tokenizer_rejects": 0, "all_accept": 0, "all_reject": 0, "semicolon_only": 0, "multi_statement": 0}
    nontrivial = set()
    viol = {}
    for r in rows:
        if not has_non_semicolon(r):
            dist["semicolon_only"] += 1
            continue
        if r.get("tok_err"):
            dist["tokenizer_rejects"] += 1
        es = r.get("entries") or []
        if es and all(e["accepted"] for e in es):
            dist["all_accept"] += 1
        elif es and not any(e["accepted"] for e in es):
            dist["all_reject"] += 1
        if (r.get("kinds") or "").count("K") > 1:
            dist["multi_statement"] += 1
        nontrivial.add((r.get("kinds"), tuple((e["ok"], e["end"]) for e in r.get("ps") or [])))
        d = disagreement(r) or strict_disagreement(r)
        if d:
            key = d.split(":")[0] + "|" + (d.split(":")[1][:60] if ":" in d else "")
            viol.setdefault(key, (r, d))
    for key, (r, d) in list(viol.items())[:5]:
        rp.violation({"kind": "oracle", "sql": r["sql"], "disagreement": d,
                      "entries": [{k: e.get(k) for k in ("name", "accepted", "trees")} | {"code": e["err"].get("code")} for e in r.get("entries") or []],
                      "strict": [{"name": s["name"], "accepted": s["accepted"], "code": s["err"].get("code")} for s in (r.get("strict_parse"), r.get("strict_ctx"), r.get("strict_pos")) if s],
                      "explanation": "the entry points of the property do not agree on this input"},
                     "disagree_%d" % len(rp.violations))
    rp.obligation("oracle: 15 entry points (+3 strict-mode Parser methods) agree on %d inputs" % len(rows), not viol)

    # correspondence: Coq loops on the recorded statement-parser tables
    sample = [r for r in rows if not r.get("tok_err")]
    if tier == "quick":
        rng.shuffle(sample); sample = sample[:500]
    if ok_inst:
        n_eval, bad, err = lc.model_correspondence(sample, "c07_cases")
        rp.cov["traces_validated_against_model"] = n_eval
        rp.obligation("correspondence: Coq Parse/Parse(strict)/ParseContext/ParseContext(strict)/recover/sync = real loops on %d recorded tables" % n_eval, not bad and not err, err or "")
        if err:
            rp.violation({"kind": "correspondence", "detail": err}, "loops_cases_coq", no_input=True)
        for r, mask in bad[:3]:
            # the model no longer describes the loops: does the implementation violate the property on this input?
            d = disagreement(r) or strict_disagreement(r)
            rp.violation({"kind": "correspondence", "sql": r["sql"], "differs_on": lc.mask_names(mask), "oracle": d,
                          "theorem": "the loop theorems of Props/C07.v are about Model/Loops.v, which no longer reproduces these entry points",
                          "explanation": "the Coq model of the statement loops, run on the recorded parseStatement table, returns something else than the real entry point"},
                         "loops_model_mismatch_%d" % len(rp.violations), no_input=(d is None))
    hyp = {}
    for r in rows:
        for h in lc.ps_hypotheses(r):
            hyp.setdefault(h.split(" at ")[0], r["sql"])
    rp.cov["ps_hypothesis_violations"] = hyp
    for h, sql in hyp.items():
        rp.violation({"kind": "oracle", "sql": sql, "what": h, "explanation": "parseStatement breaks an assumption of the loop theorems (progress / monotone cursor / depth restored / no panic)"},
                     "ps_hypothesis_%d" % len(rp.violations))

    # batch calls
    nb = 150 if tier == "quick" else 4000
    base = loopgen.base_statements(rng, 60)
    batches = []
    for _ in range(nb):
        k = rng.randrange(1, 7)
        qs = []
        for _ in range(k):
            s = rng.choice(base)
            x = rng.random()
            if x < 0.25:
                s = loopgen.corrupt(rng, s)[1]
            elif x < 0.35:
                s = rng.choice(loopgen.LEXBAD)      # rejected by the tokenizer, not the parser
            qs.append(s)
        batches.append(qs)
    # long batches (the batch entry points reuse one parser for the whole list: state that accumulates from member to
    # member — nesting depth, counters — shows only after many members): statements of every kind incl. sub-queries
    # that start with WITH, one kind repeated and mixed, with and without a malformed member near the end
    rich = loopgen.rich_statements(rng, 60)
    for j in range(8 if tier == "quick" else 80):
        m = rng.randrange(120, 320)
        qs = [rich[j % len(rich)]] * m if j % 2 == 0 else [rng.choice(rich) for _ in range(m)]
        if j % 3 == 0:
            qs = qs + [loopgen.corrupt(rng, rng.choice(base))[1]] + qs[:3]
        batches.append(qs)
    for s in loopgen.RICH:
        batches.append([s] * 150)
    # two malformed members in a batch of 16 or more: the earlier one takes long to reject (a long statement whose error is
    # at its very end), the later one is rejected at once — the batch must still fail at the FIRST failing index
    slow_bad = "SELECT " + ", ".join("c%d" % i for i in range(3000)) + " FROM t WHERE"
    for j in range(6 if tier == "quick" else 40):
        n = 18 + 7 * j
        qs = [rng.choice(base) for _ in range(n)]
        i1 = rng.randrange(1, 4)
        i2 = rng.randrange(i1 + 8, n)
        qs[i1] = slow_bad
        qs[i2] = rng.choice(["SELECT 'abc", "SELECT FROM", ")"])
        batches.append(qs)
    pb = common.vh(["batch"], input="".join(json.dumps({"queries": q}) + "\n" for q in batches), timeout=900)
    brow = [json.loads(l) for l in pb.stdout.splitlines() if l.strip()]
    bbad = []
    first_fail = 0
    for b in brow:
        singles = b["singles"]
        fails = [i for i, s in enumerate(singles) if not s["accepted"]]
        if not fails:
            ok = b["multi_ok"] and b["vmulti_ok"] and [tuple(t or []) for t in b["multi_trees"] or []] == [tuple(s["trees"] or []) for s in singles]
            why = "batch of accepted queries differs from the individual calls"
        else:
            first_fail += 1
            i = fails[0]
            ok = (not b["multi_ok"]) and (not b["vmulti_ok"]) and b["multi_code"] == singles[i]["code"] == b["vmulti_code"] \
                and ("query %d" % i) in b["multi_msg"] and ("query %d" % i) in b["vmulti_msg"]
            why = "batch does not fail at the first failing index %d with that query's error" % i
        if not ok:
            bbad.append((b, why))
    rp.cov["batches"] = len(brow)
    rp.cov["batches_with_failure"] = first_fail
    rp.obligation("oracle: ParseMultiple/ValidateMultiple = individual calls, first failing index, on %d batches" % len(brow), not bbad and len(brow) == len(batches))
    for b, why in bbad[:3]:
        rp.violation({"kind": "oracle", "queries": b["queries"], "why": why, "observed": {k: b[k] for k in ("multi_ok", "multi_code", "multi_msg", "vmulti_ok", "vmulti_code", "vmulti_msg")},
                      "singles": b["singles"][:12]}, "batch_%d" % len(rp.violations))

    rp.cov["distinct_nontrivial"] = len(nontrivial)
    rp.cov["input_distribution"] = dist
    rp.cov["rule"] = ("inputs: corpus statements, generated statements, scripts of 1-6 segments (40% corrupted by token delete/duplicate/replace/truncate) joined with stray semicolons, "
                      "token soup, statements without separators, lexical garbage; every input goes through 15 entry points + 3 strict-mode Parser methods and the recorded-ps table; "
                      "non-trivial = has a token other than semicolons; distinct = distinct (token classes, parseStatement result table)")
    rp.cov["samples"] = [{"sql": r["sql"][:160], "kinds": r.get("kinds"), "ps": [(e["ok"], e["end"], e.get("code")) for e in (r.get("ps") or [])[:12]]} for r in rows[:2] + rows[-2:]]
    rp.assumptions = ["the statement parser is a deterministic function of (tokens, cursor, options) — property C08",
                      "tree equality is equality of the reflective dump of all exported fields"]
    return rp.finish()


def replay(path):
    d = json.load(open(path))
    if d.get("sql") is not None:
        _, rows = lc.run_loops([d["sql"]])
        r = rows[0]
        why = disagreement(r) or strict_disagreement(r) or "; ".join(lc.ps_hypotheses(r))
        print(why or "entry points agree")
        return 1 if why else 0
    if d.get("queries") is not None:
        pb = common.vh(["batch"], input=json.dumps({"queries": d["queries"]}) + "\n")
        print(pb.stdout[:2000])
        b = json.loads(pb.stdout.splitlines()[0])
        fails = [i for i, s in enumerate(b["singles"]) if not s["accepted"]]
        if not fails:
            return 0 if b["multi_ok"] and b["vmulti_ok"] else 1
        i = fails[0]
        return 0 if (not b["multi_ok"] and ("query %d" % i) in b["multi_msg"] and b["multi_code"] == b["singles"][i]["code"]) else 1
    return 2
