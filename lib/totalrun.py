"""Driver for the C01 harness ('vh total'): feeds inputs to worker processes, attributes panics, process deaths
(fatal errors) and stalls (hangs) to the (input, entry point, token variant) that was running."""
import base64, json, os, queue, resource, subprocess, threading, time
import common


def _limits(mem_gb):
    def f():
        resource.setrlimit(resource.RLIMIT_AS, (mem_gb << 30, mem_gb << 30))
    return f


def run_slice(vh, items, only, stall_s, mem_gb, out):
    """items: list of (id, bytes). Appends findings to out (list of dicts); returns number of completed calls"""
    pending = list(items)
    calls = 0
    while pending:
        p = subprocess.Popen([vh, "total"] + ([only] if only else []), stdin=subprocess.PIPE, stdout=subprocess.PIPE, stderr=subprocess.PIPE,
                             preexec_fn=_limits(mem_gb))
        def feed(batch=list(pending)):
            try:
                for i, b in batch:
                    p.stdin.write((json.dumps({"id": i, "b64": base64.b64encode(b).decode()}) + "\n").encode())
                p.stdin.close()
            except (BrokenPipeError, OSError):
                pass
        threading.Thread(target=feed, daemon=True).start()
        q = queue.Queue()
        def reader():
            for line in p.stdout:
                q.put(line.decode("utf-8", "replace").rstrip("\n"))
            q.put(None)
        threading.Thread(target=reader, daemon=True).start()
        cur, variant, done_ids, stalled = None, None, set(), False
        while True:
            try:
                line = q.get(timeout=stall_s)
            except queue.Empty:
                stalled = True
                break
            if line is None:
                break
            if line.startswith("B "):
                _, i, name = line.split(" ", 2)
                cur, variant = (int(i), name), None
            elif line.startswith("V "):
                variant = line[2:]
            elif line.startswith("E "):
                _, i, rest = line.split(" ", 2)
                calls += 1
                if " PANIC:" in rest:
                    name, msg = rest.split(" PANIC:", 1)
                    out.append({"kind": "panic", "id": int(i), "entry": name, "variant": variant, "detail": msg[:500]})
                cur = None
                if rest.startswith("Parser.*FromModelTokens"):
                    done_ids.add(int(i))       # last entry of an input
        if stalled:
            p.kill()
            out.append({"kind": "hang", "id": cur[0] if cur else -1, "entry": cur[1] if cur else "?", "variant": variant, "detail": "no progress for %ds" % stall_s})
        else:
            rc = p.wait()
            if cur is not None:
                err = p.stderr.read().decode("utf-8", "replace")
                out.append({"kind": "fatal", "id": cur[0], "entry": cur[1], "variant": variant, "detail": (err[:300] + " ... " + err[-300:]) if len(err) > 700 else err, "rc": rc})
        p.stdout.close(); p.stderr.close()
        if cur is None and not stalled:
            break
        # restart after the offending input
        bad = cur[0] if cur else None
        ids = [i for i, _ in pending]
        if bad in ids:
            pending = pending[ids.index(bad) + 1:]
        else:
            break
    return calls


def run_all(inputs, only=None, workers=8, stall_s=20, mem_gb=6):
    """inputs: list of bytes. returns (findings, calls)"""
    vh = common.stage_harness()
    items = list(enumerate(inputs))
    slices = [items[i::workers] for i in range(workers)]
    outs = [[] for _ in slices]
    calls = [0] * len(slices)
    def work(k):
        calls[k] = run_slice(vh, slices[k], only, stall_s, mem_gb, outs[k])
    ts = [threading.Thread(target=work, args=(k,)) for k in range(len(slices))]
    for t in ts: t.start()
    for t in ts: t.join()
    return [f for o in outs for f in o], sum(calls)
