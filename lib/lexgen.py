"""Lexical generator and reference lexer for C04, both written from the reference lexical grammar
(coq/theories/Spec/LexSpec.v), independent of the Go tokenizer and of the Coq model of it.

Lexeme = (cls, text, kind, value, quote):
  word        [A-Za-z_ or Unicode letter][letters, digits, _, marks]*      kind = keyword type | Identifier
  number      digits [. digits] [(e|E) [+|-] digits]
  sstring     '...' with '' and backslash escapes; also the typographic single quotes
  qident      "..." with "" ; also the typographic double quotes
  bident      `...` with ``
  tstring     '''...'''
  dollar      $tag$...$tag$
  param       $n, @name, $
  op          every operator / punctuation mark
Separator = sequence of: spaces, tabs, CR, LF, line comment (ends with LF or end of input), block comment.
"""
import random, re

OPS = [("(", "LeftParen"), (")", "RightParen"), ("[", "LBracket"), ("]", "RBracket"), (",", "Comma"), (";", "Semicolon"),
       (".", "Dot"), ("+", "Plus"), ("-", "Minus"), ("->", "Arrow"), ("->>", "LongArrow"), ("*", "Mul"), ("/", "Div"),
       ("=", "Eq"), ("=>", "RArrow"), ("<", "Lt"), ("<=", "LtEq"), ("<>", "Neq"), ("<@", "ArrowAt"), (">", "Gt"),
       (">=", "GtEq"), ("!", "ExclamationMark"), ("!=", "Neq"), ("!~", "ExclamationMarkTilde"),
       ("!~*", "ExclamationMarkTildeAsterisk"), (":", "Colon"), ("::", "DoubleColon"), ("%", "Mod"), ("|", "Pipe"),
       ("||", "StringConcat"), ("&", "Ampersand"), ("&&", "Overlap"), ("@", "AtSign"), ("@>", "AtArrow"), ("@@", "AtAt"),
       ("#", "Sharp"), ("#>", "HashArrow"), ("#>>", "HashLongArrow"), ("#-", "HashMinus"), ("?", "Question"),
       ("?|", "QuestionPipe"), ("?&", "QuestionAnd"), ("~", "Tilde"), ("~*", "TildeAsterisk")]
OPMAP = dict(OPS)
OPS_BY_LEN = sorted(OPMAP, key=lambda s: -len(s))

SEP_CLASSES = ["none", "space", "tab", "cr", "lf", "crlf", "line_comment", "block_comment", "mixture"]

ESCAPES = [("\\\\", "\\"), ("\\'", "'"), ('\\"', '"'), ("\\`", "`"), ("\\n", "\n"), ("\\r", "\r"), ("\\t", "\t")]

UNI_WORDS = ["名前", "ユーザー", "café", "пользователи", "naïve", "संख्या१", "Ünïcode_1", "x́y", "ſelect", "ınner", "_é", "µ", "ǅ", "a‿b"]
WORDS = ["a", "b", "t1", "users", "x_y", "_tmp", "col2", "Name", "e", "E1", "selects", "fromage", "groupby", "nullx", "leftjoin"]
COMPOUND_SECOND = ["BY", "JOIN", "SETS", "OUTER"]


def is_word_start(ch):
    return ch == "_" or ch.isalpha()


def is_word_part(ch):
    import unicodedata
    return ch == "_" or ch.isalpha() or unicodedata.category(ch) in ("Nd", "Mn", "Mc", "Pc")


class Tables:
    def __init__(self, t):
        self.tt = t["tt"]
        self.kw = {r["text"]: r["type"] for r in t["keywords"]}
        self.compound = {r["text"]: r["type"] for r in t["compound"]}
        self.starts = {r["text"] for r in t["compound_starts"]}
        self.kwtypes = set(self.kw.values()) | set(self.compound.values())


def go_upper(s):
    """strings.ToUpper as far as a lookup in an ASCII-keyed table can see it"""
    return s.upper() if s.isascii() else "".join(c.upper() if len(c.upper()) == 1 else c for c in s)


# ------------------------------------------------------------------------------------------------
# reference lexer: maximal munch over the lexeme classes of the grammar.  Returns (tokens, comments) or None when
# the text is outside the grammar (unterminated literal, stray character, malformed number, bad escape).

_num = re.compile(r"[0-9]+(\.[0-9]+)?([eE][+-]?[0-9]+)?")
SQ = {"'": "'", "‘": "'", "’": "'", "«": "'", "»": "'"}
DQ = {'"': '"', "“": '"', "”": '"'}
NORMQ = dict(SQ); NORMQ.update(DQ)
ESC = {"\\": "\\", '"': '"', "'": "'", "`": "`", "n": "\n", "r": "\r", "t": "\t"}


def _ref_lex(text, tb):
    toks, coms, i, n = [], [], 0, len(text)
    while i < n:
        ch = text[i]
        if ch in " \t\r\n":
            i += 1; continue
        if text.startswith("--", i):
            j = text.find("\n", i)
            j = n if j < 0 else j
            coms.append(text[i:j]); i = j; continue
        if text.startswith("/*", i):
            j = text.find("*/", i + 2)
            if j < 0:
                return None
            coms.append(text[i:j + 2]); i = j + 2; continue
        if is_word_start(ch):
            j = i + 1
            while j < n and is_word_part(text[j]):
                j += 1
            w = text[i:j]
            toks.append(("word", w, 0, i, j)); i = j; continue
        if ch.isascii() and ch.isdigit():
            m = _num.match(text, i)
            j = m.end()
            # a number must not run into '.', an exponent marker without digits, or further digits
            if j < n and (text[j] == "." or text[j] in "eE"):
                return None
            toks.append(("Number", m.group(0), 0, i, j)); i = j; continue
        if ch in SQ:
            if ch == "'" and text.startswith("'''", i):
                j = text.find("'''", i + 3)
                if j < 0:
                    return None
                toks.append(("TripleSingleQuotedString", text[i + 3:j], ord("'"), i, j + 3)); i = j + 3; continue
            j, buf = i + 1, []
            while True:
                if j >= n:
                    return None
                c = NORMQ.get(text[j], text[j])
                if c == "'":
                    if j + 1 < n and NORMQ.get(text[j + 1], text[j + 1]) == "'":
                        buf.append("'"); j += 2; continue
                    break
                if c == "\\":
                    if j + 1 >= n or text[j + 1] not in ESC:
                        return None
                    buf.append(ESC[text[j + 1]]); j += 2; continue
                buf.append(c); j += 1
            toks.append(("SingleQuotedString", "".join(buf), ord(ch), i, j + 1)); i = j + 1; continue
        if ch in DQ:
            j, buf = i + 1, []
            while True:
                if j >= n or text[j] == "\n":
                    return None
                c = NORMQ.get(text[j], text[j])
                if c == '"':
                    if j + 1 < n and NORMQ.get(text[j + 1], text[j + 1]) == '"':
                        buf.append('"'); j += 2; continue
                    break
                buf.append(c); j += 1
            toks.append(("DoubleQuotedString", "".join(buf), ord('"'), i, j + 1)); i = j + 1; continue
        if ch == "`":
            j, buf = i + 1, []
            while True:
                if j >= n:
                    return None
                if text[j] == "`":
                    if j + 1 < n and text[j + 1] == "`":
                        buf.append("`"); j += 2; continue
                    break
                buf.append(text[j]); j += 1
            toks.append(("Identifier", "".join(buf), ord("`"), i, j + 1)); i = j + 1; continue
        if ch == "$":
            j = i + 1
            if j < n and text[j].isascii() and text[j].isdigit():
                while j < n and text[j].isascii() and text[j].isdigit():
                    j += 1
                toks.append(("Placeholder", text[i:j], 0, i, j)); i = j; continue
            k = j
            if k < n and is_word_start(text[k]):
                while k < n and is_word_part(text[k]):
                    k += 1
            if k < n and text[k] == "$" and (k == j or is_word_start(text[j])):
                tag = text[i:k + 1]
                e = text.find(tag, k + 1)
                if e < 0:
                    return None
                toks.append(("DollarQuotedString", text[k + 1:e], 0, i, e + len(tag))); i = e + len(tag); continue
            toks.append(("Placeholder", "$", 0, i, j)); i = j; continue
        if ch == "@" and i + 1 < n and is_word_start(text[i + 1]):
            j = i + 2
            while j < n and is_word_part(text[j]):
                j += 1
            toks.append(("Placeholder", text[i:j], 0, i, j)); i = j; continue
        for o in OPS_BY_LEN:
            if text.startswith(o, i):
                toks.append((OPMAP[o], o, 0, i, i + len(o))); i += len(o); break
        else:
            return None
    return toks, coms


def ref_lex(text, tb):
    r = _ref_lex(text, tb)
    if r is None:
        return None
    return [t[:3] for t in r[0]], r[1]


def ref_stream(text, tb):
    """normalised (kind number, value) sequence the grammar prescribes, judged after compound keywords are split:
    keywords carry their upper-cased spelling"""
    r = ref_lex(text, tb)
    if r is None:
        return None
    toks, coms = r
    out = []
    for k, v, q in toks:
        if k == "word":
            u = go_upper(v)
            if u in tb.kw:
                out.append((tb.kw[u], u, 0))
            else:
                out.append((tb.tt["Identifier"], v, 0))
        else:
            out.append((tb.tt[k], v, q))
    return out, coms


def norm_raw(tokens, tb):
    """the implementation's raw tokens [(type, value, quote)] normalised the same way: compound tokens split into
    their words, keyword values upper-cased"""
    out = []
    for ty, v, q in tokens:
        if ty == tb.tt["EOF"]:
            continue
        if q == 0 and " " in v and go_upper(v) in tb.compound:
            for w in go_upper(v).split(" "):
                out.append((tb.kw.get(w, tb.tt["Identifier"]), w, 0))
        elif q == 0 and ty != tb.tt["Identifier"] and go_upper(v) in tb.kw and tb.kw[go_upper(v)] == ty:
            out.append((ty, go_upper(v), 0))
        else:
            out.append((ty, v, q))
    return out


# ------------------------------------------------------------------------------------------------
# generator

def gen_sep(rng, cls):
    if cls == "none":
        return ""
    if cls == "space":
        return " " * rng.choice([1, 1, 2, 3])
    if cls == "tab":
        return "\t" * rng.choice([1, 2])
    if cls == "cr":
        return "\r"
    if cls == "lf":
        return "\n" * rng.choice([1, 1, 2])
    if cls == "crlf":
        return "\r\n"
    if cls == "line_comment":
        return "--" + rng.choice(["", " c", " it's", ' "q', " /* x", " -- y", " sélect", "\t"]) + "\n"
    if cls == "block_comment":
        return "/*" + rng.choice(["", " c ", "*", "**", " ' ", " -- ", "\n", " /* ", " é "]) + "*/"
    parts = [gen_sep(rng, rng.choice(SEP_CLASSES[1:-1])) for _ in range(rng.randint(2, 4))]
    return "".join(parts)


def gen_lexeme(rng, tb, cls=None):
    cls = cls or rng.choice(["word", "word", "keyword", "keyword", "number", "sstring", "qident", "bident", "op", "op", "op",
                             "param", "dollar", "uword", "tstring", "usstring", "uqident"])
    if cls == "word":
        return rng.choice(WORDS)
    if cls == "uword":
        return rng.choice(UNI_WORDS)
    if cls == "keyword":
        k = rng.choice(sorted(tb.kw))
        m = rng.randint(0, 3)
        return k if m == 0 else k.lower() if m == 1 else k.capitalize() if m == 2 else "".join(rng.choice([c.lower(), c]) for c in k)
    if cls == "number":
        s = str(rng.choice([0, 1, 7, 42, 100, 12345678901234567890]))
        if rng.random() < 0.4:
            s += "." + rng.choice(["0", "5", "25", "000"])
        if rng.random() < 0.3:
            s += rng.choice("eE") + rng.choice(["", "+", "-"]) + rng.choice(["0", "3", "10"])
        return s
    if cls in ("sstring", "usstring"):
        o, c = ("'", "'") if cls == "sstring" else rng.choice([("‘", "’"), ("«", "»"), ("'", "’"), ("‘", "'")])
        items = []
        for _ in range(rng.randint(0, 5)):
            m = rng.random()
            if m < 0.5:
                items.append(rng.choice(["a", "b c", "select", "--", "/*", "*/", '"', "`", "é", "名", "\n", "$1", ";", "%"]))
            elif m < 0.7:
                items.append("''")
            else:
                items.append(rng.choice(ESCAPES)[0])
        return o + "".join(items) + c
    if cls in ("qident", "uqident"):
        o, c = ('"', '"') if cls == "qident" else rng.choice([("“", "”"), ('"', "”"), ("“", '"')])
        items = [rng.choice(["a", "My Col", "select", "insert", "'", "\\", "é", '""', "x--y", "/*"]) for _ in range(rng.randint(0, 3))]
        return o + "".join(items) + c
    if cls == "bident":
        items = [rng.choice(["a", "my col", "select", "insert", "from", "``", "'", '"', "\n", "é", "\\"]) for _ in range(rng.randint(0, 3))]
        return "`" + "".join(items) + "`"
    if cls == "tstring":
        return "'''" + rng.choice(["", "a", "it's", "a''b", "\n", '"', "\\", "é"]) + "'''"
    if cls == "param":
        return rng.choice(["$1", "$23", "@p", "@Name_1", "$", "?", ":"]) if rng.random() < 0.8 else "@" + rng.choice(UNI_WORDS[:4])
    if cls == "dollar":
        tag = rng.choice(["", "", "t", "tag", "fn_1", "é"])
        body = rng.choice(["", "x", "select 'a'", "$", "$ $", "a\nb", "$1", "$t", "é", "--", "/* "])
        if ("$" + tag + "$") in body + "$":
            body = "x"
        return "$" + tag + "$" + body + "$" + tag + "$"
    return rng.choice(OPS)[0]


def needs_sep(a, b, tb):
    """is the empty separator illegal between texts a and b according to the grammar (maximal munch would read the
    concatenation differently)?  decided with the reference lexer itself."""
    ra, rb, rab = ref_lex(a, tb), ref_lex(b, tb), ref_lex(a + b, tb)
    if ra is None or rb is None:
        return True
    if rab is None:
        return True
    return rab[0] != ra[0] + rb[0] or rab[1] != ra[1] + rb[1]


def gen_stream(rng, tb, nlex=None, sepcls=None):
    """a lexeme sequence with separators: returns (text, lexeme texts, separator texts)"""
    n = nlex or rng.randint(1, 8)
    lex = [gen_lexeme(rng, tb) for _ in range(n)]
    seps = [gen_sep(rng, rng.choice(SEP_CLASSES[1:])) if rng.random() < 0.3 else ""]
    for i in range(1, n):
        cls = sepcls or rng.choice(SEP_CLASSES)
        s = gen_sep(rng, cls)
        if needs_sep(lex[i - 1], s + lex[i], tb) or (s and needs_sep(lex[i - 1] + s, lex[i], tb)):
            s = " " + s if s else " "
            if needs_sep(lex[i - 1] + s, lex[i], tb):
                s = s + " "
        seps.append(s)
    tail = gen_sep(rng, rng.choice(SEP_CLASSES)) if rng.random() < 0.4 else ""
    if tail.startswith("--") and lex[-1] in ("-", "#"):
        tail = " " + tail
    if tail and needs_sep(lex[-1], tail + "x", tb) and needs_sep(lex[-1], tail, tb):
        tail = " " + tail
    text = "".join(s + l for s, l in zip(seps, lex)) + tail
    return text, lex, seps + [tail]


def relayout(rng, text, tb, conv=False, skip=()):
    """same lexemes, different separators and keyword case: re-render the reference reading of [text] with fresh
    separators (never the empty one unless it was legal) and re-cased keywords.  None if text is outside the grammar.
    skip: upper-case spellings that are not re-cased (words of the keyword table that this text uses as names)"""
    lexemes = lex_spans(text, tb)
    if lexemes is None or not lexemes:
        return None
    out = []
    for i, l in enumerate(lexemes):
        w = l
        if is_word_start(l[0]) and l.isascii() and go_upper(l) not in skip and (
                (go_upper(l) in tb.kw and go_upper(l) not in getattr(tb, "ident_like", ()))
                or (conv and go_upper(l) in getattr(tb, "conv_kw", ()))):
            m = rng.randint(0, 4)
            w = (l.upper() if m == 0 else l.lower() if m == 1 else l.swapcase() if m == 2 else l.capitalize() if m == 3
                 else "".join(rng.choice([c.lower(), c.upper()]) for c in l))
        if i > 0:
            s = gen_sep(rng, rng.choice(SEP_CLASSES[1:]))
            prev = out[-1]
            if needs_sep(prev, s + w, tb) or needs_sep(prev + s, w, tb):
                s = " " + s + " "
            out.append(s)
        out.append(w)
    return "".join(out)


def lex_spans(text, tb):
    """the source texts of the lexemes of [text] according to the reference lexer"""
    r = _ref_lex(text, tb)
    if r is None:
        return None
    return [text[t[3]:t[4]] for t in r[0]]
